"""Shared machinery for the QMI verification checks.

A check for property <ID> does, in this order (see DESIGN.md section 2):
  1. (translator-fed properties) regenerate Coq text from /repo's working tree;
  2. build the property's Coq theory (full .vo build) and re-compile its Properties.v,
     collecting the `Print Assumptions` block under every property theorem;
  3. run the correspondence: real QMI code and the Coq model on the same cases; the model
     is evaluated by coqc (`Eval vm_compute`) on generated case files;
  4. run the property oracle on the implementation's observations;
  5. report KNOWN-FINDING / VIOLATION lines, write evidence/<ID>.json, exit 0/1.
"""
import hashlib
import json
import os
import random
import re
import shutil
import subprocess
import sys
import time
from concurrent.futures import ThreadPoolExecutor

VERIF = os.path.dirname(os.path.dirname(os.path.abspath(__file__)))
REPO = os.environ.get("QMI_REPO", "/repo")
COQ = os.path.join(VERIF, "coq")
NPROC = int(os.environ.get("VERIF_JOBS", "16"))

# Axioms declared by Coq's own standard library that a theorem may depend on (each one used
# is listed in the evidence and in DESIGN.md's trusted base).  Anything else is an alarm.
STDLIB_AXIOMS = {
    "functional_extensionality_dep", "FunctionalExtensionality.functional_extensionality_dep",
    "Eqdep.Eq_rect_eq.eq_rect_eq", "eq_rect_eq", "proof_irrelevance", "classic", "JMeq_eq",
    "ClassicalEpsilon.constructive_indefinite_description",
}

FORBIDDEN = re.compile(
    r"\b(Admitted|admit|Axiom|Axioms|Parameter|Parameters|Conjecture|Conjectures|"
    r"Admit\s+Obligations|bypass_check|give_up)\b|Unset\s+Guard|Unset\s+Positivity|"
    r"Unset\s+Universe|type-in-type|impredicative-set")


def strip_coq_comments(text):
    out, depth, i, n = [], 0, 0, len(text)
    instr = False
    while i < n:
        c = text[i]
        if depth == 0 and c == '"':
            instr = not instr
            out.append(c)
            i += 1
            continue
        if not instr and text.startswith("(*", i):
            depth += 1
            i += 2
            continue
        if not instr and depth > 0 and text.startswith("*)", i):
            depth -= 1
            i += 2
            continue
        if depth == 0:
            out.append(c)
        elif c == "\n":
            out.append(c)
        i += 1
    return "".join(out)


def sh(cmd, timeout=600, cwd=None, env=None, input=None):
    p = subprocess.run(cmd, shell=isinstance(cmd, str), cwd=cwd, env=env, input=input,
                       stdout=subprocess.PIPE, stderr=subprocess.STDOUT, text=True,
                       timeout=timeout)
    return p.returncode, p.stdout


# ----------------------------------------------------------------------------------------
# Coq term printers used by the per-property case emitters
# ----------------------------------------------------------------------------------------

def cZ(n):
    n = int(n)
    return "(%d)%%Z" % n if n < 0 else "%d%%Z" % n


def cN(n):
    n = int(n)
    assert n >= 0
    return "%d%%N" % n


def cnat(n):
    n = int(n)
    assert 0 <= n < 5000
    return "%d%%nat" % n


def cbool(b):
    return "true" if b else "false"


def clist(items):
    return "[" + "; ".join(items) + "]"


def cbytes(bs):
    """bytes -> list N literal."""
    return "[" + ";".join(str(b) for b in bs) + "]%N"


def copt(x, f=lambda s: s):
    return "None" if x is None else "(Some %s)" % f(x)


def cpair(a, b):
    return "(%s, %s)" % (a, b)


def cstring_bytes(s):
    """python str -> list N of its UTF-8 bytes."""
    return cbytes(s.encode("utf-8"))


def ccodepoints(s):
    return "[" + ";".join(str(ord(ch)) for ch in s) + "]%N"


class Violation:
    def __init__(self, key, what, replay, found_input=True):
        self.key, self.what, self.replay, self.found_input = key, what, replay, found_input


def _harness_fault(text):
    """If `text` holds a traceback whose innermost frame is harness code failing on a missing attribute of an
    implementation object (AttributeError) or a TieBroken, return a one-line description, else None."""
    if not isinstance(text, str) or ("AttributeError" not in text and "TieBroken" not in text):
        return None
    text = text.replace("\\n", "\n").replace('\\"', '"')
    frames = re.findall(r'File "([^"]+)", line (\d+)', text)
    if not frames:
        return None
    fn, ln = frames[-1]
    hdir = os.path.join(VERIF, "harness")
    if not os.path.abspath(fn).startswith(hdir):
        return None
    m = re.search(r"(AttributeError|TieBroken|common\.TieBroken): ([^\n]{0,300})", text[text.rfind(fn):])
    if not m:
        return None
    if m.group(1) == "AttributeError" and ("has no attribute '_" not in m.group(2) or "'NoneType' object" in m.group(2)):
        return None     # only a PRIVATE name missing on a live implementation object counts as a rewritten internals
    return "%s at %s:%s: %s" % (m.group(1), os.path.relpath(fn, VERIF), ln, m.group(2))


class TieBroken(Exception):
    """The harness reaches into the implementation by a private name that no longer exists (or no longer means what the
    harness assumes): the correspondence cannot be run; reported as a broken tie, never as a property failure."""


def poke(obj, name, value):
    """Set a private attribute of an implementation object, but only if the implementation really has it: a silent
    setattr on a renamed attribute would make the harness test a state the code is not in."""
    if not hasattr(obj, name):
        raise TieBroken("%s has no attribute %r any more (renamed or removed); the harness sets it to drive the "
                        "implementation into a chosen state" % (type(obj).__name__ if not isinstance(obj, type) else obj.__name__, name))
    setattr(obj, name, value)


class Check:
    """Bookkeeping shared by all property checks."""

    def __init__(self, pid, tier="quick", seed=0, level="proof"):
        self.pid = pid
        self.tier = tier
        self.seed = int(seed)
        self.level = level
        self.rng = random.Random(self.seed * 1000003 + int(pid[1:]))
        self.t0 = time.time()
        self.violations = []          # Violation objects (after known-finding filtering)
        self.known_hits = []          # (key, what)
        self.coverage = {}
        self.samples = []
        self.hist = {}
        self.evaluations = 0
        self.nontrivial = set()
        self.assumptions = []
        self.theorems = {}            # name -> assumptions list or None (failed)
        self.obligations = 0
        self.discharged = 0
        self.trusted = []
        self.proof_ok = True
        self.proof_log = ""
        self.corr_breaks = []
        self.scratch = None
        self._kf = self._load_known()

    # ---- scratch ----------------------------------------------------------------------
    def scratch_dir(self):
        if self.scratch is None:
            base = os.environ.get("VERIF_SCRATCH", "/var/tmp")
            self.scratch = os.path.join(base, "qmi-verif.%s.%d" % (self.pid, os.getpid()))
            os.makedirs(self.scratch, exist_ok=True)
        return self.scratch

    def cleanup(self):
        if self.scratch and os.path.isdir(self.scratch):
            shutil.rmtree(self.scratch, ignore_errors=True)

    # ---- known findings ----------------------------------------------------------------
    def _load_known(self):
        out = []
        paths = [os.path.join(VERIF, "known_findings.json")]
        d = os.path.join(VERIF, "known_findings.d")
        if os.path.isdir(d):
            paths += [os.path.join(d, f) for f in sorted(os.listdir(d)) if f.endswith(".json")]
        for p in paths:
            if os.path.exists(p):
                with open(p) as f:
                    out += [e for e in json.load(f)["findings"] if e["property"] == self.pid]
        return out

    def known_open(self, key):
        for e in self._kf:
            if e["status"] == "open" and e["key"] == key:
                return e
        return None

    # ---- counting ----------------------------------------------------------------------
    def count(self, bucket, n=1):
        self.hist[bucket] = self.hist.get(bucket, 0) + n

    def note_case(self, case_repr, nontrivial=True):
        self.evaluations += 1
        if nontrivial:
            self.nontrivial.add(hashlib.sha1(repr(case_repr).encode()).hexdigest()[:16])

    def sample(self, obj, maxn=6):
        if len(self.samples) < maxn:
            self.samples.append(obj)

    # ---- violations --------------------------------------------------------------------
    def report(self, key, what, replay_obj, found_input=True):
        """Report a property failure identified by `key` (stable id of input/call site/history)."""
        key = re.sub(r"-?\d+", "N", key)
        hf = _harness_fault(what) or _harness_fault(json.dumps(replay_obj, default=repr)[:20000])
        if hf and found_input:
            # An exception whose innermost frame is harness code reaching for a private name of the implementation is
            # a broken tie (the code was rewritten under the harness), not a failure of the property on the code.
            key, found_input = "tie:harness-private-name", False
            what = ("the correspondence harness cannot observe this tree: %s; the tie between the Coq model and the code "
                    "no longer checks (no property failure was exhibited)" % hf)
        e = self.known_open(key)
        if e is not None:
            if key not in [k for k, _ in self.known_hits]:
                self.known_hits.append((key, e["what"]))
            return
        if any(v.key == key for v in self.violations):
            return
        d = os.path.join(VERIF, "replays", self.pid)
        os.makedirs(d, exist_ok=True)
        fn = os.path.join(d, re.sub(r"[^A-Za-z0-9_.-]", "_", key)[:80] + ".json")
        with open(fn, "w") as f:
            json.dump({"property": self.pid, "key": key, "what": what, "seed": self.seed,
                       "tier": self.tier, "found_failing_input": found_input,
                       "case": replay_obj}, f, indent=1, default=repr)
        self.violations.append(Violation(key, what, fn, found_input))

    # ---- Coq build ---------------------------------------------------------------------
    def coq_env(self):
        env = dict(os.environ)
        env["COQPATH"] = ""
        return env

    def build_theory(self, subdir, extra_gen=()):
        """Build coq/theories/<subdir>/*.v (make, full .vo) then re-compile Properties.v to
        collect `Print Assumptions`.  extra_gen: generated .v files (absolute paths, logical
        names under QVgen) compiled with coqc before Properties.v."""
        tdir = os.path.join(COQ, "theories", subdir)
        src_hits = []
        for fn in sorted(os.listdir(tdir)) + [None]:
            paths = [os.path.join(tdir, fn)] if fn else list(extra_gen)
            for p in paths:
                if not p.endswith(".v"):
                    continue
                txt = strip_coq_comments(open(p).read())
                for m in FORBIDDEN.finditer(txt):
                    src_hits.append("%s: %s" % (os.path.relpath(p, VERIF), m.group(0)))
                if re.search(r"^\s*(Variable|Variables|Hypothesis|Hypotheses|Context)\b", txt, re.M):
                    # allowed only inside sections: checked structurally
                    if not _vars_only_in_sections(txt):
                        src_hits.append("%s: Variable/Hypothesis outside Section" % os.path.relpath(p, VERIF))
        if src_hits:
            self.proof_ok = False
            self.proof_log += "forbidden constructs: " + "; ".join(src_hits) + "\n"
        t0 = time.time()
        ok, out = build_vo([os.path.join(tdir, fn) for fn in sorted(os.listdir(tdir))
                            if fn.endswith(".v") and fn != "Properties.v"])
        if not ok:
            self.proof_ok = False
            self.proof_log += out[-4000:]
        # Properties.v is re-compiled on every run (below), but what IT imports - possibly files of another theory
        # directory that nothing else here imports (C02/C03 state their theorems on the C01 model) - must exist
        pdeps = _coqdep().get(os.path.normpath(os.path.relpath(os.path.join(tdir, "Properties.v"), COQ)), [])
        if pdeps:
            ok, out = build_vo([os.path.join(COQ, d) for d in pdeps])
            if not ok:
                self.proof_ok = False
                self.proof_log += out[-4000:]
        for g in extra_gen:
            rc, out = sh(["timeout", "900", "coqc", "-Q", "theories", "QV", "-Q", "gen", "QVgen", g],
                         cwd=COQ, timeout=1000, env=self.coq_env())
            if rc != 0:
                self.proof_ok = False
                self.proof_log += "generated obligation file %s failed:\n%s" % (g, out[-4000:])
        props = os.path.join(tdir, "Properties.v")
        self._compile_properties(props)
        self.coverage["coq_build_s"] = round(time.time() - t0, 1)
        if self.tier == "thorough" and self.proof_ok and not os.environ.get("VERIF_NO_COQCHK"):
            self._coqchk(subdir)

    def _coqchk(self, subdir):
        """Thorough tier: independent re-check of the compiled property file and everything it depends on."""
        t0 = time.time()
        rc, out = sh("ulimit -s unlimited; timeout 1500 coqchk -silent -o -Q theories QV -Q gen QVgen QV.%s.Properties" % subdir,
                     cwd=COQ, timeout=1600, env=self.coq_env())
        axioms = []
        m = re.search(r"\* Axioms:(.*?)(\n\s*\n|\* |\Z)", out, re.S)
        if m:
            axioms = [l.strip() for l in m.group(1).strip().splitlines() if l.strip() and "<none>" not in l]
        self.coverage["coqchk"] = {"exit": rc, "axioms": axioms, "wall_s": round(time.time() - t0, 1),
                                   "tail": out[-600:]}
        if rc != 0:
            self.proof_ok = False
            self.proof_log += "coqchk failed:\n" + out[-2000:]

    def _compile_properties(self, props):
        src = strip_coq_comments(open(props).read())
        names = re.findall(r"^\s*(?:Theorem|Lemma|Corollary)\s+([A-Za-z0-9_']+)", src, re.M)
        printed = re.findall(r"Print\s+Assumptions\s+([A-Za-z0-9_'.]+)\s*\.", src)
        self.obligations += len(names)
        missing = [n for n in names if n not in printed]
        rc, out = sh(["timeout", "900", "coqc", "-Q", "theories", "QV", "-Q", "gen", "QVgen", props],
                     cwd=COQ, timeout=1000, env=self.coq_env())
        blocks = _parse_assumptions(out)
        if rc != 0:
            self.proof_ok = False
            self.proof_log += out[-4000:]
        for i, n in enumerate(printed):
            if i < len(blocks):
                ax = blocks[i]
                self.theorems[n] = ax
                bad = [a for a in ax if a.split(".")[-1] not in {s.split(".")[-1] for s in STDLIB_AXIOMS}]
                if bad:
                    self.proof_ok = False
                    self.proof_log += "theorem %s depends on non-stdlib axioms %s\n" % (n, bad)
                elif n in names:
                    self.discharged += 1
            else:
                self.theorems[n] = None
        if missing:
            self.proof_ok = False
            self.proof_log += "theorems without Print Assumptions: %s\n" % missing

    def add_generated_obligations(self, total, ok, failed_names=()):
        self.obligations += total
        self.discharged += ok
        if ok != total:
            self.proof_ok = False
            self.proof_log += "generated obligations failing: %s\n" % (list(failed_names),)

    # ---- correspondence ----------------------------------------------------------------
    def run_model(self, corr_module, check_fn, case_terms, case_type, shard=300, timeout=900,
                  show_fn=None):
        """Evaluate `check_fn : case_type -> bool` of QV.<corr_module> on all case_terms
        (Coq term strings) with coqc/vm_compute; return the list of indices where it is false.
        """
        if not case_terms:
            return []
        d = os.path.join(COQ, "cases", self.pid + ".%d" % os.getpid())
        shutil.rmtree(d, ignore_errors=True)
        os.makedirs(d)
        shards = [case_terms[i:i + shard] for i in range(0, len(case_terms), shard)]
        files = []
        for k, sh_cases in enumerate(shards):
            fn = os.path.join(d, "cases_%d.v" % k)
            with open(fn, "w") as f:
                f.write("From Coq Require Import List ZArith NArith String Ascii Bool.\nImport ListNotations.\n")
                f.write("Require Import QV.Lib.Corr.\nRequire Import QV.%s.\n" % corr_module)
                f.write("Definition cases : list (%s) := [\n" % case_type)
                f.write(";\n".join(sh_cases))
                f.write("\n].\n")
                f.write("Eval vm_compute in (failing (%s) cases).\n" % check_fn)
            files.append(fn)

        def one(fn):
            rc, out = sh("ulimit -s unlimited; timeout %d coqc -Q theories QV -Q gen QVgen %s" % (timeout, fn),
                         cwd=COQ, timeout=timeout + 60, env=self.coq_env())
            return rc, out

        bad = []
        with ThreadPoolExecutor(max_workers=NPROC) as ex:
            results = list(ex.map(one, files))
        for k, (rc, out) in enumerate(results):
            m = re.search(r"=\s*\[(.*?)\]\s*:\s*list nat", out, re.S)
            if rc != 0 or not m:
                raise RuntimeError("model evaluation failed for shard %d:\n%s" % (k, out[-3000:]))
            for tok in re.findall(r"\d+", m.group(1)):
                bad.append(k * shard + int(tok))
        self._last_case_dir = d
        if not bad:
            shutil.rmtree(d, ignore_errors=True)
        return bad

    def model_eval(self, corr_module, expr):
        """Evaluate one Coq expression with vm_compute and return the printed text."""
        d = os.path.join(COQ, "cases", self.pid + ".%d" % os.getpid())
        os.makedirs(d, exist_ok=True)
        fn = os.path.join(d, "one_%d.v" % int(time.time() * 1e6))
        with open(fn, "w") as f:
            f.write("From Coq Require Import List ZArith NArith String Ascii Bool.\nImport ListNotations.\n")
            f.write("Require Import QV.Lib.Corr.\nRequire Import QV.%s.\n" % corr_module)
            f.write("Eval vm_compute in (%s).\n" % expr)
        rc, out = sh("ulimit -s unlimited; timeout 300 coqc -Q theories QV -Q gen QVgen %s" % fn,
                     cwd=COQ, timeout=360, env=self.coq_env())
        return re.sub(r"\s+", " ", out).strip()

    def clean_cases(self):
        d = os.path.join(COQ, "cases", self.pid + ".%d" % os.getpid())
        shutil.rmtree(d, ignore_errors=True)

    # ---- finish ------------------------------------------------------------------------
    def finish(self, rule, explanation=""):
        # A broken proof obligation without any concrete failing input is still a violation.
        if not self.proof_ok and not self.violations:
            self.report("proof-obligation-broken",
                        "a theorem or generated obligation of %s no longer checks" % self.pid,
                        {"broken": self.proof_log[-3000:], "theorems": self.theorems},
                        found_input=False)
        for key, what in self.known_hits:
            print("KNOWN-FINDING: property=%s %s [%s]" % (self.pid, what, key))
        for v in self.violations:
            tail = "" if v.found_input else " no-failing-input-found"
            print("VIOLATION property=%s replay=%s%s" % (self.pid, v.replay, tail))
            print("  -> " + v.what)
        cov = dict(self.coverage)
        cov.update({
            "obligations": self.obligations,
            "discharged": self.discharged,
            "checker_cmd": "coqc -Q theories QV (Coq 8.16.1, full .vo build via coq_makefile; "
                           "Print Assumptions under each theorem of theories/%s/Properties.v)" % self.pid_dir(),
            "trusted_base": self.trusted,
            "theorems": {k: ("FAILED" if v is None else (v or "Closed under the global context"))
                         for k, v in self.theorems.items()},
            "evaluations": self.evaluations,
            "distinct_nontrivial": len(self.nontrivial),
            "rule": rule,
            "samples": self.samples or ["(no generated case this run)"],
            "traces_validated_against_impl": self.evaluations,
            "input_distribution": self.hist,
            "known_findings_hit": [k for k, _ in self.known_hits],
            "explanation": explanation,
            "alpha_renaming": (ALPHA_REPORT or {}).get("renamed", {}),
        })
        ev = {"property_id": self.pid, "tier": self.tier, "seed": self.seed, "level": self.level,
              "coverage": cov, "assumptions": self.assumptions,
              "wall_s": round(time.time() - self.t0, 2), "violations": len(self.violations)}
        evdir = os.path.join(VERIF, "evidence")
        if os.environ.get("VERIF_NO_EVIDENCE"):
            evdir = os.path.join(os.environ.get("VERIF_SCRATCH", "/var/tmp"), "qmi-verif-evidence-scratch")
        os.makedirs(evdir, exist_ok=True)
        with open(os.path.join(evdir, self.pid + ".json"), "w") as f:
            json.dump(ev, f, indent=1, default=repr)
        self.cleanup()
        self.clean_cases()
        print("%s: %s  theorems %d/%d  cases %d (distinct non-trivial %d)  known=%d  violations=%d  %.1fs" % (
            self.pid, "OK" if not self.violations else "FAIL", self.discharged, self.obligations,
            self.evaluations, len(self.nontrivial), len(self.known_hits), len(self.violations),
            time.time() - self.t0))
        return 1 if self.violations else 0

    def pid_dir(self):
        return getattr(self, "theory_dir", self.pid)


def _vars_only_in_sections(txt):
    depth = 0
    for line in txt.splitlines():
        s = line.strip()
        if re.match(r"Section\s+\w+\s*\.", s):
            depth += 1
        elif re.match(r"End\s+\w+\s*\.", s) and depth > 0:
            depth -= 1
        elif re.match(r"(Variable|Variables|Hypothesis|Hypotheses|Context)\b", s) and depth == 0:
            return False
    return True


def _parse_assumptions(out):
    """Split coqc output into one list of axiom names per `Print Assumptions`."""
    blocks = []
    lines = out.splitlines()
    i = 0
    while i < len(lines):
        l = lines[i]
        if l.startswith("Closed under the global context"):
            blocks.append([])
        elif l.startswith("Axioms:"):
            ax = []
            i += 1
            while i < len(lines) and lines[i].strip() and not lines[i].startswith("Closed under") \
                    and not lines[i].startswith("Axioms:") and not lines[i].startswith("File "):
                m = re.match(r"^([A-Za-z_][A-Za-z0-9_.']*)\s*:", lines[i])
                if m and not lines[i].startswith(" "):
                    ax.append(m.group(1))
                i += 1
            blocks.append(ax)
            continue
        i += 1
    return blocks


def _coqdep():
    """file.v -> list of .v files under coq/theories it depends on (via coqdep)."""
    files = []
    for root, _, fns in os.walk(os.path.join(COQ, "theories")):
        for fn in fns:
            if fn.endswith(".v"):
                files.append(os.path.relpath(os.path.join(root, fn), COQ))
    rc, out = sh(["coqdep", "-Q", "theories", "QV", "-Q", "gen", "QVgen"] + sorted(files), cwd=COQ)
    deps = {}
    for line in out.splitlines():
        if ":" not in line:
            continue
        lhs, rhs = line.split(":", 1)
        tgt = [t for t in lhs.split() if t.endswith(".vo")]
        if not tgt:
            continue
        v = tgt[0][:-1]
        deps[os.path.normpath(v)] = [os.path.normpath(d[:-1]) for d in rhs.split()
                                     if d.endswith(".vo") and not d.startswith("/")]
    return deps


def build_vo(abs_files, force=False):
    """Minimal make: compile the given .v files (and, first, whatever they depend on under
    coq/theories) with `coqc` when the .vo is missing or older than the source or a dependency.
    A full .vo build (never -vos).  Returns (ok, log)."""
    import fcntl
    os.makedirs(os.path.join(COQ, "gen"), exist_ok=True)
    deps = _coqdep()
    log = []
    done = {}

    def mtime(p):
        try:
            return os.path.getmtime(os.path.join(COQ, p))
        except OSError:
            return 0.0

    def need(v):
        vo = v + "o"
        if mtime(vo) == 0.0 or mtime(vo) < mtime(v):
            return True
        return any(mtime(d + "o") > mtime(vo) for d in deps.get(v, []))

    def build(v, stack=()):
        if v in done:
            return done[v]
        if v in stack:
            done[v] = False
            log.append("dependency cycle at " + v)
            return False
        okd = all([build(d, stack + (v,)) for d in deps.get(v, [])])
        if not okd:
            done[v] = False
            return False
        if force or need(v):
            lock = open(os.path.join(COQ, v + ".lock"), "w")
            try:
                fcntl.flock(lock, fcntl.LOCK_EX)
                if force or need(v):
                    rc, out = sh(["timeout", "1500", "coqc", "-Q", "theories", "QV", "-Q", "gen", "QVgen", v],
                                 cwd=COQ, timeout=1600)
                    if rc != 0:
                        log.append("coqc %s failed:\n%s" % (v, out[-3000:]))
                        done[v] = False
                        return False
            finally:
                fcntl.flock(lock, fcntl.LOCK_UN)
                lock.close()
                try:
                    os.unlink(os.path.join(COQ, v + ".lock"))
                except OSError:
                    pass
        done[v] = True
        return True

    ok = True
    for f in abs_files:
        ok = build(os.path.normpath(os.path.relpath(f, COQ))) and ok
    return ok, "\n".join(log)


def build_all():
    """setup: build every theory directory (in parallel across directories)."""
    tdirs = sorted(d for d in os.listdir(os.path.join(COQ, "theories"))
                   if os.path.isdir(os.path.join(COQ, "theories", d)))
    ok, out = build_vo([os.path.join(COQ, "theories", "Lib", f)
                        for f in sorted(os.listdir(os.path.join(COQ, "theories", "Lib"))) if f.endswith(".v")])
    if not ok:
        print(out)
        return 1

    def one(d):
        return d, build_vo([os.path.join(COQ, "theories", d, f)
                            for f in sorted(os.listdir(os.path.join(COQ, "theories", d))) if f.endswith(".v")])
    rc = 0
    with ThreadPoolExecutor(max_workers=NPROC) as ex:
        for d, (ok, out) in ex.map(one, tdirs):
            print("%-8s %s" % (d, "ok" if ok else "FAILED"))
            if not ok:
                # not fatal for setup: the check of that property rebuilds its theory and reports it
                print(out)
                rc = 1
    if rc:
        print("WARNING: some theories failed to build during setup; their checks will report it")
    return 0


def repo_python_env():
    env = dict(os.environ)
    env["PYTHONPATH"] = REPO
    env["PYTHONHASHSEED"] = "0"
    env["PYTHONDONTWRITEBYTECODE"] = "1"
    return env


ALPHA_REPORT = {}


def setup_repo_import():
    """Make `import qmi` resolve to the working tree under test."""
    if REPO not in sys.path:
        sys.path.insert(0, REPO)
    sys.dont_write_bytecode = True
    import alpha
    global ALPHA_REPORT
    ALPHA_REPORT = alpha.install(REPO)
    import qmi  # noqa
    assert os.path.abspath(qmi.__file__).startswith(os.path.abspath(REPO)), qmi.__file__
