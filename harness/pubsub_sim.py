"""H2 message-level simulation shared by C07 and C08 (DESIGN.md section 4).

Real qmi.core.pubsub.SignalManager instances are wired to stub contexts whose send_message
appends to harness-owned per-connection FIFO queues.  The harness decides which queue delivers
next and when a connection closes; closing calls the same callbacks in the same order as
_SocketManager.remove_peer_connection + _PeerTcpConnection.close: handle_peer_context_removed, then
one QMI_ErrorReplyMessage per request still pending on that connection (in table order).

The blocking subscribe is split at _PendingSubscriptionRequest.wait: the patched wait returns the
stored reply if it is there and raises Deferred otherwise; the rest of subscribe (map the reply to
return / QMI_SignalSubscriptionException) is evaluated when the reply has been stored.

publish_signal is not atomic in the model (it is split at its lock regions).  The harness obtains
the same interleavings without threads: receivers and the stub router are harness objects, so at
every receiver._receive_signal call and every send_message call made by a running publish the
harness may run other operations re-entrantly (the manager lock is free at exactly these points),
including other publishes, deliveries, removals and closes.

Everything observable is recorded as a trace of (label, outputs) in the vocabulary of
coq/theories/C07/Model.v, plus an oracle event log used by the independent property oracles.
"""
import copy

from common import cZ, cN, cbool, clist


class Deferred(Exception):
    pass


_CUR = [None]  # the simulation whose subscribe call is running (for the patched wait)


def _patched_wait(self):
    sim = _CUR[0]
    if sim is not None:
        sim.wait_called = self
    if self._completed.is_set():
        return (self._success, self._error_msg)
    raise Deferred()


class StubContext:
    """The public surface of QMI_Context that a SignalManager may use, answered from the state of the simulation
    (object set, connectivity of the simulated network).  Anything else raises common.TieBroken naming the missing
    method, so that a new dependency of the code under test shows up as a broken tie with a clear message."""

    def __init__(self, sim, name, objs):
        self.sim = sim
        self.name = name
        self.objs = set(objs)
        self.peers = []          # contexts the router can send to
        self.handlers = {}
        self._counters = {}
        self.suppress_version_mismatch_warnings = False
        self.workgroup_name = "default"

    # ---- message routing
    def register_message_handler(self, handler):
        self.handlers[handler.address.object_id] = handler
        self.handler = handler

    def unregister_message_handler(self, handler):
        self.handlers.pop(handler.address.object_id, None)

    def send_message(self, message):
        self.sim.on_send(self.name, message)

    # ---- connectivity (the state of the simulated network, as the message router reports it)
    def has_peer_context(self, peer_context_name):
        return peer_context_name in self.peers and peer_context_name not in self.sim.unreachable[self.name]

    def get_peer_context_names(self):
        return list(self.peers)

    # ---- objects
    def get_rpc_object_descriptor(self, name):
        return ("descriptor", name) if name in self.objs else None

    def get_rpc_object_descriptors(self):
        return [("descriptor", n) for n in sorted(self.objs)]

    def list_rpc_objects(self, category=None):
        return [(n, "StubObject") for n in sorted(self.objs)]

    # ---- identity, state, configuration
    def make_unique_address(self, prefix):
        nr = self._counters.get(prefix, 0) + 1
        self._counters[prefix] = nr
        return self.sim.M.QMI_MessageHandlerAddress(self.name, prefix + str(nr))

    def make_unique_token(self, prefix="$lock_"):
        nr = self._counters.get(prefix, 0) + 1
        self._counters[prefix] = nr
        return (self.name, "%ssim_%d" % (prefix, nr))

    def is_active(self):
        return True

    active = started = True

    def shutdown_requested(self):
        return False

    def get_version(self):
        import qmi
        return qmi.__version__

    def info(self):
        return "stub context %s" % self.name

    def get_tcp_server_port(self):
        return 0

    def get_configured_contexts(self):
        return {}

    # ---- the pub/sub front end of the context delegates to the manager under test
    def subscribe_signal(self, publisher_context, publisher_name, signal_name, receiver):
        self.sim.mgr[self.name].subscribe_signal(publisher_context, publisher_name, signal_name, receiver)

    def unsubscribe_signal(self, publisher_context, publisher_name, signal_name, receiver):
        self.sim.mgr[self.name].unsubscribe_signal(publisher_context, publisher_name, signal_name, receiver)

    def publish_signal(self, publisher_name, signal_name, *args):
        self.sim.mgr[self.name].publish_signal(publisher_name, signal_name, args)

    def __getattr__(self, attr):
        import common
        if attr.startswith("__"):
            raise AttributeError(attr)
        raise common.TieBroken("the code under test uses QMI_Context.%s, which the stub context of the H2 simulation does not "
                               "provide (new dependency of SignalManager on its context)" % attr)


class Sim:
    def __init__(self, nodes, hook=None):
        import qmi.core.pubsub as P
        import qmi.core.messaging as M
        import qmi.core.exceptions as E
        self.P, self.M, self.E = P, M, E
        self.names = list(nodes)
        self.init_objs = {x: list(nodes[x]) for x in nodes}
        self.ctx, self.mgr = {}, {}
        for x in nodes:
            self.ctx[x] = StubContext(self, x, nodes[x])
            self.mgr[x] = P.SignalManager(self.ctx[x])
        self.chan = {(x, y): [] for x in nodes for y in nodes if x != y}
        self.cpend = {(x, y): {} for x in nodes for y in nodes if x != y}
        self.sent_n = {k: 0 for k in self.chan}       # messages put on the wire x->y since the start
        self.deliv_n = {k: 0 for k in self.chan}      # messages taken off (delivered or discarded)
        self.reqnum, self.reqctr = {}, {x: 0 for x in nodes}
        self.trace = []
        self.stack = []
        self.rcv = {}
        self.calls = {}          # call id -> dict(node, T, r, pend)
        self.callctr = 0
        self.jobctr = {x: 0 for x in nodes}
        self.hook = hook
        self.depth = 0
        self.toplog, self.hooklog, self.inner = [], [], False
        self.wait_called = None
        self.olog = []           # oracle events
        self.problems = []       # things that must never happen in the harness' own network
        self.problems_impl = []  # unexpected exceptions out of the code under test
        self.alias_problems = [] # a message object re-used / changed between hand-off and transmission
        # MessageRouter.send_message only queues the message OBJECT for the socket thread; it is
        # serialised (and routed by its destination address) later.  The harness keeps the object and
        # transmits when the handler invocation is over.
        self.outbox = {x: [] for x in nodes}
        self.unreachable = {x: set() for x in nodes}   # peers whose connection is already out of the router's map
        self.t = 0

    # ---------------------------------------------------------------- recording
    def push(self, kind, label, **kw):
        ent = {"label": label, "outs": []}
        self.trace.append(ent)
        fr = dict(kind=kind, ent=ent, **kw)
        self.stack.append(fr)
        return fr

    def pop(self):
        self.stack.pop()

    def ev(self, *e):
        self.t += 1
        self.olog.append((self.t,) + e)

    def receiver(self, x, r):
        if (x, r) not in self.rcv:
            self.rcv[(x, r)] = make_receiver(self, x, r)
        return self.rcv[(x, r)]

    def num(self, x, request_id):
        k = (x, request_id)
        if k not in self.reqnum:
            self.reqnum[k] = self.reqctr[x]
            self.reqctr[x] += 1
        return self.reqnum[k]

    def canon(self, x, m, j=None):
        P = self.P
        if isinstance(m, P.QMI_SignalMessage):
            return ("signal", m.source_address.object_id, m.signal_name, m.args[0], j)
        if isinstance(m, P.QMI_SignalSubscriptionRequest):
            return ("subreq", self.num(m.source_address.context_id, m.request_id), m.publisher_name, m.signal_name,
                    bool(m.subscribe))
        if isinstance(m, P.QMI_SignalSubscriptionReply):
            return ("subreply", self.num(m.destination_address.context_id, m.request_id), bool(m.success))
        if isinstance(m, P.QMI_SignalRemovedMessage):
            return ("removed", m.publisher_name, m.signal_name)
        return ("other", type(m).__name__)

    # ---------------------------------------------------------------- the stub router
    def on_send(self, x, m):
        P, E = self.P, self.E
        y = m.destination_address.context_id
        top = self.stack[-1]
        if isinstance(m, P.QMI_SignalSubscriptionRequest):
            self.num(x, m.request_id)        # ids are numbered in creation order, sent or not
        if isinstance(m, P.QMI_SignalMessage) and top["kind"] == "publish" and top["node"] == x:
            if not top["snap"]:
                top["snap"] = True
                self.push("pubsnap", ("node", x, ("pubsnap", top["j"])))
                self.pop()
            fr = self.push("pubsend", ("node", x, ("pubsend", top["j"], y)))
            try:
                if y not in self.ctx[x].peers:
                    raise E.QMI_MessageDeliveryException("Can not send message to unknown context %r" % y)
                self.wire(x, y, m, fr, j=top["j"])
                self.ev("sent", x, y, m.args[0])
                self.run_hook()
            finally:
                self.pop()
            return
        if y not in self.ctx[x].peers or y in self.unreachable[x]:
            raise E.QMI_MessageDeliveryException("Can not send message to unknown context %r" % y)
        j = None
        if isinstance(m, P.QMI_SignalMessage):
            self.problems.append("signal message sent outside a publish")
        self.wire(x, y, m, top, j=j)

    def wire(self, x, y, m, fr, j=None):
        """Hand-off to the router: recorded now, transmitted by flush() (the socket thread)."""
        c = self.canon(x, m, j)
        fr["ent"]["outs"].append(("send", y, c))
        if any(e["obj"] is m for e in self.outbox[x]):
            self.alias_problems.append("the same message object was handed to the router twice before it was transmitted "
                                       "(%s to %s)" % (c[0], y))
        self.outbox[x].append(dict(obj=m, y=y, canon=c, j=j))

    def flush(self):
        """The socket threads run: every queued object is routed by the destination it carries NOW and
        serialised NOW."""
        for x in self.names:
            q, self.outbox[x] = self.outbox[x], []
            for e in q:
                m = e["obj"]
                y_now = m.destination_address.context_id
                c_now = self.canon(x, m, e["j"])
                if y_now != e["y"] or c_now != e["canon"]:
                    self.alias_problems.append("a %s message handed to the router for %s is transmitted as %r to %s: the "
                                               "object changed after hand-off" % (e["canon"][0], e["y"], c_now, y_now))
                if y_now not in self.ctx[x].peers:
                    continue      # the socket manager has no such connection any more
                if x in self.ctx[y_now].peers:
                    self.chan[(x, y_now)].append((copy.copy(m), e["j"]))
                    self.sent_n[(x, y_now)] += 1
                if isinstance(m, self.M.QMI_RequestMessage):
                    self.cpend[(x, y_now)].setdefault(m.request_id, None)

    def run_hook(self):
        if self.hook is None or self.depth >= 2:
            return
        self.depth += 1
        try:
            ops = list(self.hook(self))
            self.hooklog.append(ops)
            for op in ops:
                self.do(op)
        finally:
            self.depth -= 1

    # ---------------------------------------------------------------- operations
    def do(self, op):
        """Execute one operation; returns False if it is not enabled (nothing happens)."""
        k = op[0]
        if not self.stack and not self.inner:
            self.toplog.append(op)
        if k in ("deliver", "close", "connect", "check", "probe"):
            self.flush()
        ok = getattr(self, "op_" + k)(*op[1:])
        if not self.stack:
            self.flush()
        if ok is not False:
            self.flush_waits()
        return ok is not False

    def flush_waits(self):
        for call in sorted(self.calls):
            c = self.calls[call]
            if c["pend"]._completed.is_set():
                del self.calls[call]
                okk = bool(c["pend"]._success)
                self.push("subend", ("node", c["node"], ("subend", call)))["ent"]["outs"].append(
                    ("res", "RNone" if okk else "RSubErr"))
                self.pop()
                self.ev("sub_end", c["node"], call, c["T"], c["r"], okk, True, False)

    def op_sub(self, x, c, p, s, r):
        P, E = self.P, self.E
        self.callctr += 1
        call = self.callctr
        fr = self.push("sub", ("node", x, ("sub", call, c, p, s, r)))
        T = (c or x, p, s)
        self.ev("sub_start", x, call, T, r)
        self.wait_called = None
        _CUR[0] = self
        old = P._PendingSubscriptionRequest.wait
        P._PendingSubscriptionRequest.wait = _patched_wait
        res = None
        try:
            self.mgr[x].subscribe_signal(c, p, s, self.receiver(x, r))
            res = "RNone"
        except Deferred:
            res = "RWait"
        except E.QMI_SignalSubscriptionException:
            res = "RSubErr"
        except E.QMI_UsageException:
            res = "RUsage"
        finally:
            P._PendingSubscriptionRequest.wait = old
            _CUR[0] = None
        if self.wait_called is not None:
            fr["ent"]["outs"].append(("res", "RWait"))
            self.calls[call] = dict(node=x, T=T, r=r, pend=self.wait_called)
        else:
            fr["ent"]["outs"].append(("res", res))
            self.ev("sub_end", x, call, T, r, res == "RNone", False, res == "RUsage")
        self.pop()

    def op_unsub(self, x, c, p, s, r):
        E = self.E
        fr = self.push("unsub", ("node", x, ("unsub", c, p, s, r)))
        try:
            self.mgr[x].unsubscribe_signal(c, p, s, self.receiver(x, r))
            res = "RNone"
        except E.QMI_UsageException:
            res = "RUsage"
        fr["ent"]["outs"].append(("res", res))
        if res == "RNone":
            self.ev("unsub", x, (c or x, p, s), r)
        self.pop()

    def op_probe(self, x, p, s, a):
        """C08: at a quiescent point publish once and deliver; who gets a message, who a record?"""
        hook, self.hook = self.hook, None
        inner, self.inner = self.inner, True
        try:
            self.op_publish(x, p, s, a, probe=self.quiescent())
            self.flush()
            self.flush_waits()
            self.drain()
        finally:
            self.hook = hook
            self.inner = inner

    def op_publish(self, x, p, s, a, probe=False):
        E = self.E
        j = self.jobctr[x]
        self.jobctr[x] += 1
        fr = self.push("publish", ("node", x, ("pubbegin", p, s, a)), node=x, j=j, snap=False)
        self.ev("pub_begin", x, p, s, a, probe)
        usage = False
        try:
            self.mgr[x].publish_signal(p, s, (a,))
        except E.QMI_UsageException:
            usage = True
            fr["ent"]["outs"].append(("res", "RUsage"))
        except Exception as exc:     # e.g. RuntimeError from iterating a set that changes
            while self.stack[-1] is not fr:
                self.pop()
            usage = True
            self.trace.append({"label": ("node", x, ("pubsnap", j)), "outs": [("exc", type(exc).__name__)]})
            self.problems_impl.append("publish_signal raised %s" % type(exc).__name__)
        if not usage and not fr["snap"]:
            self.push("pubsnap", ("node", x, ("pubsnap", j)))
            self.pop()
        self.pop()
        self.ev("pub_end", x, a, usage)

    def op_objadd(self, x, o):
        self.push("objadd", ("node", x, ("objadd", o)))
        self.ctx[x].objs.add(o)
        self.pop()
        self.ev("objadd", x, o)

    def op_objremove(self, x, o):
        """context.remove_rpc_object: the object stops being known, then handle_object_removed."""
        if o not in self.ctx[x].objs:
            return False
        self.push("objremove", ("node", x, ("objremove", o)))
        self.ctx[x].objs.discard(o)
        self.mgr[x].handle_object_removed(o)
        self.pop()
        self.flush()          # the removal notices are on the wire before anything else happens
        self.ev("objremove", x, o, {k: v for k, v in self.sent_n.items() if k[0] == x})

    def op_objremove_u(self, x, o, u):
        """remove_rpc_object while the peers u are half-way through disconnecting: still listed as remote
        subscribers, but send_message to them raises (their connection is gone from the router's map)."""
        if o not in self.ctx[x].objs:
            return False
        self.push("objremove_u", ("objremove_u", x, o, tuple(u)))
        self.ctx[x].objs.discard(o)
        self.unreachable[x] = set(u)
        try:
            self.mgr[x].handle_object_removed(o)
        finally:
            self.unreachable[x] = set()
        self.pop()
        self.flush()
        self.ev("objremove", x, o, {k: v for k, v in self.sent_n.items() if k[0] == x})

    def op_deliver(self, x, y):
        P, M = self.P, self.M
        if not self.chan[(x, y)] or x not in self.ctx[y].peers:
            return False
        m, j = self.chan[(x, y)].pop(0)
        self.deliv_n[(x, y)] += 1
        self.ev("taken", x, y)
        fr = self.push("deliver", ("deliver", x, y))
        if isinstance(m, M.QMI_ReplyMessage):
            self.cpend[(y, x)].pop(m.request_id, None)
        sig = isinstance(m, P.QMI_SignalMessage)
        if sig:
            self.ev("deliver_begin", x, y, m.args[0])
        try:
            self.mgr[y].handle_message(m)
        except Exception as exc:  # _receive_data logs and swallows; the model never takes this path
            fr["ent"]["outs"].append(("exc", type(exc).__name__))
        self.pop()
        if sig:
            self.ev("deliver_end", x, y, m.args[0])
        if isinstance(m, P.QMI_SignalSubscriptionRequest):
            self.ev("req_handled", x, y, m.publisher_name, bool(m.subscribe), m.publisher_name in self.ctx[y].objs)

    def op_connect(self, x, y):
        if x == y or y in self.ctx[x].peers or x in self.ctx[y].peers:
            return False
        if self.chan[(x, y)] or self.chan[(y, x)]:
            self.problems.append("connect with data in flight")
        self.push("connect", ("connect", x, y))
        self.ctx[x].peers.append(y)
        self.ctx[y].peers.append(x)
        self.pop()
        self.ev("connect", x, y)

    def op_close(self, x, y):
        """x closes (or notices the loss of) its connection to y."""
        M = self.M
        if y not in self.ctx[x].peers:
            return False
        fr = self.push("close", ("close", x, y))
        self.ctx[x].peers.remove(y)
        try:
            self.mgr[x].handle_peer_context_removed(y)
            for request_id in list(self.cpend[(x, y)]):
                reply = M.QMI_ErrorReplyMessage(
                    source_address=M.QMI_MessageHandlerAddress(y, "$pubsub"),
                    destination_address=M.QMI_MessageHandlerAddress(x, "$pubsub"),
                    request_id=request_id,
                    error_msg="Connection to {} closed while waiting for reply".format(y))
                try:
                    self.mgr[x].handle_message(reply)
                except M.QMI_MessageDeliveryException:
                    pass
        except Exception as exc:
            fr["ent"]["outs"].append(("exc", type(exc).__name__))
        self.cpend[(x, y)].clear()
        self.deliv_n[(y, x)] += len(self.chan[(y, x)])
        self.chan[(y, x)] = []
        self.pop()
        self.ev("close", x, y, self.sent_n[(y, x)])

    def op_check(self, x):
        self.trace.append({"check": x, "obs": self.observe(x)})

    # ---------------------------------------------------------------- observation
    def observe(self, x):
        m = self.mgr[x]
        rid = lambda rc: rc.rid
        ls = [(k, sorted(map(rid, v))) for k, v in m._local_subscriptions.items()]
        rs = [(k, sorted(v)) for k, v in m._remote_subscriptions.items()]
        full = lambda q: q.publisher_context + "." + q.publisher_name + "." + q.signal_name
        pid = [(self.num(x, k), full(q)) for k, q in m._pending_subscription_request_by_request_id.items()]
        pn = [(k, (bool(q.subscribe), sorted(map(rid, q.receivers))))
              for k, q in m._pending_subscription_request_by_signal_name.items()]
        logs = [(r, list(rc.records)) for (xx, r), rc in sorted(self.rcv.items()) if xx == x]
        return dict(lsubs=ls, rsubs=rs, pid=pid, pname=pn, logs=logs)

    def quiescent(self):
        if any(self.chan.values()) or self.calls:
            return False
        for x in self.names:
            if self.mgr[x]._pending_subscription_request_by_request_id:
                return False
            for y in self.ctx[x].peers:
                if x not in self.ctx[y].peers:
                    return False
        return True

    def drain(self, rng=None, limit=10000):
        """Deliver until every channel is empty; half-open connections are closed at the other end."""
        n = 0
        while n < limit:
            n += 1
            if not self.stack:
                self.flush()
            ks = [k for k, v in self.chan.items() if v and k[0] in self.ctx[k[1]].peers]
            if ks:
                k = rng.choice(ks) if rng else ks[0]
                self.do(("deliver",) + k)
                continue
            half = [(x, y) for x in self.names for y in self.ctx[x].peers if x not in self.ctx[y].peers]
            if half:
                self.do(("close",) + half[0])
                continue
            break


def make_receiver(sim, x, r):
    P = sim.P

    class Rcv(P.QMI_SignalReceiver):
        def __init__(self):
            super().__init__()
            self.rid = r
            self.node = x
            self.records = []

        def _receive_signal(self, message):
            top = sim.stack[-1]
            rec = (message.source_address.context_id, message.source_address.object_id, message.signal_name,
                   message.args[0] if len(message.args) == 1 else repr(message.args))
            local = top["kind"] == "publish" and top["node"] == x
            if local:
                sim.push("pubdeliver", ("node", x, ("pubdeliver", top["j"], r)))
            super()._receive_signal(message)
            self.records.append(rec)
            sim.ev("record", x, r, rec)
            if local:
                try:
                    sim.run_hook()
                finally:
                    sim.pop()

    return Rcv()


# -------------------------------------------------------------------- Coq emission
def cs(s):
    return "(@nil N)" if s == "" else "[" + ";".join(str(ord(ch)) for ch in s) + "]%N"


def cmsg(m):
    if m[0] == "signal":
        return "(MSignal %s %s %s %s)" % (cs(m[1]), cs(m[2]), cZ(m[3]), cN(m[4] if m[4] is not None else 4999))
    if m[0] == "subreq":
        return "(MSubReq %s %s %s %s)" % (cN(m[1]), cs(m[2]), cs(m[3]), cbool(m[4]))
    if m[0] == "subreply":
        return "(MSubReply %s %s)" % (cN(m[1]), cbool(m[2]))
    if m[0] == "removed":
        return "(MRemoved %s %s)" % (cs(m[1]), cs(m[2]))
    return "(MRemoved (@nil N) (@nil N))"   # a message type the model does not know: cannot match


def cout(o):
    if o[0] == "send":
        return "(OSend %s %s)" % (cs(o[1]), cmsg(o[2]))
    if o[0] == "res":
        return "(ORes %s)" % o[1]
    return "(ORes RWait)" if False else "(OSend (@nil N) (MRemoved (@nil N) (@nil N)))"  # exception: never matches


def cinput(i):
    k = i[0]
    if k == "sub":
        return "(ISub %s %s %s %s %s)" % (cN(i[1]), cs(i[2]), cs(i[3]), cs(i[4]), cN(i[5]))
    if k == "subend":
        return "(ISubEnd %s)" % cN(i[1])
    if k == "unsub":
        return "(IUnsub %s %s %s %s)" % (cs(i[1]), cs(i[2]), cs(i[3]), cN(i[4]))
    if k == "pubbegin":
        return "(IPubBegin %s %s %s)" % (cs(i[1]), cs(i[2]), cZ(i[3]))
    if k == "pubdeliver":
        return "(IPubDeliver %s %s)" % (cN(i[1]), cN(i[2]))
    if k == "pubsnap":
        return "(IPubSnapRemote %s)" % cN(i[1])
    if k == "pubsend":
        return "(IPubSend %s %s)" % (cN(i[1]), cs(i[2]))
    if k == "objadd":
        return "(IObjAdd %s)" % cs(i[1])
    if k == "objremove":
        return "(IObjRemove %s)" % cs(i[1])
    raise ValueError(i)


def clabelN(l):
    if l[0] == "node":
        return "(LNode %s %s)" % (cs(l[1]), cinput(l[2]))
    return "(%s %s %s)" % ({"deliver": "LDeliver", "connect": "LConnect", "close": "LClose"}[l[0]], cs(l[1]), cs(l[2]))


def clabel2(l, a):
    sd = lambda x: cbool(x == a)
    if l[0] == "node":
        return "(L2Node %s %s)" % (sd(l[1]), cinput(l[2]))
    if l[0] == "deliver":
        return "(L2Deliver %s)" % sd(l[1])
    if l[0] == "connect":
        return "L2Connect"
    return "(L2Close %s)" % sd(l[1])


def cobs(o):
    ls = clist(["(%s, %s)" % (cs(k), clist([cN(r) for r in v]) if v else "(@nil N)") for k, v in o["lsubs"]])
    rs = clist(["(%s, %s)" % (cs(k), clist([cs(n) for n in v])) for k, v in o["rsubs"]])
    pid = clist(["(%s, %s)" % (cN(i), cs(k)) for i, k in o["pid"]])
    pn = clist(["(%s, (%s, %s))" % (cs(k), cbool(f), clist([cN(r) for r in v]) if v else "(@nil N)")
                for k, (f, v) in o["pname"]])
    logs = clist(["(%s, %s)" % (cN(r), clist(["(%s, %s, %s, %s)" % (cs(c), cs(p), cs(s), cZ(a)) for (c, p, s, a) in recs]))
                  for r, recs in o["logs"]])
    return "(%s, %s, %s, %s, %s)" % (ls, rs, pid, pn, logs)


def coq_caseN(sim):
    nodes = clist(["(%s, %s)" % (cs(x), clist([cs(o) for o in sim.init_objs[x]])) for x in sim.names])
    evs = []
    for e in sim.trace:
        if "check" in e:
            evs.append("ECheck %s %s" % (cs(e["check"]), cobs(e["obs"])))
        elif e["label"][0] == "objremove_u":
            _, x, o, u = e["label"]
            evs.append("EObjRemoveU %s %s %s %s" % (cs(x), cs(o), clist([cs(y) for y in u]), clist([cout(k) for k in e["outs"]])))
        else:
            evs.append("EStep %s %s" % (clabelN(e["label"]), clist([cout(o) for o in e["outs"]])))
    return "(%s, %s)" % (nodes, clist(evs))


def coq_case2(sim):
    assert len(sim.names) == 2
    a, b = sim.names
    evs = []
    for e in sim.trace:
        if "check" in e:
            evs.append("E2Check %s %s" % (cbool(e["check"] == a), cobs(e["obs"])))
        else:
            evs.append("E2Step %s %s" % (clabel2(e["label"], a), clist([cout(o) for o in e["outs"]])))
    nd = lambda x: "(%s, %s)" % (cs(x), clist([cs(o) for o in sim.init_objs[x]]))
    return "(%s, %s, %s)" % (nd(a), nd(b), clist(evs))


# -------------------------------------------------------------------- the property oracle
class Oracle:
    """C07 and C08 re-stated on the observations (independent of the Coq model): every receiver
    queue must be the projection of the global publish / subscribe / remove / close event log.

    status of (node x, receiver r, signal T=(ctx, pub, sig)):
      base 'yes'   a subscribe call returned successfully and nothing ended the subscription since
      base 'no'    never subscribed, or unsubscribed / publisher removed / connection lost and the
                   news has reached x
      'maybe'      anything else (a call in progress, news of a removal still in flight, ...)
    A record for a 'no' receiver, a missing or duplicated record for a receiver that was 'yes' from
    before the publication started until delivery, a wrong field, or a reordering of two sequential
    publications is a violation.
    """

    def __init__(self, sim):
        self.sim = sim
        self.bad = []          # (key, text)

    def flag(self, key, text):
        if not any(k == key for k, _ in self.bad):
            self.bad.append((key, text))

    def run(self, final_quiescent=True):
        sim = self.sim
        base, since, inprog = {}, {}, {}
        taint_obj, taint_ctx = {}, {}
        deliv = {k: 0 for k in sim.chan}
        pubs, count, sentc = {}, {}, {}
        objs = {x: set(sim.init_objs[x]) for x in sim.names}
        peers = {x: set() for x in sim.names}
        queue = {}
        callinfo = {}

        def tainted(x, T):
            y, p, _ = T
            if x == y or y not in sim.names:
                return False
            if taint_ctx.get((x, y)):
                return True
            return taint_obj.get((x, y, p), 0) > deliv[(y, x)]

        def status(x, r, T):
            b = base.get((x, r, T), "no")
            if inprog.get((x, r, T)) and b != "yes":
                return "maybe"
            return b

        def keys_for(pred):
            return [k for k in set(base) | set(inprog) if pred(k)]

        for e in sim.olog:
            t, k = e[0], e[1]
            if k == "sub_start":
                _, _, x, call, T, r = e
                ex = T[1] in objs.get(T[0], ())
                alone = not any(kk[0] == x and kk[2] == T and v for kk, v in inprog.items())
                inprog.setdefault((x, r, T), {})[call] = dict(
                    killed=False, t0=t, ex_any=ex, ex_all=ex, alone=alone, tainted0=tainted(x, T),
                    up=T[0] in peers[x] and x in peers.get(T[0], ()))
            elif k == "sub_end":
                _, _, x, call, T, r, ok, waited, usage = e
                info = inprog[(x, r, T)].pop(call)
                if usage:
                    continue
                y, p, _s = T
                if ok:
                    clean = not info["killed"] and not tainted(x, T) and not info["tainted0"]
                    if clean:
                        if base.get((x, r, T)) != "yes":
                            since[(x, r, T)] = t
                        base[(x, r, T)] = "yes"
                    elif base.get((x, r, T), "no") == "no":
                        base[(x, r, T)] = "maybe"
                    if waited and y in sim.names and not info["ex_any"] and info["alone"]:
                        self.flag("c08:subscribe-unknown-publisher-succeeded",
                                  "subscribe to %s.%s succeeded although the publisher did not exist at any time "
                                  "during the call" % (y, p))
                else:
                    if x == y and info["ex_all"]:
                        self.flag("c08:local-subscribe-failed", "local subscribe to an existing publisher failed")
                    if x != y and y in sim.names and info["ex_all"] and info["up"] and not info["killed"] \
                            and info["alone"]:
                        self.flag("c08:spurious-subscription-error",
                                  "subscribe to %s.%s failed although the publisher existed and the connection "
                                  "stayed up during the whole call" % (y, p))
                if x == y and ok and not info["ex_any"]:
                    self.flag("c08:subscribe-unknown-publisher-succeeded",
                              "local subscribe to the unknown publisher %s succeeded" % p)
            elif k == "unsub":
                _, _, x, T, r = e
                base[(x, r, T)] = "no"
            elif k == "objadd":
                _, _, y, o = e
                objs[y].add(o)
                for kk in inprog:
                    if kk[2][0] == y and kk[2][1] == o:
                        for info in inprog[kk].values():
                            info["ex_any"] = True
            elif k == "objremove":
                _, _, y, o, sent = e
                objs[y].discard(o)
                for kk in keys_for(lambda kk: kk[2][0] == y and kk[2][1] == o):
                    x = kk[0]
                    if x == y:
                        base[kk] = "no"
                    elif base.get(kk) == "yes":
                        base[kk] = "maybe"
                    for info in inprog.get(kk, {}).values():
                        info["ex_all"] = False
                        info["killed"] = True
                for x in sim.names:
                    if x != y:
                        taint_obj[(x, y, o)] = sent.get((y, x), 0)
            elif k == "connect":
                _, _, x, y = e
                peers[x].add(y)
                peers[y].add(x)
            elif k == "close":
                _, _, x, y, sent_yx = e
                peers[x].discard(y)
                deliv[(y, x)] = sent_yx
                for kk in keys_for(lambda kk: kk[0] == x and kk[2][0] == y):
                    base[kk] = "no"
                    for info in inprog.get(kk, {}).values():
                        info["killed"] = True
                taint_ctx[(x, y)] = False
                for kk2 in [q for q in taint_obj if q[0] == x and q[1] == y]:
                    del taint_obj[kk2]
                if x in peers[y]:
                    taint_ctx[(y, x)] = True
                for kk in keys_for(lambda kk: kk[0] == y and kk[2][0] == x):
                    if base.get(kk) == "yes":
                        base[kk] = "maybe"
                    for info in inprog.get(kk, {}).values():
                        info["killed"] = True
            elif k == "pub_begin":
                _, _, y, p, s, a, quiet = e
                st0 = {}
                for kk in keys_for(lambda kk: kk[2] == (y, p, s)):
                    st0[(kk[0], kk[1])] = (status(*kk), since.get(kk, 0))
                pubs[a] = dict(node=y, p=p, s=s, t0=t, t1=None, st0=st0, quiet=quiet, got=set())
            elif k == "sent":
                _, _, y, x, a = e
                sentc[(a, x)] = sentc.get((a, x), 0) + 1
                if sentc[(a, x)] > 1:
                    self.flag("c07:duplicate-message", "publication sent twice to peer %s" % x)
            elif k == "record":
                _, _, x, r, rec = e
                queue.setdefault((x, r), []).append((rec, t))
                c, p, s, a = rec
                pb = pubs.get(a)
                if pb is None or (c, p, s) != (pb["node"], pb["p"], pb["s"]):
                    self.flag("c07:wrong-record", "receiver got a record %r that is not what was published" % (rec,))
                    continue
                count[(x, r, a)] = count.get((x, r, a), 0) + 1
                pb["got"].add(x)
                if count[(x, r, a)] > 1:
                    self.flag("c07:duplicate-record", "receiver got the same publication twice")
                T = (c, p, s)
                if x == pb["node"]:
                    st = pb["st0"].get((x, r), ("no", 0))[0]
                else:
                    st = status(x, r, T)
                if st == "no":
                    self.flag("c07:stray-record:%s" % ("local" if x == pb["node"] else "remote"),
                              "receiver %s/%d got %r although it was not subscribed to it when the receivers were "
                              "determined" % (x, r, rec))
            elif k == "pub_end":
                _, _, y, a, usage = e
                pb = pubs[a]
                pb["t1"] = t
                if usage:
                    continue
                T = (y, pb["p"], pb["s"])
                for (x, r), (st, sn) in pb["st0"].items():
                    if x == y and st == "yes" and count.get((x, r, a), 0) != 1:
                        self.flag("c07:missing-record:local",
                                  "receiver %s/%d was subscribed to %r when it was published but got %d records" % (
                                      x, r, T, count.get((x, r, a), 0)))
                    if x != y and st == "yes" and base.get((x, r, T)) == "yes" and since.get((x, r, T), 0) == sn \
                            and sentc.get((a, x), 0) != 1 and x in peers[y]:
                        self.flag("c07:missing-message",
                                  "no message to peer %s although receiver %d there is subscribed to %r" % (x, r, T))
            elif k == "taken":
                deliv[(e[2], e[3])] += 1
            elif k == "deliver_end":
                _, _, y, x, a = e
                pb = pubs[a]
                T = (y, pb["p"], pb["s"])
                anyrec = False
                for (xx, r, aa), n in count.items():
                    if xx == x and aa == a and n:
                        anyrec = True
                for (xx, r), (st, sn) in pb["st0"].items():
                    if xx == x and st == "yes" and base.get((x, r, T)) == "yes" and since.get((x, r, T), 0) == sn \
                            and count.get((x, r, a), 0) != 1:
                        self.flag("c07:missing-record:remote",
                                  "receiver %s/%d stayed subscribed to %r but got %d records of a delivered "
                                  "publication" % (x, r, T, count.get((x, r, a), 0)))
                if pb["quiet"] and not anyrec:
                    self.flag("c07:message-to-unsubscribed-peer",
                              "at a quiescent point %s sent %r to peer %s where no receiver is subscribed" % (y, T, x))
                    self.flag("c08:leak",
                              "at a quiescent point %s transmitted %r to peer %s where no receiver is subscribed" % (
                                  y, T, x))
        # order: two sequential publications of one context never arrive swapped
        for (x, r), q in queue.items():
            for i in range(len(q)):
                for jx in range(i + 1, len(q)):
                    pa, pb_ = pubs.get(q[i][0][3]), pubs.get(q[jx][0][3])
                    if pa and pb_ and pa["node"] == pb_["node"] and pb_["t1"] is not None and pb_["t1"] < pa["t0"]:
                        self.flag("c07:order", "receiver %s/%d got publication %r before the earlier publication %r" % (
                            x, r, q[i][0][3], q[jx][0][3]))
        if final_quiescent and sim.quiescent():
            for x in sim.names:
                for key in sim.mgr[x]._local_subscriptions:
                    parts = key.split(".")
                    if len(parts) != 3:
                        continue
                    y, p, sg = parts
                    if y != x and y in sim.names and y in sim.ctx[x].peers and x in sim.ctx[y].peers and p not in sim.ctx[y].objs:
                        self.flag("c08:stale-subscription-on-removed-publisher",
                                  "everything is delivered, %s and %s are connected, %s.%s does not exist, yet %s still has a local "
                                  "subscription %r (the removal of the publisher did not end it)" % (x, y, y, p, x, key))
        if final_quiescent:
            for call, c in sim.calls.items():
                self.flag("c08:blocked-forever",
                          "subscribe call %d at %s is still blocked after all messages were delivered and all "
                          "half-open connections closed" % (call, c["node"]))
        for p in sim.problems:
            self.flag("harness:" + p, p)
        for p in sim.problems_impl:
            self.flag("c07:exception:" + p, p)
        for p in sim.alias_problems:
            self.flag("c07:message-aliasing:" + p.split("(")[0].split(":")[0][:60], p)
        return self.bad
