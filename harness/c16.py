"""C16 — configuration loads strictly and round-trips.

Correspondence (H1, direct calls of the real functions of $QMI_REPO):
  * documents: generated JSON trees (strings with '#', quotes, backslashes, control and non-ASCII
    characters), serialised with random layout, comments appended to any line, CR / LF / CRLF line
    ends, optional faults (duplicate key, non-mapping top level, damaged text) -> _strip_comments,
    load_config_string; dump_config_string on every mapping tree; junk lines (exhaustive over a small
    alphabet + random) -> _strip_comments.  The Coq scanner / loader / printer (theories/C16/Model.v)
    must agree on every case.
  * typed structures: @configstruct classes built dynamically from random type terms (depth <= 3)
    and the shipped Cfg* classes of config_defs.py x matching and single-mutation data trees ->
    config_struct_from_dict / config_struct_to_dict; compared with the Coq `parse` / `to_data`:
    result object shape (tuple vs list, int vs float vs bool, structure vs dict), the data it
    converts back to, or the error kind and item path.
  * class definitions: generated @configstruct classes with 0-2 annotations outside the accepted
    grammar injected at random depth (Set[int], int | None, list[int], bytes, multi-member Union,
    Dict[int, T], builtin tuple, ...) -> _check_config_struct_type (and config_struct_from_dict, which
    must refuse the class before looking at data); _parse_config_value called directly on the same
    annotations (what the generated constructor does without the check) -> Coq `check` / `parse_ann`.
  * explicit bucket: U+2028 U+2029 U+0085 VT FF FS GS RS inside comments, inside strings and in junk
    lines (str.splitlines() would split there; the configuration language does not).
  * files (oracle only): dump_config_file / load_config_file through a scratch file: read back equal,
    overwrite replaces, refused dump leaves the file alone, file with comments loads to its data.
Independent oracles restate C16 on the implementation's observations (see oracle_* below).

What is claimed, and what is deliberately NOT (robustness against changes under which C16 still holds):
  * claimed: the loaded VALUE of a document (comments gone, string contents untouched, repeated keys and
    non-mapping documents rejected), load(dump(d)) = d also through a file, typed conversion accepted /
    refused with QMI_ConfigurationException and nothing else, result objects of the declared types,
    data converted back, and that a configuration error NAMES the offending item: its full dotted /
    indexed path occurs in the message as a delimited token — wherever, in whatever sentence.
  * not claimed: the shape of the comment-free intermediate text beyond the model's open choice (which
    line-break character ends a line), message wording or "kinds", the exception class used to reject a
    document (ValueError family or QMI_ConfigurationException), the layout of the dumped text, key order
    of mappings, whether an alternative spelling of a supported annotation (`X | None`, `list[X]`, ...) is
    refused or supported — if supported it must behave exactly like its typing equivalent (checked
    differentially), and the observed choice is handed to the Coq model as its policy parameter.
  * junk (non-JSON) lines through _strip_comments are compared with the model only (a difference is
    reported as a broken tie without claiming a failing input); the exhaustive string-content probes
    turn a wrong cut into a concrete failing document.

Helpers kept here rather than in common.py: cstr (string-literal encoding of text in case terms),
shuffling of the case order before ck.run_model (spreads large cases over the shards).
"""
import copy
import dataclasses
import itertools
import json
import re
import time
import typing

from common import cZ, cnat, cbool, clist, ccodepoints

THEORY = "C16"


# =========================================================================================
# Coq term printers
# =========================================================================================
class Obj(list):
    """JSON object as a list of (key, value) pairs (key order kept, keys may repeat)."""


def frepr(x):
    """text json.dumps emits for a float == the float atom of the model"""
    if x != x:
        return "NaN"
    if x == float("inf"):
        return "Infinity"
    if x == float("-inf"):
        return "-Infinity"
    return float.__repr__(x)


def cstr(s):
    """str -> Coq term of type list N; runs of printable ASCII become string literals (much cheaper
    for coqc to read than lists of numbers)"""
    parts, i, n = [], 0, len(s)
    while i < n:
        j = i
        while j < n and 32 <= ord(s[j]) <= 126:
            j += 1
        if j - i >= 3:
            parts.append('ss "%s"%%string' % s[i:j].replace('"', '""'))
            i = j
            continue
        j = i
        run = 0
        while j < n:
            if 32 <= ord(s[j]) <= 126:
                run += 1
                if run >= 3 and all(32 <= ord(c) <= 126 for c in s[j - 2:j + 1]):
                    # a literal-worthy run starts at j-2
                    k = j - 2
                    while j < n and 32 <= ord(s[j]) <= 126:
                        j += 1
                    if k > i:
                        parts.append(ccodepoints(s[i:k]))
                    parts.append('ss "%s"%%string' % s[k:j].replace('"', '""'))
                    i = j
                    break
            else:
                run = 0
            j += 1
        else:
            parts.append(ccodepoints(s[i:n]))
            i = n
    if not parts:
        return "[]%N"
    if len(parts) == 1:
        return parts[0] if parts[0].startswith("[") else "(%s)" % parts[0]
    return "(%s)" % " ++ ".join(parts)


def cj(v):
    if v is None:
        return "JNull"
    if v is True or v is False:
        return "(JBool %s)" % cbool(v)
    if isinstance(v, int):
        return "(JInt %s)" % cZ(v)
    if isinstance(v, float):
        return "(JFloat %s)" % cstr(frepr(v))
    if isinstance(v, str):
        return "(JStr %s)" % cstr(v)
    if isinstance(v, Obj):
        return "(JObj %s)" % clist("(%s, %s)" % (cstr(k), cj(x)) for k, x in v)
    if isinstance(v, dict):
        return "(JObj %s)" % clist("(%s, %s)" % (cstr(k), cj(x)) for k, x in v.items())
    if isinstance(v, (list, tuple)):
        return "(JList %s)" % clist(cj(x) for x in v)
    raise TypeError("not JSON data: %r" % (v,))


def canon(o):
    """Python result object -> cval term, by RUNTIME type."""
    if o is None:
        return "VNull"
    if o is True or o is False:
        return "(VBool %s)" % cbool(o)
    if isinstance(o, int):
        return "(VInt %s)" % cZ(o)
    if isinstance(o, float):
        return "(VFloat %s)" % cstr(frepr(o))
    if isinstance(o, str):
        return "(VStr %s)" % cstr(o)
    if dataclasses.is_dataclass(o) and not isinstance(o, type):
        return "(VStruct %s)" % clist("(%s, %s)" % (cstr(f.name), canon(getattr(o, f.name)))
                                      for f in dataclasses.fields(o))
    if isinstance(o, tuple):
        return "(VTuple %s)" % clist(canon(x) for x in o)
    if isinstance(o, list):
        return "(VList %s)" % clist(canon(x) for x in o)
    if isinstance(o, dict):
        return "(VDict %s)" % clist("(%s, %s)" % (cstr(k), canon(x)) for k, x in o.items())
    raise TypeError("unexpected object in configuration structure: %r" % (o,))


def cpath(pos):
    def one(e):
        if e[0] == "i":
            return "PIdx %s" % cnat(e[1])
        return "%s %s" % ("PKey" if e[0] == "k" else "PField", cstr(e[1]))
    return clist(one(e) for e in pos)


def render_path(pos):
    return ".".join(e[1] if e[0] == "f" else "[%d]" % e[1] if e[0] == "i" else "[%r]" % (e[1],) for e in pos)


# =========================================================================================
# Type terms.  JSON-able: ["int"] ["float"] ["str"] ["bool"] ["any"] ["opt",t] ["list",t] ["dict",t]
# ["vtuple",t] ["tuple",[t..]] ["struct",name,[[fname,t,null | {"data": matching json}]..]]
# =========================================================================================
SCALARS = ["int", "float", "str", "bool", "any"]
_classes = {}


def pytype(t):
    k = t[0]
    if k == "int":
        return int
    if k == "float":
        return float
    if k == "str":
        return str
    if k == "bool":
        return bool
    if k == "any":
        return typing.Any
    if k == "opt":
        return typing.Optional[pytype(t[1])]
    if k == "list":
        return typing.List[pytype(t[1])]
    if k == "dict":
        return typing.Dict[str, pytype(t[1])]
    if k == "vtuple":
        return typing.Tuple[pytype(t[1]), ...]
    if k == "tuple":
        return typing.Tuple[tuple(pytype(x) for x in t[1])]
    if k == "struct":
        return struct_class(t)
    if k == "rawlist":
        return typing.List if t[1] == "typing" else list
    if k == "rawdict":
        return typing.Dict if t[1] == "typing" else dict
    if k == "rawtuple":
        return typing.Tuple
    if k == "rawtupleb":
        return tuple
    if k == "other":
        return OTHER_ANNOTATIONS[t[1]]()
    if k == "alt":
        return ALT_SPELLINGS[t[1]][1]()
    if k == "union":
        return typing.Union[tuple([pytype(x) for x in t[1]] + ([type(None)] if t[2] else []))]
    if k == "dictk":
        return typing.Dict[DICT_KEYS[t[1]], pytype(t[2])]
    raise ValueError(t)


# Alternative spellings of annotations of the pinned grammar: (family, constructor, equivalent type term).
# C16 does not fix whether an implementation supports such a spelling: it either refuses it as
# unsupported or handles it exactly as its equivalent.  Which one is OBSERVED per family (probe_families)
# and passed to the model as its policy; "exactly as its equivalent" is checked differentially.
ALT_SPELLINGS = {
    "int | None": (0, lambda: int | None, ["opt", ["int"]]),
    "float | None": (0, lambda: float | None, ["opt", ["float"]]),
    "str | int": (0, lambda: str | int, ["union", [["str"], ["int"]], False]),
    "list[int]": (1, lambda: list[int], ["list", ["int"]]),
    "dict[str, int]": (1, lambda: dict[str, int], ["dict", ["int"]]),
    "tuple[int, int]": (1, lambda: tuple[int, int], ["tuple", [["int"], ["int"]]]),
}
ALT_PROBES = {0: "int | None", 1: "list[int]"}
FAMS_ON = set()


def probe_families():
    """which families of alternative spellings the implementation under test handles"""
    FAMS_ON.clear()
    for fam, name in ALT_PROBES.items():
        if impl_check(["alt", name])[0] == "ok":
            FAMS_ON.add(fam)


def alt_equiv(t):
    return ALT_SPELLINGS[t[1]][2]


def alt_on(t):
    return ALT_SPELLINGS[t[1]][0] in FAMS_ON


# annotations that neither function recognises and that have no equivalent in the grammar: refused
OTHER_ANNOTATIONS = {
    "Set[int]": lambda: typing.Set[int],
    "FrozenSet[str]": lambda: typing.FrozenSet[str],
    "bytes": lambda: bytes,
    "complex": lambda: complex,
    "object": lambda: object,
    "Sequence[int]": lambda: typing.Sequence[int],
    "Set[List[int]]": lambda: typing.Set[typing.List[int]],
    "Mapping[str, int]": lambda: typing.Mapping[str, int],
    "Type[int]": lambda: typing.Type[int],
}
_union_order = {}
DICT_KEYS = {"int": int, "bytes": bytes, "Any": typing.Any, "float": float}


def struct_class(t):
    key = json.dumps(t, sort_keys=True)
    if key in _classes:
        return _classes[key]
    if t[1].startswith("Cfg") and len(t) > 3:
        raise ValueError("shipped class must be registered")
    from qmi.core.config_struct import configstruct
    ns = {"__annotations__": {}}
    for fname, ft, dflt in t[2]:
        ns["__annotations__"][fname] = pytype(ft)
        if dflt is not None:
            val = build_value(ft, dflt["data"])
            if val is None or isinstance(val, (bool, int, float, str, tuple)) and _hashable(val):
                ns[fname] = val
            else:
                ns[fname] = dataclasses.field(default_factory=lambda v=val: copy.deepcopy(v))
    cls = configstruct(type(str(t[1]), (), ns))
    _classes[key] = cls
    return cls


def _hashable(v):
    try:
        hash(v)
        return True
    except TypeError:
        return False


def build_value(t, d):
    """The object a field of type t holds for MATCHING data d (used for defaults only; structures
    are built through the real constructor)."""
    k = t[0]
    if k == "opt":
        return None if d is None else build_value(t[1], d)
    if k == "float":
        return float(d)
    if k in ("int", "str", "bool", "any", "rawlist", "rawdict"):
        return copy.deepcopy(d)
    if k == "rawtuple":
        return tuple(copy.deepcopy(d))
    if k == "alt":
        return build_value(alt_equiv(t), d)
    if k == "list":
        return [build_value(t[1], x) for x in d]
    if k == "vtuple":
        return tuple(build_value(t[1], x) for x in d)
    if k == "tuple":
        return tuple(build_value(x, y) for x, y in zip(t[1], d))
    if k == "dict":
        return {kk: build_value(t[1], v) for kk, v in d.items()}
    if k == "struct":
        ftypes = {f[0]: f[1] for f in t[2]}
        return struct_class(t)(**{kk: build_value(ftypes[kk], v) for kk, v in d.items()})
    raise ValueError(t)


def cty(t):
    k = t[0]
    if k in SCALARS:
        return "T" + k.capitalize()
    if k in ("rawlist", "rawdict", "rawtuple"):
        return {"rawlist": "TRawList", "rawdict": "TRawDict", "rawtuple": "TRawTuple"}[k]
    if k == "opt":
        return "(TOpt %s)" % cty(t[1])
    if k == "list":
        return "(TList %s)" % cty(t[1])
    if k == "dict":
        return "(TDict %s)" % cty(t[1])
    if k == "vtuple":
        return "(TVarTuple %s)" % cty(t[1])
    if k == "tuple":
        s = "TNil"
        for x in reversed(t[1]):
            s = "(TCons %s %s)" % (cty(x), s)
        return "(TTuple %s)" % s
    if k == "struct":
        s = "FNil"
        for fname, ft, dflt in reversed(t[2]):
            dv = "None" if dflt is None else "(Some %s)" % canon(default_object(t, fname))
            s = "(FCons %s %s %s %s)" % (cstr(fname), cty(ft), dv, s)
        return "(TStruct %s)" % s
    raise ValueError(t)


def cann(t):
    """type term (any annotation) -> Coq term of type ann"""
    k = t[0]
    if k in SCALARS:
        return "A" + k.capitalize()
    if k in ("rawlist", "rawdict", "rawtuple", "rawtupleb"):
        return "(ARaw %s)" % {"rawlist": "RList", "rawdict": "RDict", "rawtuple": "RTuple", "rawtupleb": "RTupleB"}[k]
    if k == "other":
        return "AOther"
    if k == "alt":
        return "(AAlt %s %s)" % (cnat(ALT_SPELLINGS[t[1]][0]), cann(alt_equiv(t)))
    if k == "opt":
        return "(AOpt %s)" % cann(t[1])
    if k == "list":
        return "(AList %s)" % cann(t[1])
    if k == "dict":
        return "(ADict true %s)" % cann(t[1])
    if k == "dictk":
        return "(ADict false %s)" % cann(t[2])
    if k == "vtuple":
        return "(AVarTuple %s)" % cann(t[1])
    if k in ("tuple", "union"):
        s = "ANil"
        for x in reversed(t[1]):
            s = "(ACons %s %s)" % (cann(x), s)
        return "(ATuple %s)" % s if k == "tuple" else "(AUnion %s %s)" % (s, cbool(t[2]))
    if k == "struct":
        s = "AFNil"
        for fname, ft, dflt in reversed(t[2]):
            dv = "None" if dflt is None else "(Some %s)" % canon(default_object(t, fname))
            s = "(AFCons %s %s %s %s)" % (cstr(fname), cann(ft), dv, s)
        return "(AStruct %s)" % s
    raise ValueError(t)


def default_object(t, fname):
    """the default actually installed in the class (read back from the dataclass field)"""
    cls = struct_class(t)
    for f in dataclasses.fields(cls):
        if f.name == fname:
            if f.default is not dataclasses.MISSING:
                return f.default
            return f.default_factory()
    raise KeyError(fname)


def type_of_annotation(a, seen=()):
    """typing annotation of a shipped class -> type term (fails on anything unsupported)."""
    if a is int:
        return ["int"]
    if a is float:
        return ["float"]
    if a is str:
        return ["str"]
    if a is bool:
        return ["bool"]
    if a is typing.Any:
        return ["any"]
    origin = typing.get_origin(a)
    args = typing.get_args(a)
    if origin is typing.Union and len(args) == 2 and type(None) in args:
        return ["opt", type_of_annotation([x for x in args if x is not type(None)][0])]
    if origin is list:
        return ["list", type_of_annotation(args[0])]
    if origin is dict and args[0] is str:
        return ["dict", type_of_annotation(args[1])]
    if origin is tuple and len(args) == 2 and args[1] is Ellipsis:
        return ["vtuple", type_of_annotation(args[0])]
    if origin is tuple and args:
        return ["tuple", [type_of_annotation(x) for x in args]]
    if dataclasses.is_dataclass(a) and isinstance(a, type):
        from qmi.core.config_struct import config_struct_to_dict
        fields = []
        for f in dataclasses.fields(a):
            ft = type_of_annotation(f.type)
            if f.default is not dataclasses.MISSING:
                dv = f.default
            elif f.default_factory is not dataclasses.MISSING:
                dv = f.default_factory()
            else:
                dv = dataclasses.MISSING
            if dv is dataclasses.MISSING:
                fields.append([f.name, ft, None])
            else:
                dd = dv if not dataclasses.is_dataclass(dv) else config_struct_to_dict(dv)
                fields.append([f.name, ft, {"data": json.loads(json.dumps(dd))}])
        t = ["struct", a.__name__, fields, "shipped"]
        _classes[json.dumps(t, sort_keys=True)] = a
        return t
    raise ValueError("unsupported annotation %r" % (a,))


# =========================================================================================
# Generators
# =========================================================================================
NASTY = ['#', '"', '\\', 'a', 'b', ' ', '/', 'é', '\u2028', '\n', '\t', '\r', '\x00', '\x7f',
         '\U0001f600', '{', ':', ',', "'", '[', ']', '\x85', '\ud800', 'u', '0']


def gen_string(rng, nasty=True):
    n = rng.choice([0, 1, 1, 2, 3, 4, 6])
    if not nasty:
        return "".join(rng.choice("abcxyz_") for _ in range(max(1, n)))
    return "".join(rng.choice(NASTY) for _ in range(n))


INTS = [0, 1, -1, 2, 7, 10, -10, 99, 100, 255, 1000, 65536, 2 ** 31, -2 ** 63, 2 ** 70, 10 ** 19 + 3, 123456789]
FLOATS = [0.0, -0.0, 1.0, 2.5, -3.25, 1e-07, 1e22, 1e16, 0.1, 123456.789, 5e-324, 1.7976931348623157e308]


def gen_plain(rng, depth, special_floats=False, p_scalar=0.55, width=4):
    """random JSON tree"""
    r = rng.random()
    if depth <= 0 or r < p_scalar:
        c = rng.randrange(7)
        if c == 0:
            return None
        if c == 1:
            return rng.choice([True, False])
        if c == 2:
            return rng.choice(INTS)
        if c == 3:
            f = rng.choice(FLOATS)
            if special_floats and rng.random() < 0.1:
                f = rng.choice([float("nan"), float("inf"), float("-inf")])
            return f
        return gen_string(rng)
    if r < p_scalar + 0.45 * (1 - p_scalar):
        return [gen_plain(rng, depth - 1, special_floats, p_scalar, width) for _ in range(rng.randrange(width))]
    d = {}
    for _ in range(rng.randrange(width)):
        d[gen_string(rng)] = gen_plain(rng, depth - 1, special_floats, p_scalar, width)
    return d


class TypeGen:
    def __init__(self, rng):
        self.rng = rng
        self.n = 0

    def ty(self, depth):
        rng = self.rng
        if rng.random() < 0.07:
            k = rng.choice(["rawlist", "rawdict", "rawtuple"])
            return [k] if k == "rawtuple" else [k, rng.choice(["typing", "builtin"])]
        if depth <= 0 or rng.random() < 0.35:
            return [rng.choice(SCALARS)]
        k = rng.choice(["opt", "opt", "list", "dict", "vtuple", "tuple", "tuple", "struct", "struct"])
        if k == "opt":
            while True:
                inner = self.ty(depth - 1)
                if inner[0] != "opt":      # typing flattens Optional[Optional[T]]
                    return ["opt", inner]
        if k == "tuple":
            return ["tuple", [self.ty(depth - 1) for _ in range(rng.choice([0, 1, 2, 2, 2, 3]))]]
        if k == "struct":
            return self.struct(depth)
        return [k, self.ty(depth - 1)]

    def struct(self, depth):
        rng = self.rng
        self.n += 1
        fields, names = [], set()
        for _ in range(rng.choice([0, 1, 2, 2, 3, 4])):
            name = rng.choice(["fa", "b", "c", "x", "y", "val", "name", "items_", "f0", "f1", "host", "k"])
            if name in names:
                continue
            names.add(name)
            ft = self.ty(depth - 1)
            dflt = None
            if rng.random() < 0.5:
                dflt = {"data": gen_data(rng, ft, for_default=True)}
            fields.append([name, ft, dflt])
        return ["struct", "S%d" % self.n, fields]


def gen_data(rng, t, for_default=False):
    """data admitted by type t"""
    k = t[0]
    if k == "int":
        return rng.choice(INTS) if rng.random() < 0.9 else rng.choice([True, False])
    if k == "float":
        r = rng.random()
        if r < 0.55:
            return rng.choice(FLOATS)
        return rng.choice(INTS) if r < 0.93 else rng.choice([True, False])
    if k == "str":
        return gen_string(rng)
    if k == "bool":
        return rng.choice([True, False])
    if k in ("any", "other"):
        return gen_plain(rng, 2)
    if k == "alt":
        return gen_data(rng, alt_equiv(t), for_default)
    if k in ("rawlist", "rawtuple", "rawtupleb"):
        return [gen_plain(rng, 1) for _ in range(rng.choice([0, 1, 2, 3]))]
    if k == "rawdict":
        return {gen_string(rng): gen_plain(rng, 1) for _ in range(rng.choice([0, 1, 2]))}
    if k == "union":
        return gen_data(rng, rng.choice(t[1]), for_default)
    if k == "dictk":
        return gen_data(rng, ["dict", t[2]], for_default)
    if k == "opt":
        return None if rng.random() < 0.3 else gen_data(rng, t[1], for_default)
    if k in ("list", "vtuple"):
        return [gen_data(rng, t[1], for_default) for _ in range(rng.choice([0, 1, 2, 3]))]
    if k == "tuple":
        return [gen_data(rng, x, for_default) for x in t[1]]
    if k == "dict":
        d = {}
        for _ in range(rng.choice([0, 1, 2, 3])):
            d[gen_string(rng)] = gen_data(rng, t[1], for_default)
        return d
    if k == "struct":
        items = []
        for fname, ft, dflt in t[2]:
            if dflt is not None and rng.random() < 0.45:
                continue
            items.append((fname, gen_data(rng, ft, for_default)))
        rng.shuffle(items)
        return dict(items)
    raise ValueError(t)


def _norm(t):
    """dictk parses like dict; a multi-member Union parses like its last member (Optional if None is in it)"""
    if t[0] == "alt":
        return _norm(alt_equiv(t)) if alt_on(t) else t
    if t[0] == "dictk":
        return ["dict", t[2]]
    if t[0] == "union":
        return ["opt", t[1][-1]] if t[2] else _norm(t[1][-1])
    return t


def positions(t, d, pre, out):
    """all items of d that have a declared type: (path, declared type, container, key)"""
    t = _norm(t)
    k = t[0]
    if k == "opt":
        if d is not None:
            positions(t[1], d, pre, out)
        return
    if k in ("list", "vtuple") and isinstance(d, list):
        for i, e in enumerate(d):
            out.append((pre + [("i", i)], t[1], d, i))
            positions(t[1], e, pre + [("i", i)], out)
    elif k == "tuple" and isinstance(d, list):
        for i, e in enumerate(d[:len(t[1])]):
            out.append((pre + [("i", i)], t[1][i], d, i))
            positions(t[1][i], e, pre + [("i", i)], out)
    elif k == "dict" and isinstance(d, dict):
        for kk, e in d.items():
            out.append((pre + [("k", kk)], t[1], d, kk))
            positions(t[1], e, pre + [("k", kk)], out)
    elif k == "struct" and isinstance(d, dict):
        for fname, ft, _ in t[2]:
            if fname in d:
                out.append((pre + [("f", fname)], ft, d, fname))
                positions(ft, d[fname], pre + [("f", fname)], out)


def struct_positions(t, d, pre, out):
    """all (path, struct type, data dict) pairs"""
    t = _norm(t)
    k = t[0]
    if k == "opt":
        if d is not None:
            struct_positions(t[1], d, pre, out)
    elif k in ("list", "vtuple") and isinstance(d, list):
        for i, e in enumerate(d):
            struct_positions(t[1], e, pre + [("i", i)], out)
    elif k == "tuple" and isinstance(d, list):
        for i, e in enumerate(d[:len(t[1])]):
            struct_positions(t[1][i], e, pre + [("i", i)], out)
    elif k == "dict" and isinstance(d, dict):
        for kk, e in d.items():
            struct_positions(t[1], e, pre + [("k", kk)], out)
    elif k == "struct" and isinstance(d, dict):
        out.append((pre, t, d))
        for fname, ft, _ in t[2]:
            if fname in d:
                struct_positions(ft, d[fname], pre + [("f", fname)], out)


def all_paths(t, d, pre, out):
    """every item path the parser could name for (t, d)"""
    out.append(pre)
    t = _norm(t)
    k = t[0]
    if k == "opt":
        if d is not None:
            all_paths(t[1], d, pre, out)
    elif k in ("list", "vtuple") and isinstance(d, list):
        for i, e in enumerate(d):
            all_paths(t[1], e, pre + [("i", i)], out)
    elif k == "tuple" and isinstance(d, list):
        for i, e in enumerate(d[:len(t[1])]):
            all_paths(t[1][i], e, pre + [("i", i)], out)
    elif k == "dict" and isinstance(d, dict):
        for kk, e in d.items():
            all_paths(t[1], e, pre + [("k", kk)], out)
    elif k == "struct" and isinstance(d, dict):
        names = [f[0] for f in t[2]]
        for fname, ft, _ in t[2]:
            if fname in d:
                all_paths(ft, d[fname], pre + [("f", fname)], out)
            else:
                out.append(pre + [("f", fname)])
        for kk in d:
            if kk not in names:
                out.append(pre + [("f", kk)])


def jkind(v):
    if v is None:
        return "null"
    if isinstance(v, bool):
        return "bool"
    if isinstance(v, int):
        return "int"
    if isinstance(v, float):
        return "float"
    if isinstance(v, str):
        return "str"
    if isinstance(v, list):
        return "list"
    return "dict"


# declared kind -> JSON kinds that are certainly NOT admitted (the obvious cases only)
SURELY_BAD = {
    "int": {"null", "float", "str", "list", "dict"},
    "float": {"null", "str", "list", "dict"},
    "str": {"null", "bool", "int", "float", "list", "dict"},
    "bool": {"null", "int", "float", "str", "list", "dict"},
    "list": {"null", "bool", "int", "float", "str", "dict"},
    "vtuple": {"null", "bool", "int", "float", "str", "dict"},
    "tuple": {"null", "bool", "int", "float", "str", "dict"},
    "dict": {"null", "bool", "int", "float", "str", "list"},
    "struct": {"null", "bool", "int", "float", "str", "list"},
    "rawlist": {"null", "bool", "int", "float", "str", "dict"},
    "rawtuple": {"null", "bool", "int", "float", "str", "dict"},
    "rawdict": {"null", "bool", "int", "float", "str", "list"},
}
WRONG = [5, 0, 3.5, True, False, None, "s", "ab", "", [], [1], [1, 2], ["a", "b"], {}, {"a": 1}, {"a": 1, "b": 2},
         2 ** 2000, -10 ** 400, 1e308]


def mutate(rng, t, d):
    """one mutation of matching data; returns (data, expectation or None).
    expectation = (kind, path) when the property text itself says this must be refused there."""
    d = copy.deepcopy(d)
    sp, pos = [], []
    struct_positions(t, d, [], sp)
    positions(t, d, [], pos)
    r = rng.random()
    if r < 0.2 and sp:                                  # unknown key
        pre, st, dd = rng.choice(sp)
        names = [f[0] for f in st[2]]
        key = rng.choice(["zz", "unknown_item", "A", "a ", "self_", "b.c", ""] + [n.upper() for n in names])
        if key in names or key in dd:
            return d, None
        dd[key] = rng.choice(WRONG[:16])
        if rng.random() < 0.5:                           # keep insertion position random
            items = list(dd.items())
            rng.shuffle(items)
            dd.clear()
            dd.update(items)
        return d, ("Unknown", pre + [("f", key)])
    if r < 0.4 and sp:                                  # drop a key
        cand = [(pre, st, dd, f) for pre, st, dd in sp for f in st[2] if f[0] in dd]
        if cand:
            pre, st, dd, f = rng.choice(cand)
            del dd[f[0]]
            return d, (("Missing", pre + [("f", f[0])]) if f[2] is None else None)
    if r < 0.5:
        tp = [p for p in pos if strip_opt(p[1])[0] == "tuple"]
        if tp:                                           # wrong length for a fixed tuple
            pre, ft, cont, key = rng.choice(tp)
            v = cont[key]
            if isinstance(v, list):
                if v and rng.random() < 0.5:
                    v.pop(rng.randrange(len(v)))
                else:
                    v.insert(rng.randrange(len(v) + 1), rng.choice(WRONG[:8]))
                return d, ("Mismatch", pre)
    if pos:                                              # wrong value somewhere
        pre, ft, cont, key = rng.choice(pos)
        v = rng.choice(WRONG)
        cont[key] = v
        base = strip_opt(ft)
        if ft[0] == "opt" and v is None:
            return d, None
        if base[0] != "any" and jkind(v) in SURELY_BAD.get(base[0], ()):
            return d, ("Mismatch", pre)
        return d, None
    return d, None


def strip_opt(t):
    return t[1] if t[0] == "opt" else t


# ---- annotations outside the accepted grammar --------------------------------------------------
def gen_unsupported(rng, tg, depth):
    k = rng.choice(["other", "alt", "alt", "union", "union", "dictk", "rawtupleb"])
    if k == "other":
        return ["other", rng.choice(sorted(OTHER_ANNOTATIONS))]
    if k == "alt":
        return ["alt", rng.choice(sorted(ALT_SPELLINGS))]
    if k == "rawtupleb":
        return ["rawtupleb"]
    if k == "dictk":
        return ["dictk", rng.choice(sorted(DICT_KEYS)), tg.ty(max(0, depth - 1))]
    while True:
        ms = [tg.ty(max(0, depth - 1)) for _ in range(rng.choice([2, 2, 3]))]
        if any(m[0] == "opt" for m in ms):
            continue
        hn = rng.random() < 0.4
        # typing caches Union[...] objects and treats Unions with the same members in another order as
        # equal: the member order of the object that comes back (hence "the last member") is that of
        # the first such Union built in the process.  Keep one order per member set for the whole run.
        key = (frozenset(json.dumps(m, sort_keys=True) for m in ms), hn)
        ms = _union_order.setdefault(key, ms)
        u = pytype(["union", ms, hn])
        if typing.get_origin(u) is typing.Union and len(typing.get_args(u)) == len(ms) + (1 if hn else 0) \
                and [a for a in typing.get_args(u) if a is not type(None)] == [pytype(m) for m in ms]:
            return ["union", copy.deepcopy(ms), hn]


def sub_nodes(t, route, out, into_alt=False):
    """(definition path, parent list, index) of every annotation below t"""
    k = t[0]
    if k == "alt" and into_alt:
        sub_nodes(copy.deepcopy(alt_equiv(t)), route, out, into_alt)
    elif k == "dictk" and into_alt:
        out.append((route + [("any",)], t, 2))
        sub_nodes(t[2], route + [("any",)], out, into_alt)
    elif k == "opt":
        out.append((route, t, 1))
        sub_nodes(t[1], route, out, into_alt)
    elif k in ("list", "dict", "vtuple"):
        out.append((route + [("any",)], t, 1))
        sub_nodes(t[1], route + [("any",)], out, into_alt)
    elif k == "tuple":
        for i, x in enumerate(t[1]):
            out.append((route + [("i", i)], t[1], i))
            sub_nodes(x, route + [("i", i)], out, into_alt)
    elif k == "struct":
        for f in t[2]:
            out.append((route + [("f", f[0])], f, 1))
            sub_nodes(f[1], route + [("f", f[0])], out, into_alt)


def contains_unsupported(t):
    k = t[0]
    if k in ("other", "union", "dictk", "rawtupleb"):
        return True
    if k == "alt":
        return (not alt_on(t)) or contains_unsupported(alt_equiv(t))
    if k in ("opt", "list", "dict", "vtuple"):
        return contains_unsupported(t[1])
    if k == "tuple":
        return any(contains_unsupported(x) for x in t[1])
    if k == "struct":
        return any(contains_unsupported(f[1]) for f in t[2])
    return False


def strip_defaults(t):
    """a field whose annotation contains an unsupported part gets no default (its default could not
    be built through the constructor)"""
    k = t[0]
    if k in ("opt", "list", "dict", "vtuple"):
        strip_defaults(t[1])
    elif k == "tuple":
        for x in t[1]:
            strip_defaults(x)
    elif k == "dictk":
        strip_defaults(t[2])
    elif k == "alt":
        pass
    elif k == "union":
        for x in t[1]:
            strip_defaults(x)
    elif k == "struct":
        for f in t[2]:
            strip_defaults(f[1])
            if contains_unsupported(f[1]) or contains_alt(f[1]):     # the default was made for the replaced annotation
                f[2] = None


def contains_alt(t):
    k = t[0]
    if k == "alt":
        return True
    if k in ("opt", "list", "dict", "vtuple"):
        return contains_alt(t[1])
    if k == "dictk":
        return contains_alt(t[2])
    if k in ("tuple", "union"):
        return any(contains_alt(x) for x in t[1])
    if k == "struct":
        return any(contains_alt(f[1]) for f in t[2])
    return False


def replace_alt(t):
    """the same annotation with every alternative spelling replaced by its typing equivalent"""
    k = t[0]
    if k == "alt":
        return copy.deepcopy(alt_equiv(t))
    if k in ("opt", "list", "dict", "vtuple"):
        return [k, replace_alt(t[1])]
    if k == "dictk":
        return [k, t[1], replace_alt(t[2])]
    if k == "tuple":
        return [k, [replace_alt(x) for x in t[1]]]
    if k == "union":
        return [k, [replace_alt(x) for x in t[1]], t[2]]
    if k == "struct":
        return [k, t[1], [[f[0], replace_alt(f[1]), f[2]] for f in t[2]]] + t[3:]
    return t


def inject_unsupported(rng, tg, t, n):
    """replace n random sub-annotations of struct type t; returns (type, [(definition path, kind)])"""
    t = copy.deepcopy(t)
    done = []
    for _ in range(n):
        nodes = []
        sub_nodes(t, [], nodes)
        nodes = [x for x in nodes if not (x[1][0] == "opt" and False)]
        if not nodes:
            break
        route, parent, idx = rng.choice(nodes)
        if parent[0] == "opt":
            u = gen_unsupported(rng, tg, 1)
            # typing merges Optional[Union[...]] and Optional[X | Y] into one Union
            while u[0] == "union" or (u[0] == "alt" and " | " in u[1]):
                u = gen_unsupported(rng, tg, 1)
        else:
            u = gen_unsupported(rng, tg, 1)
            # `X | Y` as a parameter of a typing generic is looked up in typing's alias cache, where it
            # compares equal to typing.Union[X, Y]: which object comes back depends on what was built
            # before in the process.  Only use it as a direct field annotation.
            while u[0] == "alt" and " | " in u[1] and not (route and route[-1][0] == "f"):
                u = gen_unsupported(rng, tg, 1)
        parent[idx] = u
        if contains_unsupported(u):      # an alternative spelling the implementation handles is not unsupported
            done.append((route, u[0]))
    strip_defaults(t)
    return t, done


def render_cpath(route):
    return ".".join("[]" if e[0] == "any" else "[%d]" % e[1] if e[0] == "i" else e[1] for e in route)


def definition_paths(t):
    nodes = []
    sub_nodes(t, [], nodes, into_alt=True)
    return [[]] + [n[0] for n in nodes]


def ccpath(route):
    return clist("CAny" if e[0] == "any" else "CIdx %s" % cnat(e[1]) if e[0] == "i" else "CField %s" % cstr(e[1])
                 for e in route)


def cfams():
    return clist(cnat(f) for f in sorted(FAMS_ON))


def impl_check(t):
    from qmi.core.config_struct import _check_config_struct_type
    from qmi.core.exceptions import QMI_ConfigurationException
    try:
        _check_config_struct_type(pytype(t), [])
        return ("ok",)
    except QMI_ConfigurationException as e:
        return ("cfgerr", str(e))
    except Exception as e:  # noqa
        return ("exc", type(e).__name__, str(e))


def check_case_term(t, obs):
    o = "CoOther"
    if obs[0] == "ok":
        o = "CoOk"
    elif obs[0] == "cfgerr":
        o = "(CoErr %s)" % clist(ccpath(r) for r in named_paths(obs[1], definition_paths(t), render_cpath))
    return "(CCheck %s %s %s)" % (cfams(), cann(t), o)


def impl_parse_value(t, data):
    """_parse_config_value(data, annotation, []) directly — what the generated constructor does,
    without the class check"""
    from qmi.core.config_struct import _parse_config_value, _inner_config_struct_to_dict
    from qmi.core.exceptions import QMI_ConfigurationException
    try:
        r = _parse_config_value(copy.deepcopy(data), pytype(t), [])
    except QMI_ConfigurationException as e:
        return ("cfgerr", str(e))
    except Exception as e:  # noqa
        return ("exc", type(e).__name__, str(e))
    try:
        return ("ok", canon(r), _inner_config_struct_to_dict(r), r)
    except Exception as e:  # noqa
        return ("exc", "to_dict:" + type(e).__name__, str(e))


def parse_ann_case_term(t, data, obs):
    amb = False
    if obs[0] == "ok":
        o = "(PoOk %s %s)" % (obs[1], cj(obs[2]))
    elif obs[0] == "cfgerr":
        o = "(PoErr %s)" % clist(cpath(p) for p in named_paths(obs[1], data_paths(t, data), render_path))
    else:
        o = "PoOther"
    return "(CParseAnn %s %s %s %s %s)" % (cfams(), cann(t), cj(data), float_table(data), o), amb


# =========================================================================================
# Implementation drivers
# =========================================================================================
def impl_parse(t, data):
    """config_struct_from_dict + config_struct_to_dict on the real code.
    -> ("ok", result cval term, back data) | ("cfgerr", message) | ("exc", class name, message)"""
    from qmi.core.config_struct import config_struct_from_dict, config_struct_to_dict
    from qmi.core.exceptions import QMI_ConfigurationException
    cls = struct_class(t)
    try:
        r = config_struct_from_dict(copy.deepcopy(data), cls)
    except QMI_ConfigurationException as e:
        return ("cfgerr", str(e))
    except Exception as e:  # noqa
        return ("exc", type(e).__name__, str(e))
    try:
        back = config_struct_to_dict(r)
        return ("ok", canon(r), back, r)
    except Exception as e:  # noqa
        return ("exc", "to_dict:" + type(e).__name__, str(e))


DELIMS = set(" \t\n\r:;,()'\"`")


def named_in(msg, rendered):
    """does the message contain `rendered` (a full dotted / indexed item path) as a delimited token —
    anywhere, whatever the sentence around it"""
    if rendered == "":
        return False
    i = msg.find(rendered)
    while i >= 0:
        j = i + len(rendered)
        if (i == 0 or msg[i - 1] in DELIMS) and (j == len(msg) or msg[j] in DELIMS):
            return True
        i = msg.find(rendered, i + 1)
    return False


def named_paths(msg, candidates, render):
    """the candidate paths (structured) that the message names; the root (empty path) counts as
    named only when it is a candidate and nothing else is named (a root has no name)"""
    out, seen = [], set()
    for c in candidates:
        key = json.dumps(c)
        if key in seen:
            continue
        seen.add(key)
        if c and named_in(msg, render(c)):
            out.append(c)
    if not out:      # an item whose path renders as the empty string (the root; a top-level key "") cannot be named
        for c in candidates:
            if render(c) == "" and c not in out:
                out.append(c)
    return out


def data_paths(t, data):
    out = []
    all_paths(t, data, [], out)
    return out


def float_table(data):
    ints = {0, 1}

    def walk(v):
        if isinstance(v, bool):
            return
        if isinstance(v, int):
            ints.add(v)
        elif isinstance(v, list):
            for x in v:
                walk(x)
        elif isinstance(v, dict):
            for x in v.values():
                walk(x)
    walk(data)
    tab = []
    for z in sorted(ints):
        try:
            f = "(Some %s)" % cstr(frepr(float(z)))
        except OverflowError:
            f = "None"
        tab.append("(%s, %s)" % (cZ(z), f))
    return clist(tab)


def parse_case_term(t, data, obs):
    """obs from impl_parse -> (Coq case term, observed summary, ambiguous?)"""
    amb = False
    if obs[0] == "ok":
        o = "(PoOk %s %s)" % (obs[1], cj(obs[2]))
    elif obs[0] == "cfgerr":
        o = "(PoErr %s)" % clist(cpath(p) for p in named_paths(obs[1], data_paths(t, data), render_path))
    else:
        o = "PoOther"
    return "(CParse %s %s %s %s)" % (cty(t), cj(data), float_table(data), o), amb


def jeq(a, b):
    """equality of JSON data including scalar types, key ORDER ignored (Python dict equality)"""
    if jkind(a) != jkind(b):
        return False
    if isinstance(a, list):
        return len(a) == len(b) and all(jeq(x, y) for x, y in zip(a, b))
    if isinstance(a, dict):
        return set(a) == set(b) and all(jeq(a[k], b[k]) for k in a)
    if isinstance(a, float):
        return frepr(a) == frepr(b)
    return a == b


def covers(data, back):
    """`back` holds everything `data` holds, changed at most by int->float; extra keys (defaults)
    allowed in mappings.  Type-agnostic statement of 'no value is silently altered'."""
    ka, kb = jkind(data), jkind(back)
    if ka in ("int", "bool") and kb == "float":
        try:
            return float(data) == back
        except OverflowError:
            return False
    if ka != kb:
        return False
    if ka == "list":
        return len(data) == len(back) and all(covers(x, y) for x, y in zip(data, back))
    if ka == "dict":
        return all(k in back and covers(v, back[k]) for k, v in data.items())
    if ka == "float":
        return frepr(data) == frepr(back)
    return data == back


def conforms(t, o):
    """the result object is a value of its declared type (floats in float fields, tuples in Tuple
    fields, structure instances with every field set)"""
    k = t[0]
    if k == "any":
        if isinstance(o, list):
            return all(conforms(t, x) for x in o)
        if isinstance(o, dict):
            return all(isinstance(kk, str) and conforms(t, x) for kk, x in o.items())
        return o is None or type(o) in (bool, int, float, str)
    if k == "int":
        return type(o) in (int, bool)
    if k == "float":
        return type(o) is float
    if k == "str":
        return type(o) is str
    if k == "bool":
        return type(o) is bool
    if k == "opt":
        return o is None or conforms(t[1], o)
    if k == "list":
        return type(o) is list and all(conforms(t[1], x) for x in o)
    if k == "vtuple":
        return type(o) is tuple and all(conforms(t[1], x) for x in o)
    if k == "tuple":
        return type(o) is tuple and len(o) == len(t[1]) and all(conforms(a, x) for a, x in zip(t[1], o))
    if k == "dict":
        return isinstance(o, dict) and all(isinstance(kk, str) and conforms(t[1], x) for kk, x in o.items())
    if k == "struct":
        return isinstance(o, struct_class(t)) and all(hasattr(o, f[0]) and conforms(f[1], getattr(o, f[0])) for f in t[2])
    if k == "rawlist":
        return type(o) is list and all(conforms(["any"], x) for x in o)
    if k == "rawtuple":
        return type(o) is tuple and all(conforms(["any"], x) for x in o)
    if k == "rawdict":
        return isinstance(o, dict) and conforms(["any"], o)
    return False


def escape_key(cname, msg):
    m = re.sub(r"'[^']*'", "T", msg)[:60]
    return "escape:%s:%s" % (cname, m)


def oracle_parse(t, data, obs, expect, matching):
    """C16 (typed half) on the implementation's observations -> list of (key, what)"""
    from qmi.core.config_struct import config_struct_from_dict, config_struct_to_dict
    bad = []
    if obs[0] == "exc":
        bad.append((escape_key(obs[1], obs[2]),
                    "the typed conversion raised %s (%s) instead of QMI_ConfigurationException" % (obs[1], obs[2][:80])))
        return bad
    if obs[0] == "cfgerr":
        named = named_paths(obs[1], data_paths(t, data), render_path)
        if matching:
            bad.append(("refused-matching-data", "data admitted by the declared type was refused: " + obs[1][:100]))
        elif not named or all(render_path(c) == "" for c in named) and not any(
                c and render_path(c) == "" for c in named):
            bad.append(("error-without-item", "configuration error names no item of the data (no item path "
                        "occurs in it as a token): " + obs[1][:100]))
        elif expect and render_path(expect[1]) and not named_in(obs[1], render_path(expect[1])):
            bad.append(("wrong-item-named", "the offending item is %r; the message does not name it: %s"
                        % (render_path(expect[1]), obs[1][:100])))
        return bad
    # accepted
    back, r = obs[2], obs[3]
    if expect:
        bad.append(("accepted-%s" % expect[0].lower(),
                    "data with a %s item at %r was accepted" % (expect[0].lower(), render_path(expect[1]))))
    try:
        json.dumps(back)
    except Exception as e:  # noqa
        bad.append(("to_dict-not-json", "config_struct_to_dict result is not JSON data: %r" % (e,)))
        return bad
    if not conforms(t, r):
        bad.append(("result-not-of-declared-type", "the structure returned holds a value that is not of its declared "
                    "field type (e.g. int left in a float field, list in a Tuple field)"))
    if not covers(data, back):
        bad.append(("silently-altered", "converting back does not return the data (beyond int->float, defaults)"))
    try:
        r2 = config_struct_from_dict(copy.deepcopy(back), struct_class(t))
        back2 = config_struct_to_dict(r2)
        if not jeq(back2, back) or canon(r2) != canon(r):
            bad.append(("roundtrip-differs", "from_dict(to_dict(s)) differs from s"))
    except Exception as e:  # noqa
        bad.append(("roundtrip-raises", "from_dict(to_dict(s)) raised %s" % type(e).__name__))
    return bad


# ---- documents ---------------------------------------------------------------------------
def ref_cut(line):
    """hand-written reference for the comment position in one line (None = no comment found)"""
    i, n = 0, len(line)
    while i < n:
        c = line[i]
        if c == "#":
            return i
        if c == '"':
            j = i + 1
            while True:
                if j >= n:
                    return None
                if line[j] == "\\":
                    if j + 1 >= n:
                        return None
                    j += 2
                elif line[j] == '"':
                    break
                else:
                    j += 1
            i = j + 1
        else:
            i += 1
    return None


def impl_cuts(text):
    """(cuts per line | None if the output is not line-wise a prefix, stripped text)"""
    from qmi.core.config import _strip_comments
    out = _strip_comments(text)
    src = re.split(r"[\r\n]", text)
    res = re.split(r"[\r\n]", out)      # which line-break character ends a line is not fixed by C16
    if len(src) != len(res):
        return None, out
    cuts = []
    for a, b in zip(src, res):
        if a == b:
            cuts.append(None)
        elif a.startswith(b):
            cuts.append(len(b))
        else:
            return None, out
    return cuts, out


def ccuts(cuts):
    if cuts is None:
        return "[Some 4999%nat]"
    return clist("None" if c is None else "(Some %s)" % cnat(c) for c in cuts)


def to_obj(v):
    """dict tree -> Obj tree"""
    if isinstance(v, dict):
        return Obj((k, to_obj(x)) for k, x in v.items())
    if isinstance(v, list):
        return [to_obj(x) for x in v]
    return v


def ser(rng, v, style):
    """serialise an Obj tree with random layout; atoms by json.dumps"""
    def ws():
        if style == "compact":
            return ""
        return rng.choice(["", " ", "\n", "\n  ", "  ", "\t", "\n\n"])
    if isinstance(v, Obj):
        return "{" + ws() + ("," + ws()).join(
            json.dumps(k, ensure_ascii=rng.random() < 0.5) + ws() + ":" + ws() + ser(rng, x, style) for k, x in v) + ws() + "}"
    if isinstance(v, list):
        return "[" + ws() + ("," + ws()).join(ser(rng, x, style) for x in v) + ws() + "]"
    return json.dumps(v, ensure_ascii=rng.random() < 0.5)


COMMENT_CHARS = ['#', '"', '\\', 'x', ' ', '{', '}', ':', 'é', "'", '\t', ',', '\U0001f600']


def decorate(rng, text):
    """append comments to lines, add comment-only and blank lines, choose line ends"""
    lines = text.split("\n")
    out = []
    p = rng.choice([0.0, 0.2, 0.5, 1.0])
    for ln in lines:
        if rng.random() < 0.15:
            out.append(rng.choice(["", "  ", "#", "  # " + "".join(rng.choice(COMMENT_CHARS) for _ in range(rng.randrange(8)))]))
        if rng.random() < p:
            ln = ln + rng.choice(["", " ", "  "]) + "#" + "".join(rng.choice(COMMENT_CHARS) for _ in range(rng.randrange(10)))
        out.append(ln)
    eol = rng.choice(["\n", "\n", "\r\n", "\r"])
    return eol.join(out) + rng.choice(["", eol])


def add_dup(rng, tree):
    """insert a repeated key into some object of an Obj tree; False if there is no non-empty object"""
    objs = []

    def walk(v):
        if isinstance(v, Obj):
            if v:
                objs.append(v)
            for _, x in v:
                walk(x)
        elif isinstance(v, list):
            for x in v:
                walk(x)
    walk(tree)
    if not objs:
        return False
    o = rng.choice(objs)
    k, x = rng.choice(o)
    o.insert(rng.randrange(len(o) + 1), (k, rng.choice([x, 0, None, "dup"])))
    return True


def impl_load(text):
    from qmi.core.config import load_config_string
    from qmi.core.exceptions import QMI_ConfigurationException
    try:
        r = load_config_string(text)
        return ("ok", r)
    except QMI_ConfigurationException as e:
        return ("config", str(e))
    except ValueError as e:
        return ("valueerror", type(e).__name__ + ": " + str(e))
    except Exception as e:  # noqa
        return ("other", type(e).__name__ + ": " + str(e))


def raw_parse(stripped):
    try:
        return json.loads(stripped, object_pairs_hook=lambda pairs: Obj(pairs))
    except ValueError:
        return "nojson"
    except RecursionError:
        return "nojson"


def load_case_term(text, cuts, stripped, obs):
    raw = raw_parse(stripped)
    rawt = "None" if isinstance(raw, str) and raw == "nojson" else "(Some %s)" % cj(raw)
    if obs[0] == "ok":
        try:
            o = "(LoOk %s)" % cj(obs[1])
        except TypeError:
            o = "LoOther"
    else:
        o = {"config": "LoRejected", "valueerror": "LoRejected", "other": "LoOther"}[obs[0]]
    return "(CLoad %s %s %s %s)" % (cstr(text), ccuts(cuts), rawt, o)


def _plain(v):
    if isinstance(v, Obj):
        return {k: _plain(x) for k, x in v}
    if isinstance(v, dict):
        return {k: _plain(x) for k, x in v.items()}
    if isinstance(v, (list, tuple)):
        return [_plain(x) for x in v]
    return v


def tree_eq(result, tree):
    """load result equals the generated tree as Python compares data (scalar types included,
    key order of mappings not)"""
    try:
        cj(result)
    except TypeError:
        return False
    return jeq(_plain(result), _plain(tree))


# =========================================================================================
# The run
# =========================================================================================
def _same_outcome(t1, t2, data):
    a, b = impl_parse(t1, data), impl_parse(t2, data)
    if a[0] != b[0]:
        return "%s vs %s" % (a[0], b[0])
    if a[0] == "ok" and (a[1] != b[1] or not jeq(a[2], b[2])):
        return "different results"
    if a[0] == "cfgerr":
        na = named_paths(a[1], data_paths(t2, data), render_path)
        nb = named_paths(b[1], data_paths(t2, data), render_path)
        if sorted(map(json.dumps, na)) != sorted(map(json.dumps, nb)):
            return "different items named"
    return None


def differs_from_equivalent(rng, t):
    """an alternative spelling that is handled must be handled EXACTLY as its typing equivalent:
    same result object / same data back / same refusal with the same item named, on matching and mutated data"""
    t_eq = replace_alt(t)
    for j in range(4):
        data = gen_data(rng, t_eq)
        if j >= 2:
            data, _ = mutate(rng, t_eq, data)
        d = _same_outcome(t, t_eq, data)
        if d:
            return "alternative annotation spelling is accepted but not handled as its typing equivalent (%s on %r)" % (d, data)
    return None


def accepted_unsupported(rng, t):
    """the class check passed a class that has annotations outside the pinned grammar: allowed only if each
    of them has a typing equivalent and the class behaves exactly like the class written with the equivalents"""
    nodes = []
    sub_nodes(t, [], nodes)
    t_eq = copy.deepcopy(t)
    nodes = []
    sub_nodes(t_eq, [], nodes)
    for route, parent, idx in nodes:
        u = parent[idx]
        if u[0] == "alt":
            parent[idx] = copy.deepcopy(alt_equiv(u))
        elif u[0] == "rawtupleb":
            parent[idx] = ["rawtuple"]
        elif u[0] in ("other", "union", "dictk"):
            return "class with an unsupported annotation at %r passes the check" % render_cpath(route)
    if contains_unsupported(t_eq):
        return "class with an unsupported annotation passes the check"
    for j in range(4):
        data = gen_data(rng, t_eq)
        if j >= 2:
            data, _ = mutate(rng, t_eq, data)
        d = _same_outcome(t, t_eq, data)
        if d:
            return "annotation outside the grammar is accepted but not handled as its typing equivalent (%s on %r)" % (d, data)
    return None


LINESEPS = ["\u2028", "\u2029", "\x85", "\x0b", "\x0c", "\x1c", "\x1d", "\x1e"]


def file_roundtrip(ck, rng, n):
    """dump_config_file / load_config_file through a scratch file (oracle only): what is read back
    is what was written; a second dump to the same file replaces the first completely; a refused
    dump (non-mapping) leaves the existing file untouched; a file with comments loads to its data."""
    import os
    from qmi.core.config import dump_config_file, load_config_file, dump_config_string
    from qmi.core.exceptions import QMI_ConfigurationException
    d = ck.scratch_dir()
    fn = os.path.join(d, "cfg.conf")

    def fail(key, what, case):
        ck.report("file:" + key, what, dict(case, kind="file"))

    for i in range(n):
        big = gen_plain(rng, 3, special_floats=True, p_scalar=0.3, width=5)
        if not isinstance(big, dict):
            big = {"a": big, "b": [gen_string(rng)] * 3}
        small = {gen_string(rng): gen_plain(rng, 1)}
        ck.count("file:roundtrip")
        ck.note_case(("file", repr(big), repr(small)), True)
        case = {"first": big, "second": small}
        try:
            if os.path.exists(fn) and i % 3 == 0:
                os.unlink(fn)
            dump_config_file(big, fn)
            with open(fn) as f:
                on_disk = f.read()
            if not tree_eq(load_config_file(fn), to_obj(big)):
                fail("roundtrip", "load_config_file(dump_config_file(d)) is not d", case)
            dump_config_file(small, fn)                       # overwrite with a shorter document
            if not tree_eq(load_config_file(fn), to_obj(small)):
                fail("overwrite", "a second dump_config_file to the same file does not replace the first", case)
            # a hand-written file with comments
            text = decorate(rng, dump_config_string(big))
            try:
                with open(fn, "w") as f:
                    f.write(text)
            except UnicodeEncodeError:
                continue
            with open(fn, newline="") as f:
                if f.read() != text:
                    continue                                    # not representable byte-exact here
            ck.count("file:with-comments")
            if not tree_eq(load_config_file(fn), to_obj(big)):
                fail("comments", "load_config_file of a file with comments does not return its data", dict(case, text=text))
        except Exception as e:  # noqa
            fail("exception", "file round trip raised %s: %s" % (type(e).__name__, str(e)[:80]), case)
    try:
        os.unlink(fn)
    except OSError:
        pass


def shipped_types():
    from qmi.core import config_defs
    out = []
    for name in ("CfgQmi", "CfgContext", "CfgLogging", "CfgProcessManagement", "CfgProcessHost"):
        out.append(type_of_annotation(getattr(config_defs, name)))
    t = adwin_type()
    if t is not None:
        out.append(t)
    return out


def adwin_type():
    """CfgAdwinProgram (qmi/utils/adwin_manager.py): required fields, Dict[str, Tuple[int, int]]"""
    try:
        from qmi.utils import adwin_manager
    except Exception:  # noqa  (optional dependencies of that module)
        return None
    return type_of_annotation(adwin_manager.CfgAdwinProgram)


def shipped_type(name):
    for t in shipped_types():
        if t[1] == name:
            return t
    raise KeyError(name)


# =========================================================================================
# Entry points: the routes through which QMI itself feeds external data into the typed parser.
#   qmi.start(name, config_file=None, context_cfg={key: data})   -> data against CfgContext
#   qmi.start(name, config_file=path)                            -> load_config_file + CfgQmi
#   AdwinProgramLibrary(program_dir, config_dir)                  -> load_config_file + CfgAdwinProgram
# (context.py builds CfgQmi() without data; there is no other caller in qmi/core, qmi/tools, qmi/utils.)
# Each route must behave as config_struct_from_dict on the same data: same oracle, same Coq comparison.
# Building a @configstruct object directly with keyword arguments (CfgContext(**d)) is ordinary Python: its
# generated __init__ validates values without an item path and reports unknown / missing keywords as TypeError;
# C16's clauses are about the typed parse, so an entry point that stops using it is what violates C16.
# =========================================================================================
ROUTE_NAME = "c16_route_probe"


def _quiet_stop():
    import qmi
    from qmi.core.exceptions import QMI_NoActiveContextException
    try:
        qmi.stop()
    except QMI_NoActiveContextException:
        pass


def route_start_context_cfg(context_cfg, key):
    """qmi.start(..., context_cfg=...) -> observation in the format of impl_parse for context `key`"""
    import qmi
    import qmi.core.context_singleton as cs
    from qmi.core.config_struct import config_struct_to_dict
    from qmi.core.exceptions import QMI_ConfigurationException
    saved = cs.QMI_CONFIG
    cs.QMI_CONFIG = None
    try:
        try:
            qmi.start(ROUTE_NAME, config_file=None, init_logging=False, context_cfg=copy.deepcopy(context_cfg))
        except QMI_ConfigurationException as e:
            return ("cfgerr", str(e))
        except Exception as e:  # noqa
            return ("exc", type(e).__name__, str(e))
        try:
            r = qmi.get_configured_contexts()[key]
            return ("ok", canon(r), config_struct_to_dict(r), r)
        except Exception as e:  # noqa
            return ("exc", "after-start:" + type(e).__name__, str(e))
    finally:
        cs.QMI_CONFIG = saved
        _quiet_stop()


def route_start_config_file(path):
    """qmi.start(name, config_file=path) -> ("ok", canon, back, cfg) | ("cfgerr", msg) | ("rejected", cls) | ("exc", ..)"""
    import qmi
    from qmi.core.config_struct import config_struct_to_dict
    from qmi.core.exceptions import QMI_ConfigurationException
    try:
        try:
            qmi.start(ROUTE_NAME, config_file=path, init_logging=False)
        except QMI_ConfigurationException as e:
            return ("cfgerr", str(e))
        except ValueError as e:
            return ("rejected", type(e).__name__, str(e))
        except Exception as e:  # noqa
            return ("exc", type(e).__name__, str(e))
        try:
            r = qmi.context().get_config()
            return ("ok", canon(r), config_struct_to_dict(r), r)
        except Exception as e:  # noqa
            return ("exc", "after-start:" + type(e).__name__, str(e))
    finally:
        _quiet_stop()


def chain_messages(e):
    out = []
    while e is not None and len(out) < 6:
        out.append(str(e))
        e = e.__cause__ or e.__context__
    return " | ".join(out)


def entry_routes(ck, rng, quick, add, fails):
    import os
    t_ctx, t_qmi = shipped_type("CfgContext"), shipped_type("CfgQmi")

    def judge(route, t, data, obs, expect, is_match, replay_obj):
        """same oracle and same Coq comparison as for config_struct_from_dict(data, cls)"""
        ck.count("route:%s" % route)
        ck.count("route:%s-outcome-%s" % (route, obs[0]))
        ck.note_case((route, data), True)
        bad = oracle_parse(t, data, obs, expect, is_match)
        for key, what in bad:
            k2 = "%s:%s" % (route, key)
            size = len(json.dumps(replay_obj, default=repr))
            if k2 not in fails or size < fails[k2][0]:
                fails[k2] = (size, "C16 fails on the implementation, entry point %s: %s" % (route, what),
                             dict(replay_obj, impl=[str(x)[:200] for x in obs[:3]]))
        term, _ = parse_case_term(t, data, obs)
        add(term, dict(replay_obj, flagged=bool(bad)))

    # ---- qmi.start(context_cfg=...) ------------------------------------------------------------
    for i in range(90 if quick else 1500):
        matching = gen_data(rng, t_ctx)
        j = i % 6
        if j < 2:
            data, expect, is_match = matching, None, True
        elif j == 5:
            data, expect, is_match = gen_plain(rng, 2), None, False
            if not isinstance(data, dict):
                data = {"host": data}
        else:
            data, expect = mutate(rng, t_ctx, matching)
            is_match = False
        key = rng.choice(["ctxA", "main", "c1", gen_string(rng, nasty=False)])
        cfg = {key: data}
        if rng.random() < 0.3:                       # a second, valid definition before or after
            other = "zz_" + key
            cfg = {other: gen_data(rng, t_ctx), key: data} if rng.random() < 0.5 else {key: data, other: gen_data(rng, t_ctx)}
        obs = route_start_context_cfg(cfg, key)
        judge("start-context_cfg", t_ctx, data, obs, expect, is_match,
              {"kind": "route-start-context_cfg", "context_cfg": cfg, "key": key})

    # ---- qmi.start(config_file=path) -----------------------------------------------------------
    d = ck.scratch_dir()
    fn = os.path.join(d, "qmi route.conf")
    from qmi.core.config import dump_config_string
    for i in range(36 if quick else 600):
        matching = gen_data(rng, t_qmi)
        j = i % 6
        if j < 2:
            data, expect, is_match = matching, None, True
        else:
            data, expect = mutate(rng, t_qmi, matching)
            is_match = False
        data.pop("config_file", None)                # start() overwrites it with the absolute file name
        if expect and expect[1] and expect[1][0] == ("f", "config_file"):
            expect = None
        contexts = data.get("contexts")
        if isinstance(contexts, dict):
            contexts.pop(ROUTE_NAME, None)
        doc_fault = None
        otree = to_obj(data)
        if j == 5 and add_dup(rng, otree):
            doc_fault = "dup"
        text = decorate(rng, ser(rng, otree, rng.choice(["compact", "loose"])) if (doc_fault or rng.random() < 0.5)
                        else dump_config_string(data))
        try:
            with open(fn, "w", newline="") as f:
                f.write(text)
            with open(fn, newline="") as f:
                if f.read() != text:
                    continue
        except UnicodeEncodeError:
            continue
        obs = route_start_config_file(fn)
        replay_obj = {"kind": "route-start-config_file", "text": text, "data": data}
        if doc_fault == "dup":
            ck.count("route:start-config_file-dup")
            ck.note_case(("start-config_file", text), True)
            if obs[0] not in ("rejected", "cfgerr"):
                k2 = "start-config_file:repeated-key-not-rejected"
                fails.setdefault(k2, (0, "entry point qmi.start(config_file=...): a configuration file with a repeated key "
                                         "was not rejected (%s)" % obs[0], replay_obj))
            continue
        full = dict(data, config_file=os.path.abspath(fn))
        if obs[0] == "rejected":
            obs = ("exc", obs[1], obs[2])
        judge("start-config_file", t_qmi, full, obs, expect, is_match, replay_obj)
    try:
        os.unlink(fn)
    except OSError:
        pass

    # ---- AdwinProgramLibrary(program_dir, config_dir) -------------------------------------------
    t_adw = adwin_type()
    if t_adw is None:
        ck.count("route:adwin-library-unavailable")
        return
    from qmi.utils.adwin_manager import AdwinProgramLibrary
    from qmi.core.exceptions import QMI_ConfigurationException
    cdir = os.path.join(d, "adwin_conf")
    os.makedirs(cdir, exist_ok=True)
    for i in range(30 if quick else 400):
        matching = gen_data(rng, t_adw)
        matching.update({"slot": rng.randint(1, 10), "trigger": rng.choice(["timer", "external", "Timer"]),
                         "priority": rng.choice([-10, 0, 3, 10, 1000]), "parse_parameters": False})
        if i % 3 == 0:
            data, expect, is_match = matching, None, True
        else:
            data, expect = mutate(rng, t_adw, matching)
            is_match = False
        for old in os.listdir(cdir):
            os.unlink(os.path.join(cdir, old))
        text = decorate(rng, dump_config_string(data))
        try:
            with open(os.path.join(cdir, "prog.conf"), "w", newline="") as f:
                f.write(text)
        except UnicodeEncodeError:
            continue
        direct = impl_parse(t_adw, data)
        try:
            lib = AdwinProgramLibrary(d, cdir)
            got = ("ok", lib.list_programs())
        except QMI_ConfigurationException as e:
            got = ("cfgerr", chain_messages(e))
        except Exception as e:  # noqa
            got = ("exc", type(e).__name__, str(e))
        ck.count("route:adwin-library")
        ck.count("route:adwin-library-outcome-" + got[0])
        ck.note_case(("adwin-library", data), True)
        why = None
        if got[0] == "exc":
            why = "raised %s (%s) instead of QMI_ConfigurationException" % (got[1], got[2][:80])
        elif is_match and got != ("ok", ["prog"]):
            why = "refused a valid program configuration: %s" % (got[1][:100],)
        elif direct[0] == "cfgerr" and got[0] == "ok":
            why = "accepted data that config_struct_from_dict refuses (%s)" % direct[1][:80]
        elif direct[0] == "cfgerr" and expect and render_path(expect[1]) and not named_in(got[1], render_path(expect[1])):
            why = "the error (with its causes) does not name the offending item %r: %s" % (render_path(expect[1]), got[1][:120])
        if why:
            k2 = "adwin-library:" + why.split("(")[0].split(":")[0].strip()[:50]
            replay_obj = {"kind": "route-adwin-library", "text": text, "data": data}
            if k2 not in fails or len(text) < fails[k2][0]:
                fails[k2] = (len(text), "entry point AdwinProgramLibrary(config_dir): " + why, replay_obj)


def run(ck):
    ck.theory_dir = THEORY
    ck.build_theory(THEORY)
    ck.trusted = [
        "Coq 8.16.1 kernel (vm_compute evaluates the model on the cases)",
        "hand-written model theories/C16/Model.v of config.py and config_struct.py, tied to /repo by this run",
        "python's json module (parse, number/literal text, round trip) and float(int): assumed, named as section "
        "variables, observed on every case",
        "python's re engine on the one comment pattern: replaced by a hand-written scanner compared on every case",
        "harness c16.py: class construction from type terms, canonicalisation of result objects by runtime type, "
        "search of the error message for the item paths of the data (delimited tokens), probes that observe the "
        "implementation's open choices (alternative annotation spellings) and hand them to the model",
    ]
    ck.assumptions = [
        "data given to config_struct_from_dict is JSON data (what load_config_string returns): no tuples, "
        "no dataclass instances, string keys",
        "field types: the documented ones incl. bare List/Dict/Tuple are the accepted grammar (cty); every other "
        "annotation is modelled as refused by the class check (AOther = unrecognised by both functions); "
        "`X | Y` is only generated as a direct field annotation (inside typing generics its meaning depends on "
        "typing's alias cache), one member order per Union member set per run for the same reason",
        "json.loads/json.dumps round trip, json's blindness to CR versus LF, and float(int) are library behaviour "
        "(explicit premises in Coq)",
        "entry points: qmi.start(context_cfg=...), qmi.start(config_file=...) and AdwinProgramLibrary(config_dir) are driven "
        "in-process (context started and stopped each time) and must behave as config_struct_from_dict on the same data; "
        "direct keyword construction of a @configstruct object (generated __init__: values validated without item path, "
        "unknown / missing keywords -> TypeError) is ordinary Python and no C16 claim is made about it",
        "open choices of the model, each with the pinned behaviour as one element and a theorem that every element "
        "satisfies C16's clauses: line-break rendering of the comment-free text (C16_strip_choice), layout of the "
        "dumped text (C16_dump_load_any_printer), treatment of alternative annotation spellings (policy parameter of "
        "all class-check theorems)",
    ]
    rng = ck.rng
    quick = ck.tier == "quick"
    terms, metas = [], []
    t_impl = time.time()
    probe_families()
    ck.coverage["open_choices_observed"] = {
        "alternative_annotation_spellings_handled (0 = X | Y, 1 = list[X] / dict[..] / tuple[..])": sorted(FAMS_ON)}

    def add(term, meta):
        terms.append(term)
        metas.append(meta)

    # ---------------- junk lines through _strip_comments ----------------------------------
    alpha = ['"', '#', '\\', 'a']
    words = [""]
    for n in range(1, 6 if quick else 9):
        words += ["".join(w) for w in itertools.product(alpha, repeat=n)]
    chunk = 120
    texts = ["\n".join(words[i:i + chunk]) for i in range(0, len(words), chunk)]
    for _ in range(300 if quick else 4000):
        n = rng.randrange(1, 8)
        texts.append("".join(rng.choice(['"', '#', '\\', 'a', ' ', '\n', '\r', 'é', '"', '#', "'", '\x0b', '\x85', '\u2028'])
                             for _ in range(rng.randrange(0, 40))) if rng.random() < 0.7 else
                     rng.choice(["\r\n", "\n", "\r"]).join(gen_string(rng) + rng.choice(["", "#", '"#"', '"\\"#"#x', '\\"#']) for _ in range(n)))
    # explicit bucket: characters that str.splitlines() treats as line ends but the configuration
    # language does not (only CR and LF end a line / a comment)
    for sep in LINESEPS:
        for tmpl in ('{"a": 1} # c%sd "x', '"a%s#b" # c', '# c%s{"a": 1}', 'a%s"b#%s" #x%sy', '"%s', '\\"%s#"'):
            texts.append(tmpl.replace("%s", sep))
            ck.count("linesep:junk-line")
            ck.count("linesep:U+%04X" % ord(sep))
    for text in texts:
        cuts, out = impl_cuts(text)
        ck.count("strip:lines", len(re.split(r"[\r\n]", text)))
        ck.note_case(("strip", text), "#" in text and '"' in text)
        ref = [ref_cut(l) for l in re.split(r"[\r\n]", text)]
        flagged = False
        # C16 is about the loaded VALUE; the comment-free intermediate text of junk (non-JSON) input is only
        # compared with the model (a difference is a broken tie, reported without claiming a failing input;
        # the value-level probes below turn a wrong cut into a concrete failing document)
        if cuts is None or cuts != ref:
            flagged = True
            i = next((i for i, (a, b) in enumerate(itertools.zip_longest(cuts or [], ref)) if a != b), 0)
            line = re.split(r"[\r\n]", text)[min(i, len(ref) - 1)]
            ck.report("corr:strip-cut-differs", "the comment-free text computed for %r is not the input cut, per line, at "
                      "the first '#' outside a string (line %r: expected cut %r)" % (text[:60], line[:60], ref[min(i, len(ref) - 1)]),
                      {"kind": "strip", "text": text, "broken": "comment scanner vs _strip_comments on non-JSON input"},
                      found_input=False)
        add("(CStrip %s %s)" % (cstr(text), ccuts(cuts)), {"kind": "strip", "text": text, "flagged": flagged})

    # ---------------- value-level probes of the scanner: every short string content ---------------
    # exhaustive over '#', escaped quote, escaped backslash and a letter; each string is followed on its line
    # by a comment containing quotes / backslashes: the loaded value must be exactly the strings
    toks = ['#', '\\"', '\\\\', 'a']
    lits = [""]
    for n in range(1, 5 if quick else 7):
        lits += ["".join(w) for w in itertools.product(toks, repeat=n)]
    comments = ['', ' # c', ' # "', ' #"#"', ' # \\', ' # \\" \'', '#{"k0": 1}', ' # "x": "y",']
    per = 16
    for i in range(0, len(lits), per):
        group = lits[i:i + per]
        eol = ["\n", "\r\n", "\r"][(i // per) % 3]
        lines_ = ["{"]
        want = {}
        for j, w in enumerate(group):
            lit = '"' + w + '"'
            want["k%d" % j] = json.loads(lit)
            lines_.append('"k%d": %s,%s' % (j, lit, comments[(i + j) % len(comments)]))
        lines_.append('"end": 0 # }')
        lines_.append("}")
        want["end"] = 0
        text = eol.join(lines_)
        cuts, stripped = impl_cuts(text)
        obs = impl_load(text)
        ck.count("doc:exhaustive-string-contents", len(group))
        ck.note_case(("load", text), True)
        why = None
        if not (obs[0] == "ok" and tree_eq(obs[1], want)):
            got = obs[1] if obs[0] == "ok" else obs[0]
            bad_keys = [k for k in want if not (obs[0] == "ok" and isinstance(got, dict) and k in got and jeq(got[k], want[k]))]
            why = "string contents / comments not respected: %s" % (
                "rejected (%s)" % obs[0] if obs[0] != "ok" else "key %s loads as %r, written %r" % (
                    bad_keys[0], got.get(bad_keys[0]) if isinstance(got, dict) else got, want[bad_keys[0]]))
        if why:
            ck.report("load:string-contents-or-comment-altered", why,
                      {"kind": "load", "text": text, "expect": "ok", "tree": want})
        add(load_case_term(text, cuts, stripped, obs), {"kind": "load", "text": text, "flagged": bool(why)})

    # ---------------- documents through load / dump ----------------------------------------
    ndoc = 600 if quick else 8000
    for _ in range(ndoc):
        r = rng.random()
        tree = gen_plain(rng, 3, special_floats=True, p_scalar=rng.choice([0.55, 0.4, 0.3]), width=rng.choice([3, 4, 5]))
        if r < 0.85 and not isinstance(tree, dict):
            tree = {gen_string(rng): tree}
        otree = to_obj(tree)
        expect = "ok" if isinstance(tree, dict) else "notdict"
        from qmi.core.config import dump_config_string, _strip_comments
        if isinstance(tree, dict) and rng.random() < 0.5:
            base = dump_config_string(tree)
            style = "dump"
            # dump: printed text, strip leaves it alone, load returns the data
            ck.count("doc:dump")
            ck.note_case(("dump", base), True)
            why = None
            lo = impl_load(base)
            if lo[0] != "ok" or not tree_eq(lo[1], otree):
                why = "load_config_string(dump_config_string(d)) is not d (%s)" % (lo[0],)
            if why:
                ck.report("dump-load", why, {"kind": "dump", "tree": tree})
            raw = raw_parse(base)
            add("(CDump %s %s %s)" % (cj(otree), cstr(base), "None" if isinstance(raw, str) else "(Some %s)" % cj(raw)),
                {"kind": "dump", "tree": tree, "flagged": bool(why)})
            # layout of the dumped text = open choice; agreement with the pinned printer is only recorded
            add("(CDumpPinned %s %s)" % (cj(otree), cstr(base)), {"kind": "dumppinned", "tree": tree, "flagged": True})
        else:
            if not isinstance(tree, dict):
                from qmi.core.exceptions import QMI_ConfigurationException
                ck.count("doc:dump-nonmapping")
                ck.note_case(("dump-nonmapping", repr(tree)), False)
                # a non-mapping cannot be loaded back (load demands a mapping): dump either refuses it, or
                # C16's "loading what dump produced returns the original data" must hold for it
                got = None
                try:
                    dumped = dump_config_string(tree)
                    lo = impl_load(dumped)
                    if not (lo[0] == "ok" and tree_eq(lo[1], otree)):
                        got = "dump_config_string accepted a non-mapping that does not load back (%s)" % lo[0]
                    refused = False
                except Exception as e:  # noqa
                    refused = True
                if got:
                    ck.report("dump:non-mapping-dumped-but-not-loadable", got, {"kind": "dump", "tree": tree})
                add("(CDumpRefused %s %s)" % (cj(otree), cbool(refused)),
                    {"kind": "dump", "tree": tree, "flagged": bool(got)})
            style = rng.choice(["compact", "loose"])
            if isinstance(tree, dict) and rng.random() < 0.25 and add_dup(rng, otree):
                expect = "dup"
            base = ser(rng, otree, style)
        text = decorate(rng, base)
        if expect == "ok" and rng.random() < 0.12:      # damage the text somewhere
            expect = "unknown"
            i = rng.randrange(len(text) + 1)
            text = text[:i] + rng.choice(['"', "", "\\", "#", "}", ","]) + text[i + rng.choice([0, 1]):]
        cuts, stripped = impl_cuts(text)
        obs = impl_load(text)
        ck.count("doc:expect-" + expect)
        ck.count("doc:style-" + style)
        ck.count("doc:len-%s" % ("0-99" if len(text) < 100 else "100-399" if len(text) < 400 else "400+"))
        ck.note_case(("load", text), ("#" in text and '"' in text) or expect != "ok")
        why = None
        rejected = obs[0] in ("valueerror", "config")      # how a document is rejected is not fixed by C16
        if expect == "ok" and not (obs[0] == "ok" and tree_eq(obs[1], otree)):
            why = "document with comments does not load to its data (%s)" % (obs[0] if obs[0] != "ok" else "different data")
        elif expect == "dup" and not rejected:
            why = "document with a repeated key was not rejected (%s)" % obs[0]
        elif expect == "notdict" and not rejected:
            why = "non-mapping top level was not rejected with ValueError / QMI_ConfigurationException (%s)" % obs[0]
        if why:
            ck.report("load:" + why.split("(")[0].strip()[:50], why,
                      {"kind": "load", "text": text, "expect": expect, "tree": tree if expect == "ok" else None})
        add(load_case_term(text, cuts, stripped, obs), {"kind": "load", "text": text, "flagged": bool(why)})
    # explicit bucket: Unicode / control line separators inside comments and inside strings
    from qmi.core.config import dump_config_string
    for rep_i in range(3 if quick else 30):
        for sep in LINESEPS:
            # (a) inside a comment: everything up to the real line end is comment, '"' and '#' included
            tree = {"k" + gen_string(rng, nasty=False): gen_plain(rng, 2), "z": [1, "#x"]}
            lines_ = dump_config_string(tree).split("\n")
            i = rng.randrange(len(lines_))
            lines_[i] += " # note" + sep + rng.choice(['"open', "}", "# more", '{"a": 1}', sep + '"'])
            text = rng.choice(["\n", "\r\n", "\r"]).join(lines_)
            docs_extra = [("linesep:in-comment", text, tree, "ok")]
            # (b) inside a string, followed by '#' in the same string: data, kept
            raw_ok = ord(sep) >= 0x20
            tree2 = {"s": "a" + sep + "#b", "k" + sep: [sep + "#", 1]}
            text2 = json.dumps(tree2, ensure_ascii=False, indent=rng.choice([None, 2])) + "  # tail" + sep + "#"
            text2 = text2.replace("\\u%04x" % ord(sep), sep)      # json.dumps escapes control characters: put them raw
            if sep == "\x0c":
                text2 = text2.replace("\\f", sep)
            docs_extra.append(("linesep:in-string", text2, tree2, "ok" if raw_ok else "valueerror"))
            for bucket, text, tree, expect in docs_extra:
                ck.count(bucket)
                ck.count("linesep:U+%04X" % ord(sep))
                cuts, stripped = impl_cuts(text)
                obs = impl_load(text)
                ck.note_case(("load", text), True)
                why = None
                if expect == "ok" and not (obs[0] == "ok" and tree_eq(obs[1], to_obj(tree))):
                    why = "document with U+%04X %s does not load to its data (%s)" % (
                        ord(sep), "in a comment" if bucket.endswith("comment") else "in a string", obs[0])
                if why:
                    ck.report("load:linesep " + why.split("(")[0].strip()[14:60], why,
                              {"kind": "load", "text": text, "expect": expect if expect == "ok" else None,
                               "tree": tree if expect == "ok" else None})
                add(load_case_term(text, cuts, stripped, obs), {"kind": "load", "text": text, "flagged": bool(why)})
    ck.sample({"kind": "load", "text": metas[-1]["text"]})

    # ---------------- files: dump_config_file / load_config_file (oracle only) ------------------
    file_roundtrip(ck, rng, 25 if quick else 300)

    # ---------------- typed structures -----------------------------------------------------
    tg = TypeGen(rng)
    types = shipped_types() * (2 if quick else 12)
    for _ in range(200 if quick else 3000):
        types.append(tg.struct(3))
    ambiguous = 0
    fails = {}
    for t in types:
        try:
            struct_class(t)
        except Exception as e:  # noqa
            raise RuntimeError("harness could not build class for %r: %r" % (t, e))
        ck.count("type:" + ("shipped" if len(t) > 3 else "generated"))
        for j in range(8 if len(t) == 3 else 20):
            matching = gen_data(rng, t)
            if j % 8 < 3:
                data, expect, is_match = matching, None, True
            elif j % 8 == 7:
                data, expect, is_match = gen_plain(rng, 2), None, False
                if not isinstance(data, dict):
                    data = {"a": data}
            else:
                data, expect = mutate(rng, t, matching)
                is_match = False
            obs = impl_parse(t, data)
            ck.count("parse:" + ("matching" if is_match else "expect-" + expect[0] if expect else "mutated-other"))
            ck.count("parse:outcome-" + obs[0])
            ck.note_case(("parse", t, data), bool(t[2]) and bool(data))
            bad = oracle_parse(t, data, obs, expect, is_match)
            meta = {"kind": "parse", "type": t, "data": data, "flagged": bool(bad)}
            for key, what in bad:
                size = len(json.dumps([t, data]))
                if key not in fails or size < fails[key][0]:
                    fails[key] = (size, "C16 fails on the implementation: " + what,
                                  dict({k: v for k, v in meta.items() if k != "flagged"}, impl=[str(x)[:200] for x in obs[:3]]))
            term, amb = parse_case_term(t, data, obs)
            if amb:
                ambiguous += 1
                continue
            add(term, meta)
    # ---------------- entry points of QMI that feed external data into the typed parser ----------
    entry_routes(ck, rng, quick, add, fails)

    for key in sorted(fails):            # the smallest failing case of each kind is the replay
        ck.report(key, fails[key][1], fails[key][2])

    # ---------------- class check on generated class definitions ----------------------------------
    from qmi.core.config_struct import config_struct_from_dict
    from qmi.core.exceptions import QMI_ConfigurationException
    atypes = []
    for _ in range(110 if quick else 2500):
        base = tg.struct(3)
        n = rng.choice([0, 1, 1, 1, 2])
        t, injected = inject_unsupported(rng, tg, base, n)
        atypes.append((t, injected))
    for t in shipped_types():
        atypes.append((t, []))
    for t, injected in atypes:
        try:
            cls = struct_class(t)
        except Exception as e:  # noqa
            raise RuntimeError("harness could not build class for %r: %r" % (t, e))
        obs = impl_check(t)
        ck.count("check:unsupported-%d" % len(injected))
        for _, kind in injected:
            ck.count("check:inject-" + kind)
        ck.count("check:outcome-" + obs[0])
        ck.note_case(("check", t), bool(injected))
        why = None
        supported = not contains_unsupported(t)
        if obs[0] == "exc":
            why = "_check_config_struct_type raised %s (%s)" % (obs[1], obs[2][:60])
        elif supported and obs[0] != "ok":
            why = "class with supported field types only is refused: " + obs[1][:100]
        elif not supported and obs[0] == "ok":
            why = accepted_unsupported(rng, t)          # None if handled exactly as the typing equivalent
        if why is None:     # config_struct_from_dict: refuses such a class whatever the data; accepts matching data otherwise
            got = impl_parse(t, gen_data(rng, t))
            if not supported and obs[0] != "ok" and got[0] != "cfgerr":
                why = "config_struct_from_dict does not refuse the class that the check refuses (%s)" % got[0]
            elif supported and got[0] != "ok":
                why = "config_struct_from_dict refuses matching data for a supported class: %s" % (got[1][:80],)
        if why is None and supported and contains_alt(t):
            ck.count("check:alt-spelling-handled")
            why = differs_from_equivalent(rng, t)
        if why:
            ck.report("check:" + re.sub(r"%r|'[^']*'", "", why.split(":")[0])[:50].strip(), why, {"kind": "check", "type": t})
        add(check_case_term(t, obs), {"kind": "check", "type": t, "flagged": bool(why)})
        # the parser on the same annotations WITHOUT the check (what the generated constructor does)
        subjects = [t] + [f[1] for f in t[2][:2]]
        for st in subjects:
            for j in range(2):
                data = gen_data(rng, st)
                if j == 1 and rng.random() < 0.6:
                    pos = []
                    positions(st, data, [], pos)
                    if pos:
                        _, _, cont, key = rng.choice(pos)
                        cont[key] = rng.choice(WRONG)
                    else:
                        data = rng.choice(WRONG)
                pobs = impl_parse_value(st, data)
                ck.count("parseann:" + ("supported" if not contains_unsupported(st) else "unsupported"))
                ck.count("parseann:outcome-" + pobs[0])
                ck.note_case(("parseann", st, data), contains_unsupported(st))
                term, amb = parse_ann_case_term(st, data, pobs)
                if amb:
                    ambiguous += 1
                    continue
                add(term, {"kind": "parseann", "type": st, "data": data, "flagged": False})
    ck.coverage["ambiguous_paths_skipped"] = ambiguous
    ck.coverage["impl_and_oracle_s"] = round(time.time() - t_impl, 1)
    ck.sample({k: v for k, v in metas[-1].items()})
    ck.sample({k: v for k, v in metas[-40].items()})

    t_model = time.time()
    # spread the large cases (shipped structure types, long documents) evenly over the shards
    import random as _random
    perm = list(range(len(terms)))
    _random.Random(1).shuffle(perm)
    bad = sorted(perm[i] for i in ck.run_model("C16.Corr", "check_case", [terms[i] for i in perm], "case", shard=150))
    ck.coverage["model_eval_s"] = round(time.time() - t_model, 1)
    # layout of the dumped text is an open choice of the model (C16_dump_load_any_printer): a difference with the
    # pinned printer json.dumps(indent=4) is recorded, it is neither a disagreement nor a violation
    npinned = sum(1 for m in metas if m["kind"] == "dumppinned")
    ndiff = sum(1 for i in bad if metas[i]["kind"] == "dumppinned")
    ck.coverage["dump_layout"] = {"dumps_compared_with_pinned_printer": npinned, "differing": ndiff,
                                  "note": "a differing layout is allowed; the scanner leaving the dumped text alone and "
                                          "load(dump(d)) = d are checked for the actual text (CDump)"}
    bad = [i for i in bad if metas[i]["kind"] != "dumppinned"]
    ck.coverage["correspondence_disagreements"] = len(bad)
    # cases the oracle flagged are already reported (or listed as known) under their own key
    ck.coverage["disagreements_on_oracle_flagged_cases"] = sum(1 for i in bad if metas[i]["flagged"])
    for i in [i for i in bad if not metas[i]["flagged"]][:6]:
        m = metas[i]
        mo = ck.model_eval("C16.Corr", "model_out %s" % terms[i])
        ck.report("corr:%s-model-differs" % m["kind"],
                  "implementation and Coq model disagree (property oracle passes on this case)",
                  dict({k: v for k, v in m.items() if k != "flagged"}, model=mo[:1500],
                       broken="correspondence C16.Corr.check_case"), found_input=False)
    return ck.finish("junk lines exhaustive over a 4-letter alphabet + random; generated documents with comments "
                     "and faults; generated and shipped structure types x matching / mutated data; non-trivial = "
                     "has '#' and '\"' (strip), comment after data or fault (load), non-empty type and data (parse); "
                     "distinct by content hash")


def _model_side(term):
    import common
    ck = common.Check("C16")
    try:
        return ck.model_eval("C16.Corr", "model_out %s" % term)[:2000]
    finally:
        ck.clean_cases()


def replay(rep):
    c = rep["case"]
    k = c["kind"]
    probe_families()
    if k == "strip":
        cuts, out = impl_cuts(c["text"])
        ref = [ref_cut(l) for l in re.split(r"[\r\n]", c["text"])]
        print("implementation cuts:", cuts, "stripped:", repr(out))
        print("first '#' outside strings:", ref)
        print("model:", _model_side("(CStrip %s %s)" % (cstr(c["text"]), ccuts(cuts))))
        return 0 if cuts == ref else 1
    if k == "load":
        text = c["text"]
        obs = impl_load(text)
        cuts, stripped = impl_cuts(text)
        print("load_config_string ->", obs[0], repr(obs[1])[:300])
        print("model:", _model_side(load_case_term(text, cuts, stripped, obs)))
        exp = c.get("expect")
        if obs[0] == "other":
            return 1
        if exp == "ok":
            return 0 if obs[0] == "ok" and tree_eq(obs[1], to_obj(c["tree"])) else 1
        if exp == "dup":
            return 0 if obs[0] in ("valueerror", "config") else 1
        if exp == "notdict":
            return 0 if obs[0] in ("valueerror", "config") else 1
        return 0
    if k == "dump":
        from qmi.core.config import dump_config_string
        from qmi.core.exceptions import QMI_ConfigurationException
        if not isinstance(c["tree"], dict):
            try:
                text = dump_config_string(c["tree"])
            except Exception as e:  # noqa
                print("dump of a non-mapping refused:", type(e).__name__)
                return 0
            lo = impl_load(text)
            ok = lo[0] == "ok" and tree_eq(lo[1], to_obj(c["tree"]))
            print("dump of a non-mapping returned text; loads back equal:", ok)
            return 0 if ok else 1
        text = dump_config_string(c["tree"])
        lo = impl_load(text)
        print("dump ->", repr(text)[:300])
        print("load(dump) ->", lo[0], repr(lo[1])[:300])
        raw = raw_parse(text)
        print("model:", _model_side("(CDump %s %s %s)" % (cj(to_obj(c["tree"])), cstr(text),
                                                         "None" if isinstance(raw, str) else "(Some %s)" % cj(raw))))
        return 0 if lo[0] == "ok" and tree_eq(lo[1], to_obj(c["tree"])) else 1
    if k.startswith("route-"):
        import common
        import os
        ck = common.Check("C16")
        try:
            if k == "route-start-context_cfg":
                t, data = shipped_type("CfgContext"), c["context_cfg"][c["key"]]
                obs = route_start_context_cfg(c["context_cfg"], c["key"])
                print("qmi.start(%r, config_file=None, context_cfg=%r)" % (ROUTE_NAME, c["context_cfg"]))
            elif k == "route-start-config_file":
                t = shipped_type("CfgQmi")
                fn = os.path.join(ck.scratch_dir(), "qmi route.conf")
                with open(fn, "w", newline="") as f:
                    f.write(c["text"])
                data = dict(c["data"], config_file=os.path.abspath(fn))
                obs = route_start_config_file(fn)
                print("qmi.start(%r, config_file=<file holding %r>)" % (ROUTE_NAME, c["text"][:300]))
                if obs[0] == "rejected":
                    print("->", obs)
                    return 0
            else:
                from qmi.utils.adwin_manager import AdwinProgramLibrary
                cdir = os.path.join(ck.scratch_dir(), "adwin_conf")
                os.makedirs(cdir, exist_ok=True)
                with open(os.path.join(cdir, "prog.conf"), "w", newline="") as f:
                    f.write(c["text"])
                direct = impl_parse(adwin_type(), c["data"])
                try:
                    print("AdwinProgramLibrary ->", AdwinProgramLibrary(ck.scratch_dir(), cdir).list_programs())
                    ok = direct[0] == "ok"
                except Exception as e:  # noqa
                    print("AdwinProgramLibrary raised", type(e).__name__, chain_messages(e)[:300])
                    ok = type(e).__name__ == "QMI_ConfigurationException"
                print("config_struct_from_dict on the same data ->", direct[:2])
                return 0 if ok else 1
            print("->", obs[:3])
            print("config_struct_from_dict on the same data ->", impl_parse(t, data)[:3])
            print("model:", _model_side(parse_case_term(t, data, obs)[0]))
            bad = oracle_parse(t, data, obs, None, False)
            print("oracle:", bad or "accepted with the data back / refused with a configuration error naming an item")
            return 1 if bad else 0
        finally:
            ck.cleanup()
    if k == "check":
        t = c["type"]
        if len(t) > 3:
            shipped_types()
        obs = impl_check(t)
        print("class definition:", t)
        print("_check_config_struct_type ->", obs)
        print("model:", _model_side(check_case_term(t, obs)))
        bad = (obs[0] == "exc") or (contains_unsupported(t) != (obs[0] == "cfgerr"))
        print("oracle:", "refused iff an unsupported annotation is present: %s" % ("violated" if bad else "ok"))
        return 1 if bad else 0
    if k == "parseann":
        t, data = c["type"], c["data"]
        obs = impl_parse_value(t, data)
        print("annotation:", t)
        print("data:", data)
        print("_parse_config_value ->", obs[:3])
        print("model:", _model_side(parse_ann_case_term(t, data, obs)[0]))
        return 0
    if k == "file":
        import common
        ck = common.Check("C16")
        try:
            import random as _r
            n0 = len(ck.violations)
            # re-run the file scenario on the stored trees
            class _One:
                pass
            first, second = c["first"], c["second"]
            import os
            from qmi.core.config import dump_config_file, load_config_file
            fn = os.path.join(ck.scratch_dir(), "cfg.conf")
            ok = True
            try:
                dump_config_file(first, fn)
                r1 = load_config_file(fn)
                dump_config_file(second, fn)
                r2 = load_config_file(fn)
                ok = tree_eq(r1, to_obj(first)) and tree_eq(r2, to_obj(second))
                print("first read back equal:", tree_eq(r1, to_obj(first)), " second (overwrite) read back equal:", tree_eq(r2, to_obj(second)))
                if "text" in c:
                    with open(fn, "w") as f:
                        f.write(c["text"])
                    r3 = load_config_file(fn)
                    print("file with comments read back equal:", tree_eq(r3, to_obj(first)))
                    ok = ok and tree_eq(r3, to_obj(first))
            except Exception as e:  # noqa
                print("raised", type(e).__name__, str(e)[:100])
                ok = False
            return 0 if ok else 1
        finally:
            ck.cleanup()
    if k == "parse":
        t, data = c["type"], c["data"]
        if len(t) > 3:
            shipped_types()
        obs = impl_parse(t, data)
        print("declared type:", t)
        print("data:", data)
        print("config_struct_from_dict ->", obs[:3])
        print("model:", _model_side(parse_case_term(t, data, obs)[0]))
        bad = oracle_parse(t, data, obs, None, False)
        print("oracle:", bad or "no escape / round trip ok on this case")
        return 1 if bad else 0
    return 2
