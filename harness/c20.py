"""C20 — ADwin parameter names bind one-to-one; batch access equals single access.

Correspondence (four case kinds, all evaluated by the Coq model theories/C20/Model.v via Corr.check_case):
  prog   : generated ADbasic sources (main file + include files in a scratch directory) through the real
           parse_adbasic_program + analyze_parameter_info; compared: the binding (both dicts, as maps) or
           (ParseException, file, line); the symbol list modulo repeated inclusion of a file (first occurrences
           kept on both sides; theorem C20_repeated_symbols_ignored); circular include graphs (run under a
           watchdog): "does not terminate" or the result on the acyclic unfolding are both accepted;
  syms   : symbol lists handed to analyze_parameter_info directly (values with blanks, odd labels);
  ranges : AdwinProcess._find_sequential_ranges on integer lists (exhaustive small scope + random);
  dev    : the real AdwinProcess over a simulated ADwin (FakeAdwin: dictionaries + log of calls) driven
           with get_par/set_par/get_par_multiple/set_par_multiple; compared: every result / exception
           class (batch reads as maps name -> value), per accessor call the SET of registers read and the SET
           written on the ADwin interface, final register contents; the effects of a FAILING batch call are
           not compared (not fixed by the property).
Independent property oracles on the implementation's observations (no model involved):
  oracle_binding (against the #Define lines the generator wrote, not against the code's own scan),
  oracle_ranges, oracle_batch (batch vs one-by-one on two fresh fakes).
"""
import itertools
import os
import re
import shutil
import signal
import struct

from common import cN, cZ, clist, copt, cpair, ccodepoints

THEORY = "C20"
# private names whose disappearance only disables one bucket (harness/main.py): name -> bucket
OPTIONAL_PRIVATE = {"_find_sequential_ranges": "ranges"}

# ------------------------------------------------------------------------------------------------
# simulated ADwin
# ------------------------------------------------------------------------------------------------


def canon_val(v):
    """python / numpy number -> ("i", int) | ("f", float)."""
    if hasattr(v, "item"):
        v = v.item()
    if isinstance(v, bool):
        return ("b", v)
    if isinstance(v, int):
        return ("i", v)
    if isinstance(v, float):
        return ("f", v)
    return ("?", repr(v))


class FakeAdwin:
    """Adwin_Base stand-in: Par / FPar / typed Data arrays held in dictionaries, every call logged."""

    def __init__(self, init, int_arrays):
        self.reg = {tuple(r): v for r, v in init}   # ("P",i) | ("F",i) | ("D",d,i) -> python number
        self.int_arrays = set(int_arrays)
        self.log = []

    def get_processor_type(self):
        return "T12"

    def _default(self, r):
        if r[0] == "P" or (r[0] == "D" and r[1] in self.int_arrays):
            return 0
        return 0.0

    def get_par(self, i):
        self.log.append(("get_par", i))
        return self.reg.get(("P", i), 0)

    def get_fpar(self, i):
        self.log.append(("get_fpar", i))
        return self.reg.get(("F", i), 0.0)

    def get_data(self, d, first, count):
        import numpy as np
        self.log.append(("get_data", d, first, count))
        vals = [self.reg.get(("D", d, first + k), self._default(("D", d, 0))) for k in range(count)]
        return np.array(vals, dtype=np.int64 if d in self.int_arrays else np.float64)

    def set_par(self, i, value):
        if not isinstance(value, int):
            raise TypeError("Expecting integer value for parameter but got {}".format(value))
        self.log.append(("set_par", i, canon_val(value)))
        self.reg[("P", i)] = value

    def set_fpar(self, i, value):
        if not isinstance(value, (int, float)):
            raise TypeError("Expecting numeric value for parameter but got {}".format(value))
        self.log.append(("set_fpar", i, canon_val(value)))
        self.reg[("F", i)] = value

    def set_data(self, d, first, value):
        import numpy as np
        if d in self.int_arrays:
            if isinstance(value, np.ndarray) and value.dtype.kind not in "iu":
                raise ValueError("Invalid non-integer data for Data_{}".format(d))
            vals = [int(x) for x in value]
        else:
            vals = [float(x) for x in value]
        self.log.append(("set_data", d, first, [canon_val(x) for x in vals]))
        for k, x in enumerate(vals):
            self.reg[("D", d, first + k)] = x

    def dump(self):
        return {r: canon_val(v) for r, v in self.reg.items()}


def mk_desc(d):
    from qmi.utils.adbasic_parser import ParDesc, FParDesc, ArrayElemDesc
    return {"P": ParDesc, "F": FParDesc, "E": ArrayElemDesc}[d[0]](*d[1:])


def canon_desc(x):
    from qmi.utils.adbasic_parser import ParDesc, FParDesc, ArrayElemDesc
    if type(x) is ParDesc:
        return ("P", x.par_index)
    if type(x) is FParDesc:
        return ("F", x.fpar_index)
    if type(x) is ArrayElemDesc:
        return ("E", x.data_index, x.elem_index)
    return ("?", repr(x))


def reg_of(d):
    return ("P", d[1]) if d[0] == "P" else ("F", d[1]) if d[0] == "F" else ("D", d[1], d[2])


def mk_proc(fake, binding):
    from qmi.utils.adwin_manager import AdwinProcess, ProgramInfo
    from qmi.utils.adbasic_parser import ParameterInfo
    pinfo = ParameterInfo(param={n: mk_desc(d) for n, d in binding}, data={})
    return AdwinProcess(fake, "proc", ProgramInfo(file="prog", slot=1, trigger="timer", priority=1, param_info=pinfo))


def pyval(v):
    return int(v[1]) if v[0] == "i" else float(v[1])


def run_op(proc, op):
    try:
        if op[0] == "get":
            return ("val", canon_val(proc.get_par(op[1])))
        if op[0] == "set":
            r = proc.set_par(op[1], pyval(op[2]))
            return ("none",) if r is None else ("weird", repr(r))
        if op[0] == "getm":
            r = proc.get_par_multiple(list(op[1]))
            return ("dict", [(k, canon_val(v)) for k, v in r.items()])
        if op[0] == "setm":
            r = proc.set_par_multiple({n: pyval(v) for n, v in op[1]})
            return ("none",) if r is None else ("weird", repr(r))
    except ValueError:
        return ("ValueError",)
    except TypeError:
        return ("TypeError",)
    except Exception as e:  # noqa
        return ("exc", type(e).__name__)
    return ("weird", "op")


def impl_dev(case, upto=None):
    fake = FakeAdwin([(tuple(r), pyval(v)) for r, v in case["init"]], case["int_arrays"])
    proc = mk_proc(fake, [(n, tuple(d)) for n, d in case["binding"]])
    outs, marks = [], []
    for op in (case["ops"] if upto is None else case["ops"][:upto]):
        outs.append(run_op(proc, op))
        marks.append(len(fake.log))
    fake.marks = marks          # log length after each accessor call
    return fake, proc, outs


# ------------------------------------------------------------------------------------------------
# implementation runners for the parser
# ------------------------------------------------------------------------------------------------

def canon_result(fn, root=None):
    from qmi.utils.adbasic_parser import ParseException
    try:
        r = fn()
    except ParseException as e:
        f = e.filename
        if root is not None:
            f = os.path.relpath(os.path.normpath(f), root)
        return ("err", f, e.line_nr)
    except FileNotFoundError:
        return ("other", 1)
    except ValueError:
        return ("other", 2)
    except Exception as e:  # noqa
        return ("exc", type(e).__name__)
    return r


def impl_analyze(syms):
    from qmi.utils.adbasic_parser import SymbolInfo, analyze_parameter_info

    def go():
        info = analyze_parameter_info([SymbolInfo(*s) for s in syms])
        return ("binding", [(k, canon_desc(v)) for k, v in info.param.items()], list(info.data.items()))
    return canon_result(go)


class _NoTermination(BaseException):
    pass


def _alarm(signum, frame):
    raise _NoTermination()


def impl_prog(case, scratch, serial):
    from qmi.utils.adbasic_parser import parse_adbasic_program
    root = os.path.join(scratch, "p%d" % serial)
    cyclic = bool(case.get("cyclic"))
    try:
        for rel, lines in case["files"].items():
            p = os.path.join(root, rel)
            os.makedirs(os.path.dirname(p), exist_ok=True)
            with open(p, "w", newline="") as f:
                f.write(case.get("eol", "\n").join(lines) + (case.get("eol", "\n") if case.get("final_eol", True) and lines else ""))

        def go():
            ss = parse_adbasic_program(os.path.join(root, case["main"]), os.path.join(root, case["incdir"]))
            return [(os.path.relpath(os.path.normpath(s.filename), root), s.line_nr, s.label, s.value) for s in ss]
        if cyclic:
            # circular includes: /repo's traversal never ends; give it a short budget (the files are tiny)
            old = signal.signal(signal.SIGALRM, _alarm)
            signal.setitimer(signal.ITIMER_REAL, case.get("budget_s", 0.25))
            try:
                syms = canon_result(go, root)
            except _NoTermination:
                return None, ("other", 98)
            finally:
                signal.setitimer(signal.ITIMER_REAL, 0)
                signal.signal(signal.SIGALRM, old)
        else:
            syms = canon_result(go, root)
        if not isinstance(syms, list):
            return None, syms
        # analysis on the very objects' content (file names canonicalised the same way)
        r = impl_analyze(syms)
        return syms, r
    finally:
        shutil.rmtree(root, ignore_errors=True)


# ------------------------------------------------------------------------------------------------
# oracles (independent of the Coq model)
# ------------------------------------------------------------------------------------------------
_WS = " \t\n\r\x0b\x0c\x1c\x1d\x1e\x1f\x85\xa0"


def ref_defs(syms):
    """Reference classification written from the documented definition forms (no regex reuse):
    returns (data_defs, par_defs) as lists of (name, ref, file, line); ref for a PAR element
    definition is ("E?", arrayname, idx) until resolved."""
    def indexed(prefix, v):
        if v[:len(prefix)].lower() == prefix and len(v) > len(prefix) and all(c in "0123456789" for c in v[len(prefix):]):
            return int(v[len(prefix):])
        return None
    dd, pd = [], []
    for f, l, label, value in syms:
        if label[:5].upper() == "DATA_":
            i = indexed("data_", value)
            if i is not None:
                dd.append((label[5:], i, f, l))
        if label[:4].upper() == "PAR_":
            name = label[4:]
            i = indexed("par_", value)
            j = indexed("fpar_", value)
            if i is not None:
                pd.append((name, ("P", i), f, l))
            elif j is not None:
                pd.append((name, ("F", j), f, l))
            elif value[:5].lower() == "data_" and value.endswith("]") and "[" in value:
                k = value.rindex("[")
                num = value[k + 1:-1].strip(_WS)
                arr = value[5:k].rstrip(_WS)
                if num and all(c in "0123456789" for c in num) and arr and not any(c in _WS for c in arr):
                    pd.append((name, ("E?", arr, int(num)), f, l))
    return dd, pd


def offenders(defs):
    """definitions that conflict with an earlier one (case, register, alias)."""
    out = []
    for k, (n, r, f, l) in enumerate(defs):
        for (n2, r2, _, _) in defs[:k]:
            if (n2.upper() == n.upper() and n2 != n) or (n2 == n and r2 != r) or (r2 == r and n2 != n):
                out.append((f, l))
                break
    return out


def oracle_binding(syms, res):
    """C20 part 1 on analyze_parameter_info's outcome for the symbol list `syms`."""
    if res[0] in ("exc", "other"):
        return "unexpected exception %r from the analysis" % (res,)
    dd, pd = ref_defs(syms)
    off_d = offenders(dd)
    arrays = {}
    for n, i, _, _ in dd:
        arrays[n.upper()] = i
    pd2, unknown = [], []
    for n, r, f, l in pd:
        if r[0] == "E?":
            if r[1].upper() in arrays:
                pd2.append((n, ("E", arrays[r[1].upper()], r[2]), f, l))
            else:
                unknown.append((f, l))
                pd2.append((n, ("U", f, l), f, l))
        else:
            pd2.append((n, r, f, l))
    off_p = offenders([d for d in pd2 if d[1][0] != "U"]) + unknown
    if off_d:
        # the property asks for file and line of an offending definition; it does not fix which one when there
        # are several (the code reports DATA_ clashes first): any offending definition is accepted here
        if res[0] != "err":
            return "conflicting DATA_ definitions accepted (e.g. at %s line %d)" % off_d[0]
        if (res[1], res[2]) not in off_d + off_p:
            return "error located at %s:%d which is not a conflicting definition" % (res[1], res[2])
        return None
    if off_p:
        if res[0] != "err":
            return "conflicting / dangling PAR_ definitions accepted (e.g. at %s line %d)" % off_p[0]
        if (res[1], res[2]) not in off_p:
            return "error located at %s:%d which is not an offending PAR_ definition" % (res[1], res[2])
        return None
    if res[0] == "err":
        return "program without conflicting definitions rejected at %s:%d" % (res[1], res[2])
    _, param, data = res
    pn = [n for n, _ in param]
    if len({n.upper() for n in pn}) != len(pn) or len({n.lower() for n in pn}) != len(pn):
        return "two parameter names equal up to case in the binding"
    if len({d for _, d in param}) != len(param):
        return "two parameter names bound to the same register"
    dn = [n for n, _ in data]
    if len({n.upper() for n in dn}) != len(dn) or len({i for _, i in data}) != len(data):
        return "array names not one-to-one with Data indices"
    if {(n, r) for n, r, _, _ in pd2} != set(param):
        return "binding differs from the definitions in the program (param)"
    if {(n, i) for n, i, _, _ in dd} != set(data):
        return "binding differs from the definitions in the program (data)"
    return None


def oracle_ranges(l, rs):
    flat = []
    for a, b in rs:
        if a > b:
            return "range with start > end"
        flat += list(range(a, b + 1))
    if flat != sorted(set(l)):
        return "ranges do not cover exactly the sorted distinct input"
    for (a, b), (c, d) in zip(rs, rs[1:]):
        if not b + 1 < c:
            return "adjacent or overlapping ranges (not maximal / not disjoint)"
    return None


def wellformed_batch(case, op):
    """names bound, pairwise distinct up to case; values type-correct for their register."""
    b = {n.lower(): tuple(d) for n, d in case["binding"]}
    if len(b) != len(case["binding"]) or len({tuple(d) for _, d in case["binding"]}) != len(b):
        return False
    names = [n for n, _ in op[1]] if op[0] == "setm" else list(op[1])
    if len({n.lower() for n in names}) != len(names) or any(n.lower() not in b for n in names):
        return False
    if op[0] == "setm":
        for n, v in op[1]:
            d = b[n.lower()]
            want_int = d[0] == "P" or (d[0] == "E" and d[1] in case["int_arrays"])
            if d[0] == "F":
                continue
            if want_int != (v[0] == "i"):
                return False
    return True


def touched(log, kinds):
    out = []
    for c in log:
        if c[0] not in kinds:
            continue
        if c[0] in ("get_par", "set_par"):
            out.append(("P", c[1]))
        elif c[0] in ("get_fpar", "set_fpar"):
            out.append(("F", c[1]))
        elif c[0] == "get_data":
            out += [("D", c[1], c[2] + k) for k in range(c[3])]
        else:
            out += [("D", c[1], c[2] + k) for k in range(len(c[3]))]
    return out


def oracle_batch(case, k):
    """ops[k] is a well-formed batch op: run it, and the same accesses one by one, from equal states."""
    op = case["ops"][k]
    b = {n.lower(): tuple(d) for n, d in case["binding"]}
    fa, pa, _ = impl_dev(case, k)
    fb, pb, _ = impl_dev(case, k)
    la, lb = len(fa.log), len(fb.log)
    before = fa.dump()
    ra = run_op(pa, op)
    if op[0] == "setm":
        bound = sorted(reg_of(b[n.lower()]) for n, _ in op[1])
        for n, v in op[1]:
            r1 = run_op(pb, ("set", n, v))
            if r1 != ("none",):
                return "single set_par(%r) gives %r" % (n, r1)
        if ra != ("none",):
            return "set_par_multiple gives %r where the single writes succeed" % (ra,)
        if fa.dump() != fb.dump():
            diff = sorted(r for r in set(fa.dump()) | set(fb.dump()) if fa.dump().get(r) != fb.dump().get(r))
            return "registers after set_par_multiple differ from one-by-one set_par at %r" % (diff[:3],)
        w = touched(fa.log[la:], ("set_par", "set_fpar", "set_data"))
        if set(w) != set(bound):
            return "set_par_multiple wrote registers %r, bound ones are %r" % (sorted(w)[:6], bound[:6])
        if touched(fa.log[la:], ("get_par", "get_fpar", "get_data")):
            return "set_par_multiple read registers"
    else:
        bound = sorted(reg_of(b[n.lower()]) for n in op[1])
        single = []
        for n in op[1]:
            r1 = run_op(pb, ("get", n))
            if r1[0] != "val":
                return "single get_par(%r) gives %r" % (n, r1)
            single.append((n, r1[1]))
        if ra[0] != "dict":
            return "get_par_multiple gives %r where the single reads succeed" % (ra,)
        if dict(ra[1]) != dict(single):
            return "get_par_multiple result differs from one-by-one get_par"
        rd = touched(fa.log[la:], ("get_par", "get_fpar", "get_data"))
        if set(rd) != set(bound):
            return "get_par_multiple read registers %r, bound ones are %r" % (sorted(rd)[:6], bound[:6])
        if touched(fa.log[la:], ("set_par", "set_fpar", "set_data")) or fa.dump() != before:
            return "get_par_multiple changed registers"
    return None


# ------------------------------------------------------------------------------------------------
# Coq terms
# ------------------------------------------------------------------------------------------------
def cstr(s):
    return ccodepoints(s)


def cpath(rel):
    return clist([cstr(c) for c in rel.split("/")]) if rel else "[]"


def csym(s):
    return "(mkSym %s %s %s %s)" % (cstr(s[0]), cN(s[1]), cstr(s[2]), cstr(s[3]))


def cdesc(d):
    return "(%s %s)" % ({"P": "Par", "F": "FPar", "E": "Elem"}[d[0]], " ".join(cN(x) for x in d[1:]))


def creg(r):
    return "(%s %s)" % ({"P": "RPar", "F": "RFPar", "D": "RData"}[r[0]], " ".join(cN(x) for x in r[1:]))


def cval(v):
    if v[0] == "i":
        return "(VInt %s)" % cZ(v[1])
    if v[0] == "f":
        f = float(v[1])     # opaque atom: a short injective code (exact multiples of 1/1024, else the IEEE bits, offset)
        if f == f and abs(f) < 2.0 ** 40 and f * 1024 == int(f * 1024):
            return "(VFlt %s)" % cZ(int(f * 1024))
        return "(VFlt %s)" % cZ(2 ** 80 + struct.unpack("<Q", struct.pack("<d", f))[0])
    return "VBad"


def cpobs(r):
    if r[0] == "binding":
        return "(PBinding %s %s)" % (clist([cpair(cstr(n), cdesc(d)) for n, d in r[1]]),
                                     clist([cpair(cstr(n), cN(i)) for n, i in r[2]]))
    if r[0] == "err":
        return "(PErr %s %s)" % (cstr(r[1]), cN(r[2]))
    if r[0] == "other":
        return "(POther %s)" % cN(r[1])
    return "(POther 50%N)"


def ccall(c):
    if c[0] == "get_par":
        return "(CGetPar %s)" % cN(c[1])
    if c[0] == "get_fpar":
        return "(CGetFPar %s)" % cN(c[1])
    if c[0] == "get_data":
        return "(CGetData %s %s %s)" % (cN(c[1]), cN(c[2]), cN(c[3]))
    if c[0] == "set_par":
        return "(CSetPar %s %s)" % (cN(c[1]), cval(c[2]))
    if c[0] == "set_fpar":
        return "(CSetFPar %s %s)" % (cN(c[1]), cval(c[2]))
    return "(CSetData %s %s %s)" % (cN(c[1]), cN(c[2]), clist([cval(v) for v in c[3]]))


def cop(o):
    if o[0] == "get":
        return "(DGet %s)" % cstr(o[1])
    if o[0] == "set":
        return "(DSet %s %s)" % (cstr(o[1]), cval(o[2]))
    if o[0] == "getm":
        return "(DGetM %s)" % clist([cstr(n) for n in o[1]])
    return "(DSetM %s)" % clist([cpair(cstr(n), cval(v)) for n, v in o[1]])


def cout(x):
    if x[0] == "val":
        return "(OVal %s)" % cval(x[1])
    if x[0] == "none":
        return "ONone"
    if x[0] == "dict":
        return "(ODict %s)" % clist([cpair(cstr(n), cval(v)) for n, v in x[1]])
    if x[0] == "ValueError":
        return "OValueError"
    if x[0] == "TypeError":
        return "OTypeError"
    return "(OVal VBad)"   # unexpected exception / result: equals no model output


def coq_case(case, obs):
    k = case["kind"]
    if k == "syms":
        return "(KSyms %s %s)" % (clist([csym(s) for s in case["syms"]]), cpobs(obs["result"]))
    if k == "prog":
        fs = clist([cpair(cpath(rel), clist([cstr(l) for l in lines])) for rel, lines in case["files"].items()])
        return "(KProg %s %s %s %s %s)" % (fs, cpath(case["main"]), cpath(case["incdir"]),
                                           copt(obs["syms"], lambda ss: clist([csym(s) for s in ss])),
                                           cpobs(obs["result"]))
    if k == "ranges":
        return "(KRanges %s %s)" % (clist([cN(x) for x in case["l"]]),
                                    clist([cpair(cN(a), cN(b)) for a, b in obs["ranges"]]))
    regs = sorted(set(tuple(r) for r, _ in case["init"]) | set(obs["final"]))
    bound = {reg_of(d) for _, d in case["binding"]}
    regs = [r for r in regs if r in bound or r in set(touched(obs["log"], ("set_par", "set_fpar", "set_data", "get_data")))
            or obs["final"].get(r) != dict((tuple(a), tuple(b)) for a, b in case["init"]).get(r)]
    final = [(r, obs["final"].get(r, ("i", 0) if (r[0] == "P" or (r[0] == "D" and r[1] in case["int_arrays"])) else ("f", 0.0)))
             for r in regs]
    init = [(tuple(r), tuple(v)) for r, v in case["init"]]
    per_op, lo = [], 0
    for x, hi in zip(obs["outs"], obs["marks"]):
        per_op.append(cpair(cout(x), clist([ccall(c) for c in obs["log"][lo:hi]])))
        lo = hi
    return "(KDev %s %s %s %s %s)" % (
        clist([cpair(cstr(n), cdesc(d)) for n, d in case["binding"]]),
        clist([cpair(creg(r), cval(v)) for r, v in init]),
        clist([cop(o) for o in case["ops"]]),
        clist(per_op),
        clist([cpair(creg(r), cval(v)) for r, v in final]))


# ------------------------------------------------------------------------------------------------
# generators
# ------------------------------------------------------------------------------------------------
BASES = ["x", "y", "gain", "Offset", "a_b", "cnt1", "V", "tau", "Mode", "n", ""]
ARRS = ["arr", "buf", "Tbl", "w_2"]
NOISE = ["", "   ", "' a comment line", "Dim k As Long", "Par_1 = Par_1 + 1", "Event:", "  Init:",
         "'#Define PAR_hidden Par_9", "#If Processor = T12 Then", "#EndIf", "Rem #Define PAR_r Par_8",
         "x = PAR_gain ' uses #Define"]
MALFORMED = ["#Define ONLYNAME", "#DefineX PAR_m Par_7", "#Define PAR_m Par_7 Par_8", "# Define PAR_m Par_7",
             "#Define", "#Define PAR_m 'Par_7", "#Defin PAR_m Par_7", "#Define PAR_m Par_7 x ' c",
             "##Define PAR_m Par_7", "#Include", "#Include 'sub/x.inc", "#Include a/b.inc c"]


def recase(rng, s, p=0.5):
    if rng.random() > p:
        return s
    return "".join(c.upper() if rng.random() < 0.5 else c.lower() for c in s)


def recase_diff(rng, s):
    """a spelling equal up to case but different; None if the string has no letters."""
    idx = [i for i, c in enumerate(s) if c.isalpha()]
    if not idx:
        return None
    i = rng.choice(idx)
    t = recase(rng, s)
    return t[:i] + s[i].swapcase() + t[i + 1:] if t[i] == s[i] else t


def digits(rng, n):
    return ("0" * rng.choice([0, 0, 0, 1, 2])) + str(n)


def render_value(rng, ref):
    if ref[0] == "P":
        return recase(rng, "Par_", 0.3) + digits(rng, ref[1])
    if ref[0] == "F":
        return recase(rng, "FPar_", 0.3) + digits(rng, ref[1])
    if ref[0] == "D":
        return recase(rng, "Data_", 0.3) + digits(rng, ref[1])
    if ref[0] == "A":     # element of named array
        return recase(rng, "Data_", 0.3) + recase(rng, ref[1], 0.3) + "[" + digits(rng, ref[2]) + "]"
    return ref[1]          # raw text


def render_define(rng, kind, name, ref):
    label = recase(rng, "PAR_" if kind == "P" else "DATA_", 0.3) + name
    value = render_value(rng, ref)
    lead = rng.choice(["", "", "", " ", "\t", "   "])
    kw = rng.choice(["#Define", "#Define", "#define", "#DEFINE", "#DeFiNe"])
    s1 = rng.choice([" ", " ", "  ", "\t", " \t "])
    s2 = rng.choice([" ", " ", "   ", "\t"])
    tail = rng.choice(["", "", "", " ", "  ' comment", "' c", " 'x'y", "\t' #Define PAR_zz Par_5"])
    return lead + kw + s1 + label + s2 + value + tail, (label, value)


def gen_defs(rng):
    """a list of definitions (kind, name, ref) — valid base plus injected faults / legal repeats."""
    narr = rng.choice([0, 1, 1, 2, 3])
    arrs = rng.sample(ARRS, narr)
    aidx = rng.sample([1, 2, 3, 4, 20], narr)
    defs = [("D", a, ("D", i)) for a, i in zip(arrs, aidx)]
    npar = rng.randint(0, 6)
    names = rng.sample(BASES, npar)
    used = set()
    for n in names:
        for _ in range(20):
            t = rng.choice("PFA" if arrs else "PF")
            ref = ("P", rng.randint(1, 6)) if t == "P" else ("F", rng.randint(1, 6)) if t == "F" else \
                ("A", rng.choice(arrs), rng.randint(0, 9))
            key = (ref[0], ref[1].upper(), ref[2]) if t == "A" else ref
            if key not in used:
                used.add(key)
                defs.append(("P", n, ref))
                break
    rng.shuffle(defs)
    nfault = rng.choice([0, 0, 0, 1, 1, 2])
    faults = []
    for _ in range(nfault + rng.choice([0, 0, 1, 2])):
        legal = len(faults) >= nfault
        pars = [d for d in defs if d[0] == "P"]
        dats = [d for d in defs if d[0] == "D"]
        if legal:
            f = rng.choice(["same", "same", "skipval", "otherlabel", "parfpar", "dataforpar"])
        else:
            f = rng.choice(["case", "case", "rereg", "alias", "unknown", "dcase", "dreidx", "dalias", "nested"])
        faults.append(f)
        pos = rng.randint(0, len(defs))
        if f == "same" and defs:
            defs.insert(pos, rng.choice(defs))
        elif f == "skipval":
            defs.insert(pos, (rng.choice("PD"), rng.choice(BASES + ARRS),
                              ("R", rng.choice(["3.14", "Par_", "Par_1x", "FPar_-1", "Data_arr[x]", "Data_[1]", "Par1",
                                                "Data_arr[1", "xPar_1", "Data_2.5", "Data_arr[]"]))))
        elif f == "otherlabel":
            defs.insert(pos, ("X", rng.choice(["PARX", "PAR", "DATAX_q", "XPAR_q", "P_AR_x"]), ("P", rng.randint(1, 6))))
        elif f == "parfpar" and pars:
            d = rng.choice(pars)
            if d[2][0] in "PF":
                defs.insert(pos, ("P", "other" + str(rng.randint(0, 3)), ("F" if d[2][0] == "P" else "P", d[2][1])))
        elif f == "dataforpar":
            defs.insert(pos, ("P", rng.choice(BASES), ("D", rng.randint(1, 4))))   # PAR_x Data_3 : not a form
        elif f == "case" and pars:
            d = rng.choice(pars)
            n2 = recase_diff(rng, d[1])
            if n2:
                defs.insert(pos, ("P", n2, d[2] if rng.random() < 0.5 else ("P", rng.randint(7, 9))))
        elif f == "rereg" and pars:
            d = rng.choice(pars)
            alt = ("F", d[2][1]) if (d[2][0] == "P" and rng.random() < 0.5) else ("P", rng.randint(7, 9))
            defs.insert(pos, ("P", d[1], alt))
        elif f == "alias" and pars:
            d = rng.choice(pars)
            defs.insert(pos, ("P", "alias" + str(rng.randint(0, 2)), d[2]))
        elif f == "unknown":
            defs.insert(pos, ("P", "dangling", ("A", rng.choice(["nosuch", "arr[1]", "7"]), rng.randint(0, 3))))
        elif f == "dcase" and dats:
            d = rng.choice(dats)
            n2 = recase_diff(rng, d[1])
            if n2:
                defs.insert(pos, ("D", n2, d[2]))
        elif f == "dreidx" and dats:
            d = rng.choice(dats)
            defs.insert(pos, ("D", d[1], ("D", d[2][1] + 5)))
        elif f == "dalias" and dats:
            d = rng.choice(dats)
            defs.insert(pos, ("D", "alias", d[2]))
        elif f == "nested" and pars:
            d = rng.choice(pars)
            defs.insert(pos, ("P", d[1], d[2]))
            defs.insert(rng.randint(0, len(defs)), ("P", d[1].swapcase() if d[1].swapcase() != d[1] else d[1] + "q", d[2]))
    return defs, faults


def gen_prog(rng, cyclic=False):
    defs, faults = gen_defs(rng)
    nfiles = rng.choice([1, 1, 2, 2, 3, 4]) if not cyclic else rng.choice([2, 3, 4])
    incdir = rng.choice(["prog", "prog", "lib"])
    # "twins": two different files reached through the same literal include string from different directories
    twin = (not cyclic) and rng.random() < 0.06
    if twin:
        nfiles, incdir = 4, "lib"
    # file k may include files with a larger number only (no cycles)
    rels = ["prog/main.bas"] + (["prog/defs.inc", "prog/sub/module.inc", "prog/sub/defs.inc"] if twin else [])
    for k in range(1, nfiles if not twin else 0):
        style = rng.choice(["inc", "inc", "rel", "up"])
        if style == "inc":
            rels.append("%s/%s" % (incdir, rng.choice(["sub/f%d.inc", "f%d/defs.inc", "sub/deep/f%d.inc"]) % k))
        elif style == "rel":
            rels.append(None)    # placed next to its (first) includer, chosen below
        else:
            rels.append("shared/g%d.inc" % k)
    lines = {k: [] for k in range(nfiles)}       # k -> list of [text, sym or None, inc target k or None]
    known = True
    for d in defs:
        k = rng.randrange(nfiles)
        text, sym = render_define(rng, "P" if d[0] == "X" else d[0], d[1], d[2]) if d[0] != "X" else \
            render_define(rng, "P", "", d[2])
        if d[0] == "X":
            text = text.replace(sym[0], d[1], 1)
            sym = (d[1], sym[1])
        lines[k].append([text, sym, None])
    for k in range(nfiles):
        for _ in range(rng.choice([0, 1, 2, 4])):
            lines[k].insert(rng.randint(0, len(lines[k])), [rng.choice(NOISE), None, None])
        if rng.random() < 0.3:
            lines[k].insert(rng.randint(0, len(lines[k])), [rng.choice(MALFORMED), None, None])
        if rng.random() < 0.25:
            lines[k].insert(rng.randint(0, len(lines[k])),
                            [rng.choice(["#Include ADwinGoldII.inc", "#include adwinpro_all.inc ' system",
                                         "#Include /abs/olute.inc", "#Include \\abs\\olute.inc"]), None, None])
    # include edges: every file > 0 gets at least one includer with a smaller number
    missing = rng.random() < 0.03
    for k in range(1, nfiles):
        for src in ({1: [0], 2: [0], 3: [2]}[k] if twin else
                    sorted(set([rng.randrange(k)] + ([rng.randrange(k)] if rng.random() < 0.25 else [])))):
            if rels[k] is None:
                base = os.path.dirname(rels[src] if rels[src] else "prog/x")
                cands = [base + "/" + n for n in ("defs.inc", "loc.inc", "l/defs.inc", "defs%d.inc" % k, "l/loc%d.inc" % k)]
                cands = [c for c in cands if os.path.normpath(c) not in [os.path.normpath(r) for r in rels if r]]
                rels[k] = cands[0] if rng.random() < 0.6 else rng.choice(cands)
            srcdir = os.path.dirname(rels[src])
            if rels[k].startswith(incdir + "/") and "/" in rels[k][len(incdir) + 1:] and rng.random() < 0.7:
                inc = rels[k][len(incdir) + 1:]
            else:
                inc = os.path.relpath(rels[k], srcdir)
                if not inc.startswith("."):
                    inc = "./" + inc
            if rng.random() < 0.3:
                inc = inc.replace("/", "\\")
            if rng.random() < 0.1 and not inc.startswith("."):
                inc = inc.replace("/", "//", 1)
            text = rng.choice(["", " ", "\t"]) + rng.choice(["#Include", "#include", "#INCLUDE"]) + rng.choice([" ", "  ", "\t"]) \
                + inc + rng.choice(["", "", " ", " ' inc", "'c"])
            lines[src].insert(rng.randint(0, len(lines[src])), [text, None, k])
    # circular includes (rare): a back edge from a later file to an earlier one. /repo never terminates on these;
    # the ground truth is the acyclic unfolding (every file once, in first-visit order)
    if cyclic and nfiles > 1 and not missing:
        src = rng.randrange(1, nfiles)
        dst = 0 if rng.random() < 0.5 else rng.randrange(0, src + 1)     # main is an ancestor of every file: a true cycle
        inc = os.path.relpath(rels[dst], os.path.dirname(rels[src]))
        inc = inc if inc.startswith(".") else "./" + inc
        lines[src].insert(rng.randint(0, len(lines[src])), ["#Include " + inc, None, dst])
    else:
        cyclic = False
    files = {}
    for k in range(nfiles):
        if missing and k == nfiles - 1 and k > 0:
            continue
        files[os.path.normpath(rels[k])] = [t for t, _, _ in lines[k]]
    # ground truth: BFS over the include edges (repeated inclusions repeat the block, as /repo does)
    expect, queue, seen = [], [0], {0}
    steps = 0
    while queue and steps < 200:
        k = queue.pop(0)
        steps += 1
        if missing and k == nfiles - 1 and k > 0:
            expect = None
            break
        for ln, (t, sym, inc) in enumerate(lines[k]):
            if sym is not None:
                expect.append((os.path.normpath(rels[k]), ln + 1, sym[0], sym[1]))
            if inc is not None and not (cyclic and inc in seen):
                seen.add(inc)
                queue.append(inc)
    return {"kind": "prog", "files": files, "main": "prog/main.bas", "incdir": incdir,
            "eol": rng.choice(["\n", "\n", "\n", "\r\n"]), "final_eol": rng.random() < 0.8,
            "expect_syms": expect if known else None, "faults": faults, "missing": missing, "cyclic": cyclic, "twin": twin}


def gen_syms(rng):
    defs, faults = gen_defs(rng)
    syms = []
    for ln, d in enumerate(defs):
        if d[0] == "X":
            label, value = d[1], render_value(rng, d[2])
        else:
            label = recase(rng, "PAR_" if d[0] == "P" else "DATA_", 0.3) + d[1]
            value = render_value(rng, d[2])
            if d[2][0] == "A" and rng.random() < 0.5:     # blanks as the element pattern allows them
                value = value.replace("[", rng.choice([" [", "[ ", "\t[ "])).replace("]", rng.choice([" ]", "]"]))
        if rng.random() < 0.05:
            label = rng.choice(["PAR", "DATA", "par_", "PAR__x", "_PAR_x", "DATA_", "PAR_x y"])
        if rng.random() < 0.05:
            value = rng.choice(["Data_a b[1]", "Data_arr[1] ", " Par_1", "Par_ 1", "Data_arr[1]]", "Data_[[2]", "Data_arr][3]",
                                "FPar_007", "par_0", "Data_arr[ 1 2 ]", "Data_arr [1]x", ""])
        syms.append((rng.choice(["main.bas", "inc/a.inc", "b.inc"]), rng.randint(1, 40) if rng.random() < 0.2 else ln + 1,
                     label, value))
    return {"kind": "syms", "syms": syms, "faults": faults}


def gen_ranges(ck):
    if "_find_sequential_ranges" in getattr(ck, "skipped_private", ()):
        return []
    rng = ck.rng
    out = []
    for n in range(0, 5):
        for t in itertools.product(range(4), repeat=n):
            out.append({"kind": "ranges", "l": list(t), "src": "exhaustive"})
    for _ in range(300 if ck.tier == "quick" else 20000):
        hi = rng.choice([6, 12, 30, 1000])
        out.append({"kind": "ranges", "l": [rng.randrange(hi) for _ in range(rng.randint(0, 14))], "src": "random"})
    return out


FLOATS = [0.0, 0.25, 0.5, 1.5, -2.75, 3.0, 1e-3, 100.125, -0.5, 7.75]


def gen_dev(rng, binding=None):
    int_arrays = [d for d in (1, 2, 3, 4) if rng.random() < 0.5]
    if binding is None:
        inj = rng.random() < 0.9
        names = rng.sample([b for b in BASES if b] + ["alpha", "beta", "k9", "Zed", "q_1", "q_2", "m", "p", "t0", "t1"],
                           rng.randint(1, 12))
        binding, used = [], set()
        dense = rng.choice([1, 2, 3])
        for n in names:
            for _ in range(20):
                t = rng.choice("PFEEE")
                d = ("P", rng.randint(1, 6)) if t == "P" else ("F", rng.randint(1, 6)) if t == "F" else \
                    ("E", rng.randint(1, dense), rng.randint(1, 9))
                if d not in used or not inj:
                    used.add(d)
                    binding.append((recase(rng, n), d))
                    break
        if not inj and rng.random() < 0.5 and binding:
            n0 = binding[0][0]
            n1 = recase_diff(rng, n0)
            if n1 and n1 not in [n for n, _ in binding]:
                binding.append((n1, ("P", 6)))
    universe = {("P", 1), ("F", 1)} | {reg_of(d) for _, d in binding}
    for _, d in binding:
        if d[0] == "E":
            universe |= {("D", d[1], d[2] + 1), ("D", d[1], max(0, d[2] - 1))}
    universe = sorted(universe)
    init = []
    for r in universe:
        if r[0] == "P" or (r[0] == "D" and r[1] in int_arrays):
            init.append((r, ("i", rng.randint(-50, 50))))
        else:
            init.append((r, ("f", rng.choice(FLOATS) + rng.randint(0, 3))))
    def val_for(n, wrong=0.0):
        d = next((d for k, d in binding if k.lower() == n.lower()), None)   # as the case-insensitive lookup resolves
        if d is None:
            return ("i", rng.randint(0, 9))
        want_int = d[0] == "P" or (d[0] == "E" and d[1] in int_arrays)
        if d[0] == "P" and rng.random() < wrong:
            return ("f", rng.choice(FLOATS))
        if d[0] == "F" and rng.random() < 0.1:
            return ("i", rng.randint(-9, 9))
        return ("i", rng.randint(-99, 99)) if want_int else ("f", rng.choice(FLOATS) + rng.randint(0, 5))

    def pick_names(k):
        ns = rng.sample([n for n, _ in binding], min(k, len(binding)))
        return ns

    def spell(n):
        return recase(rng, n, 0.4)

    ops = []
    for _ in range(rng.randint(1, 5)):
        kind = rng.choices(["get", "set", "getm", "setm"], weights=[1, 1, 3, 3])[0]
        if kind in ("get", "set"):
            n = rng.choice([n for n, _ in binding]) if rng.random() < 0.9 else "nosuch"
            ops.append(("get", spell(n)) if kind == "get" else ("set", spell(n), val_for(n, 0.1)))
        else:
            base = pick_names(rng.choice([0, 1, 2, 3, 5, 8, 12]))
            names = [(n, spell(n)) for n in base]
            r = rng.random()
            if r < 0.06:
                names.insert(rng.randint(0, len(names)), ("nosuch", "NoSuch"))
            elif r < 0.14 and base:
                n = rng.choice(base)
                n2 = recase_diff(rng, n)
                if n2 and n2 not in [s for _, s in names]:
                    names.insert(rng.randint(0, len(names)), (n, n2))
            if kind == "getm":
                ops.append(("getm", [s for _, s in names] + ([names[0][1]] if names and rng.random() < 0.05 else [])))
            else:
                seen, ps = set(), []
                for n, s in names:
                    if s not in seen:
                        seen.add(s)
                        ps.append((s, val_for(n, 0.04)))
                ops.append(("setm", ps))
            # a batch call that fails (unknown name / non-int for Par) leaves a prefix of effects the property does not
            # fix: such a call ends the history
            lk = lambda n: next((d for k, d in binding if k.lower() == n.lower()), None)
            last = ops[-1]
            if any(lk(n if last[0] == "getm" else n[0]) is None for n in last[1]) or \
                    (last[0] == "setm" and any(lk(n)[0] == "P" and v[0] != "i" for n, v in last[1])):
                break
    return {"kind": "dev", "binding": [(n, tuple(d)) for n, d in binding], "int_arrays": int_arrays,
            "init": init, "ops": ops}


# ------------------------------------------------------------------------------------------------
# one case: implementation + oracles
# ------------------------------------------------------------------------------------------------
def jsonable(case):
    c = dict(case)
    if c["kind"] == "dev":
        c["binding"] = [[n, list(d)] for n, d in c["binding"]]
        c["init"] = [[list(r), list(v)] for r, v in c["init"]]
        c["ops"] = [list(o) for o in c["ops"]]
    return c


def unjson(c):
    c = dict(c)
    if c["kind"] == "dev":
        c["binding"] = [(n, tuple(d)) for n, d in c["binding"]]
        c["init"] = [(tuple(r), tuple(v)) for r, v in c["init"]]
        ops = []
        for o in c["ops"]:
            if o[0] == "get":
                ops.append(("get", o[1]))
            elif o[0] == "set":
                ops.append(("set", o[1], tuple(o[2])))
            elif o[0] == "getm":
                ops.append(("getm", list(o[1])))
            else:
                ops.append(("setm", [(n, tuple(v)) for n, v in o[1]]))
        c["ops"] = ops
    if c["kind"] == "syms":
        c["syms"] = [tuple(s) for s in c["syms"]]
    if c["kind"] == "prog" and c.get("expect_syms") is not None:
        c["expect_syms"] = [tuple(s) for s in c["expect_syms"]]
    return c


def observe(case, scratch, serial=0):
    """run the real code; returns (obs, [(key, why)...]) with the oracle verdicts."""
    k = case["kind"]
    whys = []
    if k == "syms":
        res = impl_analyze(case["syms"])
        w = oracle_binding(case["syms"], res)
        if w:
            whys.append(("binding:" + w.split("(")[0].split(" at ")[0].strip()[:60], w))
        return {"result": res}, whys
    if k == "prog":
        syms, res = impl_prog(case, scratch, serial)
        truth = case.get("expect_syms")      # the #Define lines written, in traversal order (None: a file is missing)
        if res == ("other", 98):
            pass        # circular includes, no termination: left open by C20 (only generated for circular graphs)
        elif syms is not None:
            # judged against what the program contains, not against the code's own scan of it
            w = oracle_binding(truth if truth is not None else syms, res)
            if w:
                whys.append(("binding:" + w.split("(")[0].split(" at ")[0].strip()[:60], w))
        elif not case.get("missing"):
            whys.append(("scanner:exception", "parse_adbasic_program failed with %r on a complete program" % (res,)))
        return {"syms": syms, "result": res}, whys
    if k == "ranges":
        from qmi.utils.adwin_manager import AdwinProcess
        try:
            rs = [tuple(int(x) for x in r) for r in AdwinProcess._find_sequential_ranges(list(case["l"]))]
        except Exception as e:  # noqa
            return {"ranges": [(999999, 0)]}, [("ranges:exception", "_find_sequential_ranges raised %s" % type(e).__name__)]
        w = oracle_ranges(case["l"], rs)
        if w:
            whys.append(("ranges:" + w[:60], w))
        return {"ranges": rs}, whys
    fake, _, outs = impl_dev(case)
    for i, op in enumerate(case["ops"]):
        if op[0] in ("getm", "setm") and wellformed_batch(case, op):
            w = oracle_batch(case, i)
            if w:
                whys.append(("batch:%s:" % op[0] + re.sub(r"[\[\(].*", "", w).strip()[:60], w))
    return {"outs": outs, "log": list(fake.log), "marks": list(fake.marks), "final": fake.dump()}, whys


def shrink(case, scratch, key):
    """greedy reduction keeping an oracle failure with the same key."""
    def fails(c):
        try:
            return any(k == key for k, _ in observe(c, scratch, 999999)[1])
        except Exception:  # noqa
            return False
    if not fails(case):
        return case
    k = case["kind"]
    if k == "ranges":
        l = list(case["l"])
        i = 0
        while i < len(l):
            t = dict(case, l=l[:i] + l[i + 1:])
            if fails(t):
                l = t["l"]
            else:
                i += 1
        return dict(case, l=l)
    if k == "syms":
        s = list(case["syms"])
        i = 0
        while i < len(s):
            t = dict(case, syms=s[:i] + s[i + 1:])
            if fails(t):
                s = t["syms"]
            else:
                i += 1
        return dict(case, syms=s)
    if k == "dev":
        c = dict(case)
        i = 0
        while i < len(c["ops"]):
            t = dict(c, ops=c["ops"][:i] + c["ops"][i + 1:])
            if fails(t):
                c = t
            else:
                i += 1
        for j in range(len(c["ops"])):
            if c["ops"][j][0] in ("getm", "setm"):
                i = 0
                while i < len(c["ops"][j][1]):
                    items = c["ops"][j][1]
                    t = dict(c, ops=c["ops"][:j] + [(c["ops"][j][0], items[:i] + items[i + 1:])] + c["ops"][j + 1:])
                    if fails(t):
                        c = t
                    else:
                        i += 1
        return c
    if k == "prog":
        c = dict(case)
        for rel in list(c["files"]):
            for i in range(len(c["files"][rel])):
                ls = c["files"][rel]
                if ls[i] == "" or ls[i].lstrip().lower().startswith("#include"):
                    continue
                # blank the line (line numbers stay) and drop it from the ground truth
                t = dict(c, files=dict(c["files"], **{rel: ls[:i] + [""] + ls[i + 1:]}))
                if c.get("expect_syms") is not None:
                    t["expect_syms"] = [e for e in c["expect_syms"] if not (e[0] == rel and e[1] == i + 1)]
                if fails(t):
                    c = t
        return c
    return case


def run(ck):
    ck.theory_dir = THEORY
    ck.build_theory(THEORY)
    ck.trusted = [
        "Coq 8.16.1 kernel (vm_compute evaluates the model on the cases; no native_compute)",
        "hand-written model theories/C20/Model.v of adbasic_parser / AdwinProcess accessors, tied to /repo by this run's correspondence",
        "python harness c20.py: program generator, FakeAdwin (dictionaries + call log; typed Data arrays as in Adwin_Base), canonicalisation",
        "CPython str.upper/lower on ASCII identifiers, re engine on the seven fixed patterns (modelled as scanners, compared differentially), "
        "str.splitlines/universal newlines, os.path.join/normpath/dirname (paths compared modulo normpath), int(), numpy array construction",
    ]
    ck.assumptions = [
        "identifiers and source lines are ASCII (str.upper/lower = ASCII case mapping); theorems hold for any upper/lower functions, "
        "the batch theorems under the stated law lower a = lower b -> upper a = upper b",
        "termination of the include traversal is not part of C20: on a circular include graph (a few are generated and run under a "
        "0.25 s watchdog) both 'does not terminate' (what /repo does) and 'the result on the acyclic unfolding' are accepted; "
        "repeated inclusion of a file is equivalent to single inclusion (theorem C20_repeated_symbols_ignored)",
        "batch = single is claimed for names that are bound and pairwise distinct up to case (a SUBSET of the parameters, any "
        "spelling) and for values type-correct for their register (python int for Par); the same parameter requested under two "
        "spellings in one call is outside: only 'every key carries the single-read value and every requested name is "
        "represented' is checked there; on a TypeError/ValueError the batch accessors stop after a different prefix of effects "
        "than one-by-one calls would: only the exception class is compared",
        "values are opaque atoms: numeric coercion inside the ADwin driver (int32 / float64 conversion) is outside",
    ]
    rng = ck.rng
    quick = ck.tier == "quick"
    cases = []
    for _ in range(900 if quick else 15000):
        cases.append(gen_prog(rng))
    for _ in range(12 if quick else 120):
        cases.append(gen_prog(rng, cyclic=True))
    for _ in range(500 if quick else 8000):
        cases.append(gen_syms(rng))
    cases += gen_ranges(ck)
    for _ in range(700 if quick else 12000):
        cases.append(gen_dev(rng))
    scratch = ck.scratch_dir()
    import logging, time
    logging.getLogger("qmi.utils.adbasic_parser").setLevel(logging.CRITICAL)
    t_impl = time.time()
    terms, metas = [], []
    accepted_bindings = []
    serial = 0

    def do(case):
        nonlocal serial
        serial += 1
        obs, whys = observe(case, scratch, serial)
        k = case["kind"]
        ck.count("kind:" + k)
        nontrivial = True
        if k in ("prog", "syms"):
            r = obs["result"]
            ck.count("%s:%s" % (k, "accepted" if r[0] == "binding" else "rejected" if r[0] == "err" else "other"))
            for f in set(case.get("faults", [])):
                ck.count("inject:" + f)
            if k == "prog":
                ck.count("prog:files=%d" % len(case["files"]))
                if case.get("twin"):
                    ck.count("prog:same-include-string-two-files")
                if case.get("cyclic"):
                    ck.count("prog:circular-include:" + ("no-termination" if r == ("other", 98) else "terminated"))
                if obs["syms"] is not None and len(set(obs["syms"])) != len(obs["syms"]):
                    ck.count("prog:file-included-more-than-once")
            if r[0] == "binding":
                nontrivial = len(r[1]) + len(r[2]) > 0
                if r[1] and all(d[0] != "?" and all(x < 40 for x in d[1:]) for _, d in r[1]):
                    accepted_bindings.append(r[1])
        elif k == "ranges":
            ck.count("ranges:" + case["src"])
            nontrivial = len(obs["ranges"]) > 0
        else:
            for op, out in zip(case["ops"], obs["outs"]):
                ck.count("op:%s:%s" % (op[0], out[0] if out[0] in ("ValueError", "TypeError") else "ok"))
                if op[0] in ("getm", "setm"):
                    ck.count("batch:wellformed" if wellformed_batch(case, op) else "batch:other")
            nd = sum(1 for c in obs["log"] if c[0] in ("get_data", "set_data") and (c[3] if c[0] == "get_data" else len(c[3])) > 1)
            ck.count("dev:merged-range-calls>0" if nd else "dev:no-merged-range")
            nontrivial = any(op[0] in ("getm", "setm") for op in case["ops"])
        ck.note_case(jsonable(case), nontrivial)
        for key, why in whys:
            sc = shrink(case, scratch, key)
            ck.report("oracle:" + key, "C20 fails on the implementation: " + why, jsonable(sc))
        terms.append(coq_case(case, obs))
        metas.append((case, obs, whys))

    for c in cases:
        do(c)
    # end to end: bindings produced by the real parser drive the simulated ADwin
    for bnd in accepted_bindings[: (300 if quick else 5000)]:
        do(gen_dev(rng, binding=[(n, d) for n, d in bnd]))
        ck.count("dev:binding-from-parser")
    for kind in ("prog", "syms", "dev"):
        for m in metas:
            if m[0]["kind"] == kind and (kind != "prog" or m[1]["result"][0] == "err"):
                s = jsonable(m[0])
                s.pop("expect_syms", None)
                if kind == "dev":
                    s.pop("init", None)
                ck.sample({"case": s, "impl": {k: (v if k != "final" else "...") for k, v in m[1].items() if k != "log"}}, 3)
                break
    ck.coverage["impl_and_oracles_s"] = round(time.time() - t_impl, 1)
    t_model = time.time()
    bad = ck.run_model("C20.Corr", "check_case", terms, "case", shard=150)
    ck.coverage["model_eval_s"] = round(time.time() - t_model, 1)
    ck.coverage["case_term_bytes"] = sum(len(t) for t in terms)
    ck.coverage["correspondence_disagreements"] = len(bad)
    seen_kinds = {}
    for i in bad:
        case, obs, whys = metas[i]
        if seen_kinds.get(case["kind"], 0) >= 2:
            continue
        seen_kinds[case["kind"]] = seen_kinds.get(case["kind"], 0) + 1
        mo = ck.model_eval("C20.Corr", "model_out %s" % terms[i])
        why = whys[0][1] if whys else None
        ck.report("corr:%s:%s" % (case["kind"], "oracle-fails" if why else "model-differs"),
                  "implementation and Coq model disagree on a %s case" % case["kind"]
                  + (": " + why if why else " (property oracle passes on it)"),
                  dict(jsonable(case), impl=repr(obs)[:3000], model_out=mo[-3000:],
                       broken="correspondence C20.Corr.check_case"),
                  found_input=bool(why))
    return ck.finish("generated ADbasic programs (valid base + injected conflicts / legal repeats, include files), direct symbol "
                     "lists, exhaustive small + random range inputs, AdwinProcess op sequences over a simulated ADwin (random "
                     "injective and non-injective bindings and bindings produced by the real parser); non-trivial = non-empty "
                     "binding / non-empty ranges / at least one batch access; distinct by content hash")


def replay(rep):
    import common
    case = unjson({k: v for k, v in rep["case"].items() if k not in ("impl", "model_out", "broken")})
    scratch = os.path.join(os.environ.get("VERIF_SCRATCH", "/var/tmp"), "qmi-verif.C20.replay.%d" % os.getpid())
    os.makedirs(scratch, exist_ok=True)
    try:
        obs, whys = observe(case, scratch, 0)
    finally:
        shutil.rmtree(scratch, ignore_errors=True)
    print("case:", {k: v for k, v in jsonable(case).items() if k not in ("init", "expect_syms")})
    print("implementation:", {k: v for k, v in obs.items() if k != "final"})
    try:
        ck = common.Check("C20")
        print("model:", ck.model_eval("C20.Corr", "model_out %s" % coq_case(case, obs)))
        print("model agrees with implementation:", ck.model_eval("C20.Corr", "check_case %s" % coq_case(case, obs)))
        ck.clean_cases()
    except Exception as e:  # noqa
        print("model evaluation unavailable:", e)
    for key, why in whys:
        print("oracle:", why)
    if not whys:
        print("oracle: property holds on this case")
    return 1 if whys else 0
