"""C17 — stored measurement data reads back equal and is never silently overwritten.  (PARTIAL claim)

What is proved (coq/theories/C17) is about an executable model of the *logic* in
qmi/data/dataset.py, datastore.py and hdf5recorder.py; h5py, numpy (savetxt / loadtxt / reshape /
tile / repeat), float()/repr(float), text-file encoding and the operating system are not modelled.
This harness ties the model to the real code and exercises the unmodelled libraries:

H1 (direct calls of the real functions of $QMI_REPO, scratch data store under /var/tmp):
  * chains   generated datasets (2-4 axes, float64/int64/int32/float32, label / unit strings with
             spaces, quotes, '#', ':', backslashes, control and non-ASCII characters, axis scales,
             str / int / float attributes) written with DataFolder.write_dataset and read with
             DataFolder.read_dataset through the chains hdf5, text, hdf5>text, text>hdf5,
             hdf5>text>hdf5.  ORACLE: name, shape, values, timestamp, labels, units, scales and
             attributes of what is read equal those of what was first written.
  * header   every header line of every text file written, and the value the real
             _parse_attribute_value returns for it, against the model (py_repr / header_line /
             parse_line / parse_attr); plus _parse_attribute_value on damaged and hand-written texts.
  * names    every numbered name the real writer produces (QMI_DataSet_axisN_size/_label/_unit,
             QMI_DataSet_columnN_label/_unit, the special-column labels axisN_index / axisN_scale) against the
             model's decimal rendering, from a FIXED bucket of datasets with 10-13 (once 35) outer axes and
             12-103 columns (N crosses 9/10 and 99/100), sent through all five chains; the real reader's
             recogniser of special columns observed from outside with probe files (which axis is verified /
             gets the scale) for every axis of a 12-axis file, out-of-range numbers and near-miss labels,
             against parse_special.  ORACLE: a special column carrying the writer's own label for axis n is
             taken as the index / scale column of axis n.
  * layout   text files of tagged arrays of every outer shape with 1-3 axes of size 1-4: index
             columns, row order and scale columns against index_column / all_idx / scale_column /
             extract_scale.
  * store    histories of make_folder / write_dataset (with and without overwrite) / make_hdf5file
             / find_latest_folder / list_folders with explicit date and time strings, interleaved
             with foreign directory entries, against the model file system.  ORACLE: a returned folder
             did not exist before, no existing entry changes except the target of an overwrite=True
             write, the latest folder is the one with the greatest (date, time).
H3 (dsched): 2-3 DataStore objects on one base directory in threads, make_folder with the same label / date / time
  (and controls), every source line of make_folder a switch point.  ORACLE: exactly one caller per path gets the
  folder, it is empty when handed out, every other caller gets FileExistsError.
H3 (dsched): the real HDF5Recorder (real h5py inside the managed recorder thread) with 1-3 recording
  threads, virtual write interval, switch points at every synchronisation operation and — in
  half of the runs — at every source line of run() / record() / set_attribute().  The
  linearisation (order of lock acquisitions, the swap and the end of each write phase) is
  recorded and must be a run of the Coq recorder model ending in the observed file.  ORACLE: per
  dataset the file holds exactly the recorded blocks — AS THEY WERE PASSED: the recording threads refill one
  preallocated buffer in place, pass slices / strided / read-only views of arrays they overwrite afterwards, and
  lists they empty afterwards, directly after record() returned or after a scheduling point — in linearisation order; each existing
  dataset carries the last value set for each attribute.
"""
import io
import itertools
import os
import re
import shutil

import dsched
from common import cZ, cN, cnat, cbool, clist, ccodepoints, copt

THEORY = "C17"

KEY_NP = "text-header:numpy-scalar-repr"
KEY_U = "text-attr:U-escape-not-parsed"


# =========================================================================================
# Coq term printers
# =========================================================================================
def cstr(s):
    return ccodepoints(s)


def cpath(p):
    return clist([cstr(x) for x in p])


def cnatlist(l):
    return clist([cnat(x) for x in l])


def czlist(l):
    return clist([cZ(x) for x in l])


def printable_table(s):
    return sorted({ord(ch) for ch in s if ord(ch) >= 127 and ch.isprintable()})


def canon_value(v):
    """Python-level value of an attribute: ('s', str) | ('i', int) | ('f', float) | None."""
    import numpy as np
    if isinstance(v, (bool, np.bool_)):
        return None
    if isinstance(v, str):
        return ("s", str(v))
    if isinstance(v, (int, np.integer)):
        return ("i", int(v))
    if isinstance(v, (float, np.floating)):
        return ("f", float(v))
    return None


def cattr(cv):
    k, v = cv
    if k == "s":
        return "(AStr %s)" % cstr(v)
    if k == "i":
        return "(AInt %s)" % cZ(v)
    return "(AFloat %s)" % cstr(float.__repr__(v))


def parse_impl(text):
    """the real _parse_attribute_value, canonicalised"""
    from qmi.data.dataset import _parse_attribute_value
    try:
        r = _parse_attribute_value(text)
    except (ValueError, OverflowError):
        # a refusal: chr() of an escape beyond the C int range raises OverflowError instead of ValueError; such text
        # is never produced by repr() and the property says nothing about the class of the refusal
        return ("err",)
    except Exception as e:  # noqa
        return ("weird", type(e).__name__)
    if isinstance(r, bool):
        return ("bool", r)
    if isinstance(r, str):
        return ("str", r)
    if isinstance(r, int):
        return ("int", r)
    if isinstance(r, float):
        return ("float",)
    return ("weird", type(r).__name__)


def cres(r):
    if r[0] == "err":
        return "RErr"
    if r[0] == "bool":
        return "(RBool %s)" % cbool(r[1])
    if r[0] == "str":
        return "(RStr %s)" % cstr(r[1])
    if r[0] == "int":
        return "(RInt %s)" % cZ(r[1])
    if r[0] == "float":
        return "RFloat"
    return "(RStr [1114111%N; 1114111%N; 1114111%N])"   # 'weird': matches no model result of these cases


def float_ok(text):
    try:
        float(text)
        return True
    except ValueError:
        return False


# =========================================================================================
# generators: strings, datasets
# =========================================================================================
PLAIN = "abcXYZ019 _-.,()/+*=<>[]{}|~^%$&!?@"
TRICKY = ["'", '"', "#", ":", "\\", " ", "  ", "\\n", "\\x41", "\\u0041", "\\U0001f600", "\\'", "\\\\"]
NONASCII = ["é", "ü", "µ", "Ω", "ß", "日本", "😀", "𝔘", "\xa0", "　", "ı"]
NONPRINT = ["\t", "\n", "\r", "\x01", "\x1b", "\x7f", "\x80", "\x85", "\xad", "​", " ", "﻿", "￿"]
ASTRAL_NP = ["\U000e0001", "\U0010ffff", "\U000f0000"]     # non-printable beyond the BMP
TEXT_ONLY = ["\x00", "\ud800", "\udfff"]                       # not storable as HDF5 strings


def gen_string(rng, allow_astral_np, text_only, maxlen=10):
    kind = rng.random()
    if kind < 0.12:
        return ""
    n = rng.randint(1, maxlen)
    out = []
    for _ in range(n):
        r = rng.random()
        if r < 0.45:
            out.append(rng.choice(PLAIN))
        elif r < 0.65:
            out.append(rng.choice(TRICKY))
        elif r < 0.82:
            out.append(rng.choice(NONASCII))
        elif r < 0.96:
            out.append(rng.choice(NONPRINT))
        elif allow_astral_np:
            out.append(rng.choice(ASTRAL_NP))
        if text_only and rng.random() < 0.08:
            out.append(rng.choice(TEXT_ONLY))
    return "".join(out)


NAME_CHARS = "abcdefghijklmnopqrstuvwxyzABCDEFGHIJKLMNOPQRSTUVWXYZ0123456789-_(),"


def gen_attr_name(rng):
    pool = "abcXYZ012 _-.#/'\"\\()[]éµ日"
    while True:
        n = rng.randint(1, 8)
        s = "".join(rng.choice(pool) for _ in range(n))
        if s.startswith("QMI_DataSet") or s.startswith("DIMENSION_") or not s.strip():
            continue
        return s


def gen_float(rng):
    r = rng.random()
    if r < 0.15:
        return rng.choice([0.0, -0.0, 1.0, -1.0, 0.5, 1e-5, 1e16, 1e22, 1e-300, 1.7976931348623157e308,
                           5e-324, 2.2250738585072014e-308, 0.1, 1 / 3, 123456789.125, float(2 ** 53)])
    if r < 0.55:
        return rng.uniform(-1000, 1000)
    if r < 0.8:
        return rng.uniform(-1, 1) * 10.0 ** rng.randint(-300, 300)
    return float(rng.randint(-10 ** 6, 10 ** 6))


def gen_dataset(rng, idx, allow_astral_np):
    """Returns (spec dict, DataSet)."""
    import numpy as np
    from qmi.data.dataset import DataSet
    text_only = rng.random() < 0.15            # may hold values HDF5 cannot store (NUL, surrogates, huge ints)
    hdf5_only = (not text_only) and rng.random() < 0.1   # int64 beyond 2**53: not representable in the text format
    ndim = rng.choice([2, 2, 3, 3, 4])
    shape = tuple(rng.randint(1, 4) for _ in range(ndim))
    if rng.random() < 0.08:                   # more axes, small sizes
        ndim = rng.randint(5, 12)
        shape = tuple(rng.choice([1, 1, 1, 2]) for _ in range(ndim - 1)) + (rng.randint(1, 3),)
    dtype = rng.choice(["float64", "float64", "int64", "int32", "float32"])
    if hdf5_only:
        dtype = "int64"
    n = 1
    for d in shape:
        n *= d
    if dtype == "float64":
        vals = [gen_float(rng) for _ in range(n)]
    elif dtype == "float32":
        vals = [float(np.float32(rng.uniform(-1e3, 1e3))) for _ in range(n)]
    elif dtype == "int32":
        vals = [rng.choice([0, 1, -1, 2 ** 31 - 1, -2 ** 31, rng.randint(-10 ** 6, 10 ** 6)]) for _ in range(n)]
    elif hdf5_only:
        vals = [rng.choice([2 ** 63 - 1, -2 ** 63, 2 ** 53 + 1, -2 ** 53 - 1, rng.randint(-2 ** 63, 2 ** 63 - 1)]) for _ in range(n)]
    else:
        vals = [rng.choice([0, 2 ** 53, -2 ** 53, 2 ** 53 - 1, rng.randint(-2 ** 53, 2 ** 53), rng.randint(-99, 99)]) for _ in range(n)]
    data = np.array(vals, dtype=dtype).reshape(shape)
    name = "".join(rng.choice(NAME_CHARS) for _ in range(rng.randint(1, 8)))
    ds = DataSet(name, data=data)
    ds.timestamp = rng.choice([0.0, 1.0, 1234567.25, rng.uniform(0, 2e9), float(rng.randint(0, 2 * 10 ** 9))])

    def S():
        return gen_string(rng, allow_astral_np, text_only)
    for ax in range(ndim - 1):
        if rng.random() < 0.6:
            ds.set_axis_label(ax, S())
        if rng.random() < 0.5:
            ds.set_axis_unit(ax, S())
        if rng.random() < 0.4:
            k = rng.random()
            if k < 0.4:
                sc = np.array([gen_float(rng) for _ in range(shape[ax])], dtype=np.float64)
            elif k < 0.7:
                sc = np.arange(shape[ax]) * rng.randint(1, 5) + rng.randint(-3, 3)
            else:
                sc = np.linspace(rng.uniform(-5, 5), rng.uniform(5, 50), shape[ax])
            ds.set_axis_scale(ax, sc)
    for c in range(shape[-1]):
        if rng.random() < 0.6:
            ds.set_column_label(c, S())
        if rng.random() < 0.5:
            ds.set_column_unit(c, S())
    for _ in range(rng.randint(0, 4)):
        an = gen_attr_name(rng)
        k = rng.random()
        if k < 0.45:
            ds.attrs[an] = S()
        elif k < 0.75:
            big = [10 ** 30, -10 ** 25, 2 ** 64] if text_only else []
            ds.attrs[an] = rng.choice([0, 1, -1, 7, 2 ** 31, -2 ** 31, 2 ** 63 - 1, -2 ** 63, rng.randint(-10 ** 9, 10 ** 9)] + big)
        else:
            ds.attrs[an] = rng.choice([gen_float(rng), gen_float(rng), float("inf"), float("-inf")])
    spec = {"idx": idx, "text_only": text_only, "hdf5_only": hdf5_only, "dtype": dtype, "shape": list(shape)}
    return spec, ds


def describe(ds):
    """canonical, JSON-able description of a DataSet (for oracle messages / replays)"""
    return {
        "name": ds.name, "shape": list(ds.data.shape), "dtype": str(ds.data.dtype),
        "data": [v.hex() if isinstance(v, float) else v for v in ds.data.reshape(-1).tolist()],
        "timestamp": float(ds.timestamp).hex(),
        "axis_label": list(ds.axis_label), "axis_unit": list(ds.axis_unit),
        "axis_scale": [None if s is None else [float(x).hex() for x in list(s)] for s in ds.axis_scale],
        "column_label": list(ds.column_label), "column_unit": list(ds.column_unit),
        "attrs": [[k] + ([canon_value(v)[0], float(v).hex() if canon_value(v)[0] == "f" else canon_value(v)[1]]
                         if canon_value(v) else ["?", repr(v)]) for k, v in ds.attrs.items()],
    }


def rebuild(desc):
    import numpy as np
    from qmi.data.dataset import DataSet
    vals = [float.fromhex(v) if isinstance(v, str) else v for v in desc["data"]]
    ds = DataSet(desc["name"], data=np.array(vals, dtype=desc["dtype"]).reshape(desc["shape"]))
    ds.timestamp = float.fromhex(desc["timestamp"])
    ds.axis_label = list(desc["axis_label"])
    ds.axis_unit = list(desc["axis_unit"])
    ds.axis_scale = [None if s is None else np.array([float.fromhex(x) for x in s]) for s in desc["axis_scale"]]
    ds.column_label = list(desc["column_label"])
    ds.column_unit = list(desc["column_unit"])
    ds.attrs = {k: (float.fromhex(v) if kind == "f" else v) for k, kind, v in desc["attrs"]}
    return ds


def same_dataset(a, b):
    """ORACLE: b (read back) equals a (written).  Returns None or (field, message)."""
    import numpy as np
    if a.name != b.name:
        return "name", "name %r read back as %r" % (a.name, b.name)
    if tuple(a.data.shape) != tuple(b.data.shape):
        return "shape", "shape %r read back as %r" % (a.data.shape, b.data.shape)
    if not np.array_equal(a.data, b.data):
        return "values", "values differ"
    if not (float(a.timestamp) == float(b.timestamp)):
        return "timestamp", "timestamp %r read back as %r" % (a.timestamp, b.timestamp)
    for f in ("axis_label", "axis_unit", "column_label", "column_unit"):
        x, y = list(getattr(a, f)), list(getattr(b, f))
        if len(x) != len(y) or any(not isinstance(q, str) or p != q for p, q in zip(x, y)):
            return f, "%s %s read back as %s" % (f, ascii(x), ascii(y))
    for ax, (p, q) in enumerate(zip(a.axis_scale, b.axis_scale)):
        if (p is None) != (q is None):
            return "axis_scale", "axis %d scale %r read back as %r" % (ax, p, q)
        if p is not None and not np.array_equal(np.asarray(p), np.asarray(q)):
            return "axis_scale", "axis %d scale values differ" % ax
    if set(a.attrs) != set(b.attrs):
        return "attrs", "attribute names %s read back as %s" % (ascii(sorted(a.attrs)), ascii(sorted(b.attrs)))
    for k in a.attrs:
        p, q = canon_value(a.attrs[k]), canon_value(b.attrs[k])
        if p is None or q is None or p[0] != q[0] or not (p[1] == q[1]):
            return "attrs", "attribute %s = %s read back as %s" % (ascii(k), ascii(a.attrs[k]), ascii(b.attrs[k]))
    return None


def has_astral_np(ds):
    strs = list(ds.axis_label) + list(ds.axis_unit) + list(ds.column_label) + list(ds.column_unit) + \
        [v for v in ds.attrs.values() if isinstance(v, str)]
    return any(ord(ch) >= 0x10000 and not ch.isprintable() for s in strs for ch in s)


CHAINS = [("hdf5",), ("text",), ("hdf5", "text"), ("text", "hdf5"), ("hdf5", "text", "hdf5")]


def header_of(path):
    """[(line without newline)] of the attribute part of a text dataset file"""
    out = []
    with open(path, "rt", newline="\n") as f:
        lines = f.read().split("\n")
    if len(lines) < 2 or lines[0] != "# QMI_DataSet" or lines[1] != "#":
        return None
    for ln in lines[2:]:
        if ln == "#":
            return out
        out.append(ln)
    return None


def expected_header(ds):
    """(name, Python-level value, tag) of every header line write_dataset_to_text has to produce, in
    order — restated from the file format, independent of the implementation.  tag = None or
    (scheme, n) when the NAME carries the axis / column number n, plus, for the label of a special
    column, (scheme, n, value-scheme, m): the VALUE is the numbered label axis<m>_index / _scale."""
    import time as _t
    nd = len(ds.data.shape)
    out = [("QMI_DataSet_name", ds.name, None), ("QMI_DataSet_timestamp", ds.timestamp, None),
           ("QMI_DataSet_time_str", _t.strftime("%Y-%m-%dT%H:%M:%S", _t.gmtime(float(ds.timestamp))), None),
           ("QMI_DataSet_ndim", nd, None), ("QMI_DataSet_ncol", ds.data.shape[-1], None)]
    for ax in range(nd - 1):
        out.append(("QMI_DataSet_axis%d_size" % ax, ds.data.shape[ax], ("NAxisSize", ax)))
        if ds.axis_label[ax]:
            out.append(("QMI_DataSet_axis%d_label" % ax, ds.axis_label[ax], ("NAxisLabel", ax)))
        if ds.axis_unit[ax]:
            out.append(("QMI_DataSet_axis%d_unit" % ax, ds.axis_unit[ax], ("NAxisUnit", ax)))
    lab, unit, special = [], [], []
    if nd > 2:
        for ax in range(nd - 1):
            lab.append("axis%d_index" % ax)
            unit.append("")
            special.append(("NIndex", ax))
    for ax in range(nd - 1):
        if ds.axis_scale[ax] is not None:
            lab.append("axis%d_scale" % ax)
            unit.append(ds.axis_unit[ax])
            special.append(("NScale", ax))
    lab += list(ds.column_label)
    unit += list(ds.column_unit)
    for c in range(len(lab)):
        if lab[c]:
            out.append(("QMI_DataSet_column%d_label" % c, lab[c], ("NColLabel", c) + (special[c] if c < len(special) else ())))
        if unit[c]:
            out.append(("QMI_DataSet_column%d_unit" % c, unit[c], ("NColUnit", c)))
    for k, v in ds.attrs.items():
        out.append((k, v, None))
    return out


# =========================================================================================
# H1: chains + header lines
# =========================================================================================
class Ctx:
    def __init__(self, ck):
        self.ck = ck
        self.terms = []      # Coq case terms
        self.metas = []      # replay info per term
        self.seen_attr = set()
        self.seen_name = set()
        self.seen_text = set()

    def add(self, term, meta):
        self.terms.append(term)
        self.metas.append(meta)


def run_chain(store, chain, ds0, tag, keep=None):
    """Write/read ds0 through the chain.  Returns (final dataset or None, error or None, text files written
    [(path, dataset written)])."""
    texts = []
    cur = ds0
    for step, fmt in enumerate(chain):
        folder = store.make_folder("c%s_%d" % (tag, step), date_str="20240101", time_str="%06d" % step)
        try:
            folder.write_dataset(cur, fmt)
        except Exception as e:  # noqa
            return None, "write(%s) raised %s: %s" % (fmt, type(e).__name__, str(e)[:120]), texts
        if fmt == "text":
            texts.append((os.path.join(folder.folder_path, cur.name + ".dat"), cur))
        try:
            cur = folder.read_dataset(ds0.name)
        except Exception as e:  # noqa
            return None, "read(%s) raised %s: %s" % (fmt, type(e).__name__, str(e)[:120]), texts
    return cur, None, texts


def np_scalar_lines(path):
    hdr = header_of(path) or []
    return [ln for ln in hdr if re.search(r":\s*np\.[a-z0-9]+\(", ln)]


def fixed_datasets(rng):
    """FIXED bucket (every run): high-rank shapes (10-13 outer axes, beyond HDF5's rank limit once), wide
    datasets (column numbers 9/10/11 and 99/100/101), attribute names with digits — every place where
    an axis or column number is rendered into a name crosses a digit-count boundary."""
    import numpy as np
    from qmi.data.dataset import DataSet
    out = []

    def mk(name, shape, scale_axes, lab_axes, lab_cols, text_only=False, extra_attrs=()):
        n = int(np.prod(shape))
        data = (np.arange(n, dtype=np.float64) * 0.5 - 3.25).reshape(shape)
        ds = DataSet(name, data=data)
        ds.timestamp = 1600000000.25
        for ax in lab_axes:
            ds.set_axis_label(ax, "ax %d" % ax)
            ds.set_axis_unit(ax, "u%d" % ax)
        for ax in scale_axes:
            ds.set_axis_scale(ax, 0.5 + 1.25 * np.arange(shape[ax]) + ax)
        for c in lab_cols:
            ds.set_column_label(c, "c%d" % c)
            ds.set_column_unit(c, "V%d" % c)
        for k, v in extra_attrs:
            ds.attrs[k] = v
        spec = {"idx": name, "text_only": text_only, "hdf5_only": False, "dtype": "float64", "shape": list(shape),
                "fixed": True}
        out.append((spec, ds))

    for nouter in (10, 11, 12, 13):
        hi = list(range(8, nouter))
        # A: sizes > 1 at the first and the last outer axis
        sh = [1] * nouter
        sh[0], sh[nouter - 1] = 2, 3
        mk("hiA%d" % nouter, tuple(sh) + (2,), [0] + hi, [0] + hi, [0, 1])
        # B: sizes > 1 at axis 9 and at the highest of 10 / 11 that exists
        sh = [1] * nouter
        sh[9] = 2
        if nouter > 10:
            sh[min(11, nouter - 1)] = 3
        mk("hiB%d" % nouter, tuple(sh) + (1,), hi, hi, [0])
        # C: scale only on one high axis of size 1, nothing else
        mk("hiC%d" % nouter, (1,) * nouter + (2,), [nouter - 1], [], [])
    sh = [1] * 35
    sh[34], sh[10] = 2, 2
    mk("hi35", tuple(sh) + (1,), [9, 10, 11, 33, 34], [9, 10, 11, 34], [0], text_only=True)
    digit_attrs = [("a10", 1), ("9", "nine"), ("x9_11", 2.5), ("col10", "c"), ("axis10_scale", "user attribute"),
                   ("column10_label", 7), ("100", 100)]
    mk("wide13", (2, 13), [0], [0], [0, 8, 9, 10, 11, 12], extra_attrs=digit_attrs)
    mk("wide12s", (2, 2, 12), [0, 1], [0, 1], [5, 6, 7, 8, 9, 10, 11])     # 4 special columns: user column 6 is column 10
    mk("wide103", (1, 103), [0], [], [0, 9, 10, 98, 99, 100, 101, 102])
    mk("wide101s", (2, 3, 101), [1], [1], [0, 6, 7, 96, 97, 98, 100])       # 3 special columns
    return out


def chain_one(cx, base, i, spec, ds0):
    from qmi.data.datastore import DataStore
    ck = cx.ck
    if True:
        ck.count("dataset:ndim=%s" % (len(spec["shape"]) if len(spec["shape"]) < 10 else "10+"))
        ck.count("dataset:dtype=" + spec["dtype"])
        ck.count("dataset:" + ("text_only" if spec["text_only"] else "hdf5_only" if spec["hdf5_only"] else "both"))
        if spec.get("fixed"):
            ck.count("dataset:fixed-bucket")
        chains = [("text",)] if spec["text_only"] else [("hdf5",)] if spec["hdf5_only"] else CHAINS
        sdir = os.path.join(base, "s%s" % i)
        os.mkdir(sdir)
        store = DataStore(sdir)
        for ci, chain in enumerate(chains):
            cname = ">".join(chain)
            ck.count("chain:" + cname)
            got, err, texts = run_chain(store, chain, ds0, "%d" % ci)
            nontrivial = bool(ds0.attrs) or any(ds0.axis_label) or any(s is not None for s in ds0.axis_scale)
            ck.note_case(("chain", cname, describe(ds0)), nontrivial)
            bad = None
            if err:
                bad = ("error", err)
            else:
                d = same_dataset(ds0, got)
                if d:
                    bad = d
            npl = [ln for p, _ in texts for ln in np_scalar_lines(p)]
            if bad:
                if npl:
                    key = KEY_NP
                    what = ("a dataset read from HDF5 and written as text gets header lines that are the repr of "
                            "numpy scalars, e.g. %s; %s" % (ascii(npl[0]), bad[1]))
                elif "text" in chain and has_astral_np(ds0) and bad[0] in (
                        "attrs", "axis_label", "axis_unit", "column_label", "column_unit"):
                    key = KEY_U
                    what = "a string with a non-printable character beyond U+FFFF is not read back from text: " + bad[1]
                else:
                    key = "chain:%s:%s" % (cname, bad[0])
                    what = "chain %s, dataset of shape %r: %s" % (cname, tuple(ds0.data.shape), bad[1])
                ck.report(key, "C17 fails on the implementation: " + what,
                          {"kind": "chain", "chain": list(chain), "dataset": describe(ds0)})
            elif npl:
                ck.report(KEY_NP + ":harmless?", "numpy-scalar repr in a header line although the chain read back equal: %s" % ascii(npl[0]),
                          {"kind": "chain", "chain": list(chain), "dataset": describe(ds0)})
            # header lines of every text file written
            for path, written in texts:
                header_cases(cx, path, written, {"kind": "chain", "chain": list(chain), "dataset": describe(ds0)})
        shutil.rmtree(sdir, ignore_errors=True)


def do_chains(cx, nds):
    ck = cx.ck
    rng = ck.rng
    base = os.path.join(ck.scratch_dir(), "chains")
    os.makedirs(base, exist_ok=True)
    for spec, ds0 in fixed_datasets(rng):
        chain_one(cx, base, "f_" + spec["idx"], spec, ds0)
    for i in range(nds):
        spec, ds0 = gen_dataset(rng, i, allow_astral_np=(rng.random() < 0.12))
        chain_one(cx, base, i, spec, ds0)


def header_cases(cx, path, written, replay):
    """Compare every header line with the model (cases for Coq) — lines that are numpy-scalar reprs are
    reported by the chain oracle and not sent to the model."""
    ck = cx.ck
    hdr = header_of(path)
    exp = expected_header(written)
    if hdr is None or len(hdr) != len(exp):
        ck.report("header:shape", "text file header has %s lines, the format prescribes %d" % (
            None if hdr is None else len(hdr), len(exp)), replay)
        return
    for line, (name, val, tag) in zip(hdr, exp):
        cv = canon_value(val)
        if cv is None:
            continue
        p = line.find(":")
        text = line[p + 1:].strip() if p >= 0 else ""
        if tag is not None:
            name_cases(cx, tag, line[2:p] if p >= 2 else line, text, replay)
        if re.match(r"^np\.[a-z0-9]+\(", text):
            continue
        k = (name if (not name.startswith("QMI_DataSet") or re.search(r"[0-9]{2}", name)) else "Q", cv[0], repr(cv[1]))
        if k in cx.seen_attr:
            continue
        cx.seen_attr.add(k)
        parsed = parse_impl(text)
        tbl = printable_table(cv[1]) if cv[0] == "s" else []
        ck.count("header-line:" + cv[0])
        ck.note_case(("attr", name, cv), cv[0] == "s" and any(not (32 <= ord(c) < 127) or c in "'\"\\" for c in cv[1]))
        cx.add("(CAttr %s %s %s %s %s)" % (clist([cN(x) for x in tbl]), cstr(name), cattr(cv), cstr(line), cres(parsed)),
               {"kind": "attr", "name": name, "value": list(cv) if cv[0] != "f" else ["f", cv[1].hex()], "line": line,
                "parsed": list(parsed), "from": replay})
        cx.seen_text.add(text)


def name_cases(cx, tag, impl_name, impl_text, replay):
    """the numbered NAME the real writer produced (and, for special columns, the numbered label it
    wrote as the value) against the model's rendering — one case per (scheme, number)"""
    ck = cx.ck
    todo = [(tag[0], tag[1], impl_name)]
    if len(tag) == 4:
        r = parse_impl(impl_text)
        todo.append((tag[2], tag[3], r[1] if r[0] == "str" else "<" + impl_text + ">"))
    for scheme, n, got in todo:
        if (scheme, n) in cx.seen_name:
            continue
        cx.seen_name.add((scheme, n))
        ck.count("name:%s:%s" % (scheme, "0-9" if n < 10 else "10-99" if n < 100 else "100+"))
        ck.note_case(("name", scheme, n), n >= 10)
        cx.add("(CName %s %s %s)" % (scheme, cnat(n), cstr(got)),
               {"kind": "name", "scheme": scheme, "n": n, "impl_name": got, "from": replay})


HAND_TEXTS = ["", "+", "-", "--1", "+5", "-0", "007", "1_0", " 1", "1 ", "١٢", "0x10", "1e5", "True", "False", "true",
              "'a", "a'", "'a'b'", "'a\\'", "'\\'", "'a\\q'", "'\\101\\7\\18'", "'\\x4g'", "'\\u12'", "x'a'", "'''",
              "''", "'", '"', '""', "'\\777'", "nan", "infinity", "1_0.0", "'\\N{DASH}'", "'\\U0001f600'", "'\\U000e0001'",
              "'\\xe9\\u20ac'", "'\\\\n'", "'\\\\\\n'", "\"it's\"", "'say \"x\"'", "'\\a\\b\\f\\v'", "12\n", "\n", "'a\nb'",
              "'\\\n'", "1.5", "-1e-5", "inf", "-inf", "1e400", ".", "e5", "1e", "0b1", "1j", "None", "np.float64(1.5)",
              "'\\08'", "'\\400'", "'\\x41\\X41'", "'\\uD800'", "'\\u00e9x'", "'\\U0001F600'", "'\\U0001f60'", "'\\U0001f60g0'",
              "'Z\\Ub000e0001\\\\x41~\\uff:f'", "'\\U00110000'", "'\\Uffffffff'"]


def do_parse_cases(cx, nrand):
    ck = cx.ck
    rng = ck.rng
    texts = list(HAND_TEXTS)
    pool = sorted(cx.seen_text)
    alphabet = "'\"\\0178xuUabfnrtveE+-. :#9A"
    for _ in range(nrand):
        if pool and rng.random() < 0.7:
            t = list(rng.choice(pool))
        else:
            t = list(repr(gen_string(rng, True, True)))
        for _ in range(rng.randint(1, 3)):
            op = rng.random()
            pos = rng.randint(0, len(t))
            if op < 0.4 and t:
                del t[min(pos, len(t) - 1)]
            elif op < 0.8:
                t.insert(pos, rng.choice(alphabet))
            elif t:
                t[min(pos, len(t) - 1)] = rng.choice(alphabet)
        texts.append("".join(t))
    seen = set()
    for t in texts:
        if t in seen or len(t) > 200:
            continue
        seen.add(t)
        r = parse_impl(t)
        ck.count("parse-text:" + r[0])
        ck.note_case(("parse", t), r[0] != "err")
        if r[0] == "weird":
            ck.report("parse:unexpected-exception", "_parse_attribute_value(%s) raised %s" % (ascii(t), r[1]),
                      {"kind": "parse", "text": t})
        cx.add("(CParse %s %s %s)" % (cbool(float_ok(t)), cstr(t), cres(r)), {"kind": "parse", "text": t, "parsed": list(r)})


# =========================================================================================
# H1: layout
# =========================================================================================
def do_layout(cx):
    import numpy as np
    from qmi.data.dataset import DataSet, write_dataset_to_text, read_dataset_from_text
    ck = cx.ck
    rng = ck.rng
    maxd = 4 if ck.tier == "quick" else 5
    shapes = []
    for nax in (1, 2, 3):
        shapes += list(itertools.product(range(1, maxd + 1), repeat=nax))
    for nouter in (10, 11, 12, 13):           # high rank: mostly size 1, sizes 2-3 at varying (incl. high) positions
        for pos in ((0, nouter - 1), (9, min(10, nouter - 1)), (nouter - 2, nouter - 1)):
            sh = [1] * nouter
            sh[pos[0]] = 2
            sh[pos[1]] = 3 if pos[1] != pos[0] else 2
            shapes.append(tuple(sh))
    for sh in shapes:
        ncol = rng.randint(1, 3)
        data = np.zeros(tuple(sh) + (ncol,), dtype=np.float64)
        for ix in itertools.product(*[range(n) for n in sh]):
            tag = 0
            for v in ix:
                tag = tag * 10 + v
            data[ix + (0,)] = tag
            for c in range(1, ncol):
                data[ix + (c,)] = tag + c / 4.0
        ds = DataSet("lay", data=data)
        scales = {}
        for ax in range(len(sh)):
            if rng.random() < 0.5 or (len(sh) >= 10 and ax >= 9):
                scales[ax] = [rng.randint(-50, 50) for _ in range(sh[ax])]
                ds.set_axis_scale(ax, np.array(scales[ax], dtype=np.float64))
        replay = {"kind": "layout", "shape": list(sh), "ncol": ncol, "scales": {str(k): v for k, v in scales.items()}}
        buf = io.StringIO()
        try:
            write_dataset_to_text(ds, buf)
            txt = buf.getvalue()
            raw = np.loadtxt(io.StringIO(txt), ndmin=2)
        except Exception as e:  # noqa
            ck.report("layout:write-error", "C17 fails on the implementation: a dataset of shape %r%s cannot be written as text: %s: %s" % (
                tuple(sh) + (ncol,), " with axis scales" if scales else "", type(e).__name__, str(e)[:150]), replay)
            continue
        nspecial = raw.shape[1] - ncol
        nidx = len(sh) if len(sh) > 1 else 0
        ok = nspecial == nidx + len(scales) and raw.shape[0] == int(np.prod(sh))
        back = None
        try:
            back = read_dataset_from_text(io.StringIO(txt))
        except Exception as e:  # noqa
            ck.report("layout:read-error", "text file of shape %r not read back: %s" % (sh, e), replay)
            ok = False
        if back is not None and (not np.array_equal(back.data, data)):
            ck.report("layout:values", "array of shape %r read back with values moved" % (sh,), replay)
        if not ok:
            ck.report("layout:columns", "text file of shape %r has %d special columns / %d rows" % (sh, nspecial, raw.shape[0]), replay)
            continue
        idxcols = [[int(x) for x in raw[:, k]] for k in range(nidx)]
        rows = []
        for r in range(raw.shape[0]):
            tag = int(raw[r, nspecial])
            ix = []
            for _ in sh:
                ix.append(tag % 10)
                tag //= 10
            rows.append(list(reversed(ix)))
        sc_terms = []
        for j, ax in enumerate(sorted(scales)):
            col = [int(x) for x in raw[:, nidx + j]]
            rsc = [int(x) for x in back.axis_scale[ax]] if back is not None and back.axis_scale[ax] is not None else []
            if rsc != scales[ax]:
                ck.report("layout:scale", "axis scale %r read back as %r" % (scales[ax], rsc), replay)
            sc_terms.append("(%s, %s, %s)" % (cnat(ax), czlist(rsc), czlist(col)))
        # independent oracle on the index columns: column k of row r is the k-th coordinate of the row's tag
        for k in range(nidx):
            if idxcols[k] != [rw[k] for rw in rows]:
                ck.report("layout:index-column", "index column %d of shape %r does not label the rows" % (k, sh), replay)
        ck.count("layout:axes=%s" % (len(sh) if len(sh) < 10 else "10+"))
        ck.note_case(("layout", sh, sorted(scales)), len(sh) > 1)
        if len(sh) == 1:
            # two-axis dataset: the writer emits no index column; the model's single index column is compared
            # with the row tags instead
            idxcols = [[rw[0] for rw in rows]]
        cx.add("(CLayout %s %s %s %s)" % (cnatlist(sh), clist([cnatlist(c) for c in idxcols]),
                                           clist([cnatlist(r) for r in rows]), clist(sc_terms)), replay)


# =========================================================================================
# H1: the reader's recogniser of special columns (axisN_index / axisN_scale)
# =========================================================================================
def special_file(nax, label, sizes, col):
    """text of a dataset file with nax outer axes of the given sizes, one data column and ONE special
    column carrying `label` and the values `col`"""
    lines = ["# QMI_DataSet", "#", "# QMI_DataSet_name: 'p'", "# QMI_DataSet_timestamp: 0.0",
             "# QMI_DataSet_ndim: %d" % (nax + 1), "# QMI_DataSet_ncol: 1"]
    for ax in range(nax):
        lines.append("# QMI_DataSet_axis%d_size: %d" % (ax, sizes[ax]))
    lines.append("# QMI_DataSet_column0_label: %r" % label)
    lines.append("#")
    for k, c in enumerate(col):
        lines.append("%r %r" % (float(c), float(k)))
    return "\n".join(lines) + "\n"


def read_special(txt):
    """('ok', [axes with a scale], scale values) | ('err', exception class name)"""
    from qmi.data.dataset import read_dataset_from_text
    try:
        ds = read_dataset_from_text(io.StringIO(txt))
    except Exception as e:  # noqa
        return ("err", type(e).__name__)
    return ("ok", [ax for ax, s in enumerate(ds.axis_scale) if s is not None],
            [[float(x) for x in s] for s in ds.axis_scale if s is not None])


def probe_special(label, nax):
    """How the real read_dataset_from_text treats a special column with this label, found from outside by
    probe files: ('scale', n) | ('index', n) | ('ignored',) | ('error',)."""
    r = read_special(special_file(nax, label, [1] * nax, [5.0]))
    if r[0] == "ok" and len(r[1]) == 1 and r[2] == [[5.0]]:
        return ("scale", r[1][0])
    if r[0] == "ok" and r[1]:
        return ("error",)
    cands, allok = [], r[0] == "ok"
    for n in range(nax):
        sizes = [1] * nax
        sizes[n] = 2
        a = read_special(special_file(nax, label, sizes, [0.0, 1.0]))
        b = read_special(special_file(nax, label, sizes, [0.0, 0.0]))
        if a[0] == "ok" and b[0] == "err":
            cands.append(n)        # verified against the index pattern of axis n (size 2), and only of that axis
        if not (a[0] == "ok" and b[0] == "ok" and not a[1] and not b[1]):
            allok = False
    if len(cands) == 1:
        return ("index", cands[0])
    if not cands and allok:
        return ("ignored",)
    return ("error",)


NEAR_LABELS = ["axis_index", "axis_scale", "axis", "axis1", "axis10index", "axis10_indexx", "axis10_scales", "Axis10_index",
               "xaxis10_scale", "axis1x_index", "axisx_scale", "axis007_index", "axis+7_scale", "axis010_scale", "axis0x1_index",
               "axis1.0_scale", "axis10-index", "axis10_Index", "axis10_unit", "axis10_label", "axis--1_index", "index", "_index",
               "axis10_index_scale", "axis3_scale_index", "c10", ""]


def csobs(o):
    return {"scale": lambda: "(OScale %s)" % cnat(o[1]), "index": lambda: "(OIndex %s)" % cnat(o[1]),
            "ignored": lambda: "OIgnored", "error": lambda: "OError"}[o[0]]()


def do_special(cx):
    ck = cx.ck
    nax = 12
    labels = []
    for n in list(range(nax)) + [nax, nax + 1, 99, 100, 101]:
        labels.append(("axis%d_index" % n, ("index", n)))
        labels.append(("axis%d_scale" % n, ("scale", n)))
    labels += [(l, None) for l in NEAR_LABELS]
    for label, rendered in labels:
        obs = probe_special(label, nax)
        replay = {"kind": "special", "label": label, "nax": nax, "impl_obs": list(obs)}
        ck.count("special:" + obs[0])
        ck.note_case(("special", label), obs[0] in ("scale", "index"))
        # ORACLE (independent of the model): a special column that carries the writer's own label for axis n
        # of the dataset must be taken as the index / scale column of axis n
        if rendered is not None and rendered[1] < nax and obs != rendered:
            ck.report("special-label:%s-axis-not-recognised" % rendered[0],
                      "C17 fails on the implementation: in a text file with %d axes the special column labelled %r is treated as %r "
                      "(a %s column of axis %d is silently not restored / not verified)" % (nax, label, obs, rendered[0], rendered[1]), replay)
        cx.add("(CSpecial %s %s %s)" % (cnat(nax), cstr(label), csobs(obs)), replay)


# =========================================================================================
# H1: store histories
# =========================================================================================
DATES = ["20240101", "20240102", "20231231", "19991231", "20240110"]
BAD_DATES = ["2024011", "2024010a", "202401011", ""]
TIMES = ["000000", "235959", "120000", "120001", "095959"]
BAD_TIMES = ["12000", "12000a", "1200000"]
LABELS = ["lab", "x", "a.b", "lab2", "0_lab", "L-(1,2)"]
BAD_LABELS = ["", "a b", "a/b", "é"]
DSNAMES = ["d1", "d2", "a(1,2)", "Z-_"]
BAD_DSNAMES = ["a b", "", "a.b", "a/b"]
STRAY = ["notes.txt", "2024", "20240101x", "x20240101"]
STRAY_F = ["12000_lab", "120000lab", "120000_", "1200000_lab", "abc", "120000-lab"]

ERRMAP = {"ValueError": "EValue", "FileExistsError": "EExists", "FileNotFoundError": "ENotFound",
          "NotADirectoryError": "ENotDir", "IsADirectoryError": "EIsDir", "QMI_UsageException": "EUsage"}


def err_of(e):
    return ERRMAP.get(type(e).__name__, "weird:" + type(e).__name__)


def gen_store_ops(rng, quirk):
    nl = (lambda s: s + "\n" if quirk and rng.random() < 0.3 else s)
    ops = []
    folders = []      # relative paths (lists) of directories that may hold datasets
    counter = itertools.count(1)
    flabel, fdate = rng.choice(LABELS), rng.choice(DATES)     # most folders of a history share label and date
    for _ in range(rng.randint(3, 14)):
        r = rng.random()
        if r < 0.3:
            d = (fdate if rng.random() < 0.6 else rng.choice(DATES)) if rng.random() < 0.9 else rng.choice(BAD_DATES)
            t = rng.choice(TIMES) if rng.random() < 0.9 else rng.choice(BAD_TIMES)
            l = (flabel if rng.random() < 0.7 else rng.choice(LABELS)) if rng.random() < 0.9 else rng.choice(BAD_LABELS)
            d, t, l = nl(d), nl(t), nl(l)
            ops.append(("mkf", l, d, t))
            folders.append([d, t + "_" + l])
        elif r < 0.6 and folders:
            fo = rng.choice(folders)
            n = rng.choice(DSNAMES) if rng.random() < 0.9 else rng.choice(BAD_DSNAMES)
            f = rng.choice(["hdf5", "text", "hdf5", "text", "csv"])
            ops.append(("write", fo, nl(n), f, rng.random() < 0.3, next(counter)))
        elif r < 0.66 and folders:
            ops.append(("mkh5", rng.choice(folders), rng.choice(DSNAMES + BAD_DSNAMES[:1]), next(counter)))
        elif r < 0.8:
            ops.append(("latest", flabel if rng.random() < 0.7 else rng.choice(LABELS),
                        rng.choice([None, None, None, fdate] + DATES[:3] + ["20300101"])))
        elif r < 0.86:
            ops.append(("list", rng.choice([None] + LABELS[:3])))
        elif r < 0.93:
            d = rng.choice(DATES + STRAY)
            if rng.random() < 0.5:
                ops.append(("mkdir", [d]))
            else:
                f = rng.choice([t + "_" + l for t in TIMES[:3] for l in LABELS[:2]] + STRAY_F)
                ops.append(("mkdir", [d, f]))
                folders.append([d, f])
        else:
            d = rng.choice(DATES + STRAY)
            k = rng.random()
            if k < 0.3:
                ops.append(("touch", [d], next(counter)))
            elif k < 0.7 or not folders:
                ops.append(("touch", [d, rng.choice([t + "_" + l for t in TIMES[:3] for l in LABELS[:2]] + STRAY_F)], next(counter)))
            else:
                ops.append(("touch", rng.choice(folders) + [rng.choice(DSNAMES[:2]) + rng.choice([".h5", ".dat"])], next(counter)))
    return ops


def scan_store(base):
    """{relative path tuple: 'dir' | content id} — how the store looks from outside"""
    import h5py
    import numpy as np  # noqa
    from qmi.data import dataset as D
    out = {}
    for root, dirs, files in os.walk(base):
        rel = tuple(os.path.relpath(root, base).split(os.sep)) if root != base else ()
        for d in dirs:
            out[rel + (d,)] = "dir"
        for f in files:
            p = os.path.join(root, f)
            cid = None
            try:
                with open(p, "rb") as fh:
                    head = fh.read(64)
                if re.match(rb"^touch (\d+)\n$", head):
                    cid = int(head.split()[1])
                elif head.startswith(b"# QMI_DataSet"):
                    with open(p, "rt") as fh:
                        cid = int(D.read_dataset_from_text(fh).data[0, 0])
                else:
                    with h5py.File(p, "r") as h:
                        if "content" in h.attrs:
                            cid = int(h.attrs["content"])
                        else:
                            k = list(h.keys())[0]
                            cid = int(D.read_dataset_from_hdf5(h[k]).data[0, 0])
            except Exception as e:  # noqa
                cid = "unreadable:" + type(e).__name__
            out[rel + (f,)] = cid
    return out


def run_store(base, ops):
    """Execute a history on the real DataStore.  Returns (observations, final scan, oracle failures)."""
    import numpy as np
    from qmi.data.datastore import DataStore, DataFolder
    from qmi.data.dataset import DataSet
    store = DataStore(base)
    obs, fails = [], []
    eff_ops = []
    for op in ops:
        before = scan_store(base)
        kind = op[0]
        allowed = None      # the one path this operation may replace
        try:
            if kind == "mkf":
                _, l, d, t = op
                target = (d, t + "_" + l)
                f = store.make_folder(l, date_str=d, time_str=t)
                rel = tuple(os.path.relpath(f.folder_path, base).split(os.sep))
                o = ("path", list(rel))
                if rel in before:
                    fails.append(("make_folder-returned-existing", "make_folder returned %r which already existed" % (rel,)))
                if not os.path.isdir(f.folder_path):
                    fails.append(("make_folder-missing", "make_folder returned a folder that does not exist"))
                if rel != target:
                    fails.append(("make_folder-wrong-path", "make_folder(%r,%r,%r) returned %r" % (l, d, t, rel)))
            elif kind == "write":
                _, fo, n, fmt, ow, c = op
                full = os.path.join(base, *fo)
                if not os.path.isdir(full):
                    continue     # a DataFolder object cannot exist for it
                folder = DataFolder(full, None, None, None)
                ds = DataSet(n, data=np.full((2, 2), float(c)))
                if ow:
                    allowed = tuple(fo) + (n + (".h5" if fmt == "hdf5" else ".dat"),)
                folder.write_dataset(ds, fmt, overwrite=ow)
                o = ("unit",)
            elif kind == "mkh5":
                _, fo, n, c = op
                full = os.path.join(base, *fo)
                if not os.path.isdir(full):
                    continue
                h = DataFolder(full, None, None, None).make_hdf5file(n)
                h.attrs["content"] = c
                h.close()
                o = ("unit",)
            elif kind == "latest":
                _, l, d = op
                f = store.find_latest_folder(l, d)
                o = ("folder", None if f is None else [f.date_str, f.time_str, os.path.basename(f.folder_path)])
                exp = oracle_latest(before, l, d)
                if exp != "skip" and exp != o[1]:
                    fails.append(("latest", "find_latest_folder(%r, %r) returned %r, the greatest (date, time) with that label is %r" % (l, d, o[1], exp)))
            elif kind == "list":
                _, l = op
                fs = store.list_folders(l)
                o = ("folders", [[f.date_str, f.time_str, os.path.basename(f.folder_path)] for f in fs])
            elif kind == "mkdir":
                os.mkdir(os.path.join(base, *op[1]))
                o = ("unit",)
            elif kind == "touch":
                allowed = tuple(op[1])
                with open(os.path.join(base, *op[1]), "w") as fh:
                    fh.write("touch %d\n" % op[2])
                o = ("unit",)
        except Exception as e:  # noqa
            o = ("err", err_of(e))
        eff_ops.append(op)
        obs.append(o)
        after = scan_store(base)
        if kind in ("mkf", "write", "mkh5", "latest", "list"):
            for p, v in before.items():
                if p != allowed and after.get(p) != v:
                    fails.append(("overwritten", "%s changed existing entry %r from %r to %r" % (kind, p, v, after.get(p))))
    return eff_ops, obs, scan_store(base), fails


def oracle_latest(scan, label, date):
    """greatest (date, time) among directories date/time_label, by numeric comparison; restated from the
    property, independent of the implementation.  'skip' when the listing holds an entry the
    implementation answers with an OSError (a date entry that is a file)."""
    best = None
    for p, v in scan.items():
        if len(p) == 1 and re.fullmatch(r"[0-9]{8}", p[0]) and v != "dir" and (date is None or date == p[0]):
            return "skip"
    if date is not None and scan.get((date,)) != "dir":
        return "skip"
    for p, v in scan.items():
        if len(p) != 2 or v != "dir" or "\n" in p[0] or "\n" in p[1]:
            continue
        if not re.fullmatch(r"[0-9]{8}", p[0]) or (date is not None and p[0] != date):
            continue
        m = re.fullmatch(r"([0-9]{6})_(.+)", p[1])
        if not m or m.group(2) != label:
            continue
        k = (int(p[0]), int(m.group(1)))
        if best is None or k > best[0]:
            best = (k, [p[0], m.group(1), p[1]])
    return None if best is None else best[1]


# histories that once disagreed with the model (kept as regression cases) or that the generator rarely builds
FIXED_HISTORIES = [
    # a date entry that is a file: ENOTDIR from every path below it, not ENOENT
    [("latest", "lab2", "20240101"), ("touch", ["20231231"], 1), ("latest", "x", None), ("latest", "x", "20300101"),
     ("mkf", "x", "20231231", "000000"), ("touch", ["20231231", "000000_x", "d1.dat"], 6), ("mkdir", ["20231231", "000000_x"]),
     ("list", None)],
    # three folders of one label on one date, created out of order; second write with and without overwrite
    [("mkf", "lab", "20240102", "120000"), ("mkf", "lab", "20240102", "235959"), ("mkf", "lab", "20240102", "000000"),
     ("mkf", "lab", "20240101", "235959"), ("mkf", "lab2", "20240110", "000000"), ("latest", "lab", None),
     ("latest", "lab", "20240101"), ("latest", "lab2", None), ("list", "lab"), ("mkf", "lab", "20240102", "235959"),
     ("write", ["20240102", "235959_lab"], "d1", "hdf5", False, 1), ("write", ["20240102", "235959_lab"], "d1", "hdf5", False, 2),
     ("write", ["20240102", "235959_lab"], "d1", "text", False, 3), ("write", ["20240102", "235959_lab"], "d1", "text", False, 4),
     ("write", ["20240102", "235959_lab"], "d1", "text", True, 5), ("write", ["20240102", "235959_lab"], "d1", "hdf5", True, 6),
     ("mkh5", ["20240102", "235959_lab"], "d1", 7), ("mkh5", ["20240102", "235959_lab"], "d2", 8),
     ("mkh5", ["20240102", "235959_lab"], "d2", 9)],
]


def cfmt(f):
    return {"hdf5": "FHdf5", "text": "FText"}.get(f, "FOther")


def cop(op):
    k = op[0]
    if k == "mkf":
        return "(XMakeFolder %s %s %s)" % (cstr(op[1]), cstr(op[2]), cstr(op[3]))
    if k == "write":
        return "(XWrite %s %s %s %s %s)" % (cpath(op[1]), cstr(op[2]), cfmt(op[3]), cbool(op[4]), cN(op[5]))
    if k == "mkh5":
        return "(XMakeH5 %s %s %s)" % (cpath(op[1]), cstr(op[2]), cN(op[3]))
    if k == "latest":
        return "(XLatest %s %s)" % (cstr(op[1]), copt(op[2], cstr))
    if k == "list":
        return "(XList %s)" % copt(op[1], cstr)
    if k == "mkdir":
        return "(XMkdir %s)" % cpath(op[1])
    return "(XTouch %s %s)" % (cpath(op[1]), cN(op[2]))


def ctriple(t):
    return "(%s, %s, %s)" % (cstr(t[0]), cstr(t[1]), cstr(t[2]))


def cobs(o):
    if o[0] == "unit":
        return "BUnit"
    if o[0] == "err":
        return "(BErr %s)" % o[1] if not o[1].startswith("weird") else "(BPath [[1114111%N]])"
    if o[0] == "path":
        return "(BPath %s)" % cpath(o[1])
    if o[0] == "folder":
        return "(BFolder %s)" % copt(o[1], ctriple)
    return "(BFolders %s)" % clist([ctriple(t) for t in o[1]])


def do_store(cx, nhist):
    ck = cx.ck
    rng = ck.rng
    base0 = os.path.join(ck.scratch_dir(), "stores")
    os.makedirs(base0, exist_ok=True)
    for i in range(nhist + len(FIXED_HISTORIES)):
        quirk = rng.random() < 0.08 and i >= len(FIXED_HISTORIES)
        ops = FIXED_HISTORIES[i] if i < len(FIXED_HISTORIES) else gen_store_ops(rng, quirk)
        base = os.path.join(base0, "h%d" % i)
        os.mkdir(base)
        eff, obs, final, fails = run_store(base, ops)
        shutil.rmtree(base, ignore_errors=True)
        replay = {"kind": "store", "ops": [list(o) for o in eff], "impl_obs": [list(o) for o in obs]}
        for o in obs:
            ck.count("store-obs:" + (o[1] if o[0] == "err" else o[0]))
            if o[0] == "err" and o[1].startswith("weird"):
                ck.report("store:unexpected-exception:" + o[1], "store operation raised %s" % o[1], replay)
        for op in eff:
            ck.count("store-op:" + op[0] + (":overwrite" if op[0] == "write" and op[4] else ""))
        if quirk:
            ck.count("store:newline-quirk-history")
        for key, msg in fails:
            if quirk and key == "latest":
                continue
            ck.report("store:" + key, "C17 fails on the implementation: " + msg, replay)
        ck.note_case(("store", eff), any(o[0] == "write" for o in eff) or any(o[0] == "latest" for o in eff))
        fin = clist(["(%s, %s)" % (cpath(p), "KDir" if v == "dir" else "KFile %s" % cN(v if isinstance(v, int) else 999999))
                     for p, v in sorted(final.items())])
        cx.add("(CStore %s %s %s)" % (clist([cop(o) for o in eff]), clist([cobs(o) for o in obs]), fin), replay)


# =========================================================================================
# H3: several users of one base directory asking for the same folder
# =========================================================================================
def mkf_scenario(s, base, plans):
    """Forked child under dsched.  plans: per thread [(label, date_str, time_str)]; every thread has its OWN DataStore
    object on the same base directory; every source line of make_folder is a switch point."""
    import threading as rt
    from qmi.data.datastore import DataStore
    obs = {"results": [[] for _ in plans]}
    s.obs = obs
    s.recording = False
    os.makedirs(base, exist_ok=True)
    dsched.enable_line_yields([DataStore.make_folder])

    def worker(k):
        store = DataStore(base)
        for (label, d, t) in plans[k]:
            try:
                f = store.make_folder(label, date_str=d, time_str=t)
            except Exception as e:  # noqa
                obs["results"][k].append(["err", type(e).__name__])
                continue
            rel = os.path.relpath(f.folder_path, base)
            content = sorted(os.listdir(f.folder_path))     # a folder handed out as new must be empty
            with open(os.path.join(f.folder_path, "owner_%d_%d" % (k, len(obs["results"][k]))), "w") as fh:
                fh.write("x")
            obs["results"][k].append(["ok", rel, content])

    s.recording = True
    ths = [rt.Thread(target=worker, args=(k,)) for k in range(len(plans))]
    for th in ths:
        th.start()
    for th in ths:
        th.join()
    s.recording = False
    return obs


def mkf_oracle(plans, res):
    if res["status"] != "ok":
        return "status-" + res["status"], "scenario did not finish: %s" % str(res.get("trace") or res.get("info") or "")[:300]
    by_path = {}
    for k, p in enumerate(plans):
        r = res["obs"]["results"][k]
        if len(r) != len(p):
            return "incomplete", "thread %d made %d of %d calls" % (k, len(r), len(p))
        for (label, d, t), o in zip(p, r):
            target = os.path.join(d, t + "_" + label)
            by_path.setdefault(target, []).append((k, o))
            if o[0] == "ok" and o[1] != target:
                return "wrong-path", "make_folder(%r, %r, %r) returned %r" % (label, d, t, o[1])
            if o[0] == "err" and o[1] != "FileExistsError":
                return "exception-" + o[1], "make_folder(%r, %r, %r) raised %s" % (label, d, t, o[1])
    for target, l in sorted(by_path.items()):
        wins = [k for k, o in l if o[0] == "ok"]
        if len(wins) > 1:
            return "same-folder-twice", "%d users (threads %r, each with its own DataStore on the same base directory) were all handed " \
                "%r as a NEW folder" % (len(wins), wins, target)
        for k, o in l:
            if o[0] == "ok" and o[2]:
                return "not-empty", "the folder %r handed out as new already held %r" % (o[1], o[2])
        if not wins:
            return "nobody-got-it", "%d calls for %r, all refused" % (len(l), target)
    return None


def do_mkf_race(cx, nplans, nsched):
    ck = cx.ck
    rng = ck.rng
    import qmi.data.datastore  # noqa
    base0 = os.path.join(ck.scratch_dir(), "race")
    os.makedirs(base0, exist_ok=True)
    jobs, metas = [], []
    for pi in range(nplans):
        nth = rng.choice([2, 2, 3])
        same = ("lab", "20240101", "120000")
        plans = []
        for k in range(nth):
            p = []
            for _ in range(rng.choice([1, 1, 2])):
                r = rng.random()
                p.append(same if r < 0.7 else (rng.choice(["lab", "lab2"]), "20240101", rng.choice(["120000", "120001"])) if r < 0.9
                         else ("x", "20240102", "120000"))
            plans.append(p)
        for si in range(nsched):
            kw = dict(strategy=rng.choice(["random", "random", "pct"]), seed=rng.randrange(1 << 30),
                      switch_prob=rng.choice([0.35, 0.6]))
            base = os.path.join(base0, "b%d_%d" % (pi, si))
            jobs.append((mkf_scenario, (base, plans), kw))
            metas.append((plans, base))
    results = dsched.run_forked(jobs, nproc=16, wall_timeout=60.0)
    for (plans, base), res in zip(metas, results):
        shutil.rmtree(base, ignore_errors=True)
        ck.count("mkf-race:threads=%d" % len(plans))
        ck.count("mkf-race:status=" + res["status"])
        ntarget = len({tuple(c) for p in plans for c in p})
        ncalls = sum(len(p) for p in plans)
        ck.count("mkf-race:%s" % ("contended" if ntarget < ncalls else "control"))
        ck.note_case(("mkf-race", plans, tuple(res.get("choices") or ())), ntarget < ncalls)
        bad = mkf_oracle(plans, res)
        if bad:
            ck.report("mkf-race:" + bad[0], "C17 fails on the implementation (concurrent make_folder): " + bad[1],
                      {"kind": "mkfrace", "plans": plans, "schedule": res.get("choices"), "status": res["status"],
                       "results": (res.get("obs") or {}).get("results")})


# =========================================================================================
# H3: recorder under the deterministic scheduler
# =========================================================================================
def rec_scenario(s, path, plans, write_interval, keep_open, line_level):
    """Runs in a forked child under dsched.  plans: per thread [(kind, ...)]:
    ('rec', dset, [values]) | ('attr', dset, attr, value) | ('sleep', seconds)."""
    import sys
    import threading as rt
    import numpy as np
    import h5py
    import qmi.data.hdf5recorder as R
    obs = {"trace": [], "file": None, "attrs": None, "closed": False}
    s.obs = obs
    s.recording = False
    code_names = {}
    cls = R._HDF5RecorderThread
    src_lines = {}
    for fn in ("run", "record", "set_attribute"):
        co = getattr(cls, fn).__code__
        code_names[co] = fn
    # The two marked lines of the writer loop are found by SHAPE, not by text or by the name of the function they live
    # in (local variables may be renamed, the loop may be moved into a helper of the class):
    #   quit: `<local> = self._shutdown_requested`;  wend: `<X>.clear()` where X is the local swapped with self._recordings
    import ast
    import inspect
    import textwrap
    marks = {"quit": set(), "wend": set()}       # (code object, line number)

    def is_self_attr(e, name):
        return isinstance(e, ast.Attribute) and e.attr == name and isinstance(e.value, ast.Name) and e.value.id == "self"
    for fname, fobj in list(vars(cls).items()):
        fobj = getattr(fobj, "__func__", fobj)
        co = getattr(fobj, "__code__", None)
        if co is None:
            continue
        try:
            lines, start = inspect.getsourcelines(fobj)
            ftree = ast.parse(textwrap.dedent("".join(lines))).body[0]
        except (OSError, TypeError, SyntaxError, IndexError):
            continue
        off = start - 1
        swapped, q, w = set(), [], []
        for n in ast.walk(ftree):
            if isinstance(n, ast.Assign) and is_self_attr(n.value, "_shutdown_requested"):
                q.append(n.lineno + off)
            if isinstance(n, ast.Assign) and isinstance(n.value, ast.Tuple) and any(is_self_attr(e, "_recordings") for e in n.value.elts):
                for t in n.targets:
                    for e in (t.elts if isinstance(t, ast.Tuple) else [t]):
                        if isinstance(e, ast.Name):
                            swapped.add(e.id)
        for n in ast.walk(ftree):
            if isinstance(n, ast.Expr) and isinstance(n.value, ast.Call) and isinstance(n.value.func, ast.Attribute) \
                    and n.value.func.attr == "clear" and isinstance(n.value.func.value, ast.Name) \
                    and n.value.func.value.id in swapped and not n.value.args:
                w.append(n.lineno + off)
        if swapped and q and w:
            code_names.setdefault(co, "run")          # the function holding the writer loop (run itself, or a helper)
            marks["quit"].update((co, ln) for ln in q)
            marks["wend"].update((co, ln) for ln in w)
    obs["marks_ok"] = bool(marks["quit"]) and bool(marks["wend"])

    def tracer(frame, event, arg):
        if frame.f_code not in code_names:
            return None

        def local(frame, event, arg):
            if event == "line":
                fn = code_names[frame.f_code]
                if line_level and s.recording:
                    s.yield_point(("line", fn, frame.f_lineno))
                if fn == "run":
                    if (frame.f_code, frame.f_lineno) in marks["quit"]:
                        s.log("swap", bool(frame.f_locals["self"]._shutdown_requested))
                    elif (frame.f_code, frame.f_lineno) in marks["wend"]:
                        s.log("write-end")
            return local
        return local

    rt.settrace(tracer)
    rec = R.HDF5Recorder(path, write_interval=write_interval, keep_open=keep_open)
    th = rec._recorder_thread
    lock_id = id(th._condition._lock)
    tid_rec = s.by_real[th].tid

    POISON = -777777

    def worker(k):
        # one preallocated buffer per thread, refilled for every 'buffer' record (an acquisition loop)
        buf = np.zeros(8, dtype=np.int64)
        bufs = {}                                   # block length -> the thread's preallocated array of that length
        for op in plans[k]:
            if op[0] == "rec":
                vals = [int(x) for x in op[2]]         # the block AS PASSED: the expected file content
                n = len(vals)
                form = op[3] if len(op) > 3 else "fresh"
                after = None                             # what the caller does to ITS array afterwards
                if form == "buffer":
                    # the array object itself (it owns its data) is handed over and refilled for the next block
                    b = bufs.setdefault(n, np.zeros(n, dtype=np.int64))
                    b[:] = vals
                    arg = b

                    def after(b=b):
                        b[:] = POISON
                elif form == "bufslice" and n <= len(buf):
                    buf[:n] = vals
                    arg = buf[:n]

                    def after():
                        buf[:] = POISON
                elif form == "view":
                    big = np.full(n + 4, 5, dtype=np.int64)
                    big[2:2 + n] = vals
                    arg = big[2:2 + n]

                    def after(big=big):
                        big[:] = POISON
                elif form == "strided":
                    big = np.full(2 * n + 1, 5, dtype=np.int64)
                    big[0:2 * n:2] = vals
                    arg = big[0:2 * n:2]

                    def after(big=big):
                        big += 1000003
                elif form == "readonly":
                    base = np.array(vals, dtype=np.int64)
                    arg = base.view()
                    arg.flags.writeable = False

                    def after(base=base):
                        base[:] = POISON
                elif form == "list":
                    arg = list(vals)

                    def after(arg=arg):
                        arg[:] = [POISON] * len(arg)
                        arg.append(POISON)
                else:
                    arg = np.array(vals, dtype=np.int64)
                s.log("op", k, "rec", op[1], vals)
                rec.record("d%d" % op[1], arg)
                if after is not None:
                    if len(op) > 4 and op[4]:
                        s.yield_point(("after-record", k))    # let the recorder (or anybody) run first
                    after()
            elif op[0] == "attr":
                s.log("op", k, "attr", op[1], op[2], op[3])
                rec.set_attribute("d%d" % op[1], "a%d" % op[2], op[3])
            else:
                dsched.FAKE_TIME.sleep(op[1])

    s.recording = True
    ths = [rt.Thread(target=worker, args=(k,)) for k in range(len(plans))]
    for t in ths:
        t.start()
    for t in ths:
        t.join()
    s.log("shutdown-flag")
    rec.close()
    s.recording = False
    rt.settrace(None)
    obs["closed"] = True
    # the linearisation: operations take effect at the acquisition of the condition's lock
    pend = {}
    trace = []
    for e in s.events:
        tid, kind = e[0], e[1]
        if kind == "op":
            pend[tid] = e[3:]
        elif kind == "acq" and e[2] == lock_id and tid != tid_rec and tid in pend:
            trace.append(list(pend.pop(tid)))
        elif kind == "swap":
            trace.append(["swap", e[2]])
        elif kind == "write-end":
            trace.append(["write"])
        elif kind == "shutdown-flag":
            trace.append(["shutdown"])
    obs["trace"] = trace
    obs["unplaced"] = [list(v) for v in pend.values() if not (v[0] == "rec" and len(v[2]) == 0)]
    if os.path.exists(path):
        with h5py.File(path, "r") as f:
            obs["file"] = {k: [int(x) for x in f[k][:]] for k in f}
            obs["attrs"] = {k: {a: int(v) for a, v in f[k].attrs.items()} for k in f}
    else:
        obs["file"], obs["attrs"] = {}, {}
    return obs


# how the block is handed to record() and what the caller does with its array afterwards (see worker()):
# a fresh array; a preallocated array (owning its data) refilled in place; the head of ONE larger preallocated buffer; a slice of a
# larger array overwritten afterwards; a
# non-contiguous (strided) view; a read-only view of an array overwritten afterwards; a list emptied afterwards
REC_FORMS = ["fresh", "buffer", "buffer", "bufslice", "bufslice", "view", "strided", "readonly", "list"]


def gen_rec_plans(rng):
    nthreads = rng.choice([1, 2, 2, 3, 3])
    plans = []
    for k in range(nthreads):
        p = []
        for j in range(rng.randint(2, 6)):
            r = rng.random()
            if r < 0.6:
                ln = rng.choice([0, 1, 1, 2, 3])
                p.append(("rec", rng.randint(0, 2), [k * 10000 + j * 10 + x for x in range(ln)], rng.choice(REC_FORMS),
                          rng.random() < 0.5))
            elif r < 0.8:
                p.append(("attr", rng.randint(0, 2), rng.randint(0, 1), k * 100 + j))
            else:
                p.append(("sleep", rng.choice([0.0, 0.3, 1.0, 2.5])))
        plans.append(p)
    return plans


def gen_rec_plans_race(rng, wi):
    """plans whose sleeps are multiples of the write interval: recording threads wake at the same virtual
    instant as the recorder's timed wait, so record() runs while the recorder is between leaving the wait
    loop and finishing its write phase — repeatedly on the same dataset name"""
    plans = []
    for k in range(rng.choice([1, 2, 2, 3])):
        p = []
        for j in range(rng.randint(3, 5)):
            p.append(("rec", rng.choice([0, 0, 1]), [k * 10000 + j * 10 + x for x in range(rng.choice([1, 2]))],
                      rng.choice(REC_FORMS), rng.random() < 0.5))
            if rng.random() < 0.2:
                p.append(("attr", rng.choice([0, 1]), rng.randint(0, 1), k * 100 + j))
            if rng.random() < 0.7:
                p.append(("sleep", wi * rng.choice([1, 1, 2])))
        plans.append(p)
    return plans


def rec_oracle(plans, res):
    """C17 (recorder part) on the implementation's observations."""
    if res["status"] != "ok":
        return "status-" + res["status"], "recorder scenario did not finish: %s %s" % (
            res["status"], str(res.get("trace") or res.get("info") or "")[:400])
    o = res["obs"]
    if not o.get("closed") or o.get("file") is None:
        return "no-file", "close() did not complete"
    if o.get("unplaced"):
        return "unplaced", "operations never reached the recorder's lock: %r" % (o["unplaced"],)
    want, wattr = {}, {}
    for e in o["trace"]:
        if e[0] == "rec" and e[2]:
            want.setdefault("d%d" % e[1], []).extend(e[2])
        elif e[0] == "attr":
            wattr.setdefault("d%d" % e[1], {})["a%d" % e[2]] = e[3]
    # every block recorded by every thread must be accounted for in the trace
    nrec = sum(1 for p in plans for op in p if op[0] == "rec" and op[2])
    if sum(1 for e in o["trace"] if e[0] == "rec" and e[2]) != nrec:
        return "trace", "recorded %d non-empty blocks, %d reached the lock" % (nrec, sum(1 for e in o["trace"] if e[0] == "rec" and e[2]))
    got = o["file"]
    for d in sorted(set(want) | set(got)):
        if got.get(d, []) != want.get(d, []):
            w, g = want.get(d, []), got.get(d, [])
            kind = "altered" if any(x not in w for x in g) else \
                "lost" if len(g) < len(w) else "duplicated" if len(g) > len(w) else "reordered"
            return "blocks-" + kind, "dataset %s holds %r after close(); the blocks as they were passed to record(), in this order: %r%s" % (
                d, g, w, " (the file holds values the caller wrote into its own array AFTER record() had returned)" if kind == "altered" else "")
    for d in got:
        if o["attrs"].get(d, {}) != wattr.get(d, {}):
            return "attrs", "dataset %s has attributes %r, last values set: %r" % (d, o["attrs"].get(d), wattr.get(d, {}))
    return None


def crec_case(o):
    labels = []
    for e in o["trace"]:
        if e[0] == "rec":
            labels.append("LRecord %s %s" % (cN(e[1]), czlist(e[2])))
        elif e[0] == "attr":
            labels.append("LSetAttr %s %s %s" % (cN(e[1]), cN(e[2]), cZ(e[3])))
        elif e[0] == "swap":
            labels.append("LSwap")
        elif e[0] == "write":
            labels.append("LWrite")
        else:
            labels.append("LShutdown")
    files = clist(["(%s, %s)" % (cN(int(k[1:])), czlist(v)) for k, v in sorted(o["file"].items())])
    attrs = clist(["(%s, %s)" % (cN(int(k[1:])), clist(["(%s, %s)" % (cN(int(a[1:])), cZ(v)) for a, v in sorted(m.items())]))
                   for k, m in sorted(o["attrs"].items())])
    return "(CRec %s %s %s %s %s)" % (clist(labels), clist([cN(i) for i in range(3)]), clist([cN(i) for i in range(2)]), files, attrs)


def do_recorder(cx, nplans, nsched):
    ck = cx.ck
    rng = ck.rng
    import qmi.data.hdf5recorder  # noqa  (loaded before fork / patching)
    import qmi.core.thread  # noqa
    base = os.path.join(ck.scratch_dir(), "rec")
    os.makedirs(base, exist_ok=True)
    jobs, metas = [], []
    for pi in range(nplans):
        plans = gen_rec_plans(rng)
        wi = rng.choice([0.5, 1.0, 60.0])
        ko = rng.random() < 0.4
        for si in range(nsched):
            ll = (si % 2 == 1)
            kw = dict(strategy=rng.choice(["random", "random", "pct"]), seed=rng.randrange(1 << 30))
            path = os.path.join(base, "r%d_%d.h5" % (pi, si))
            jobs.append((rec_scenario, (path, plans, wi, ko, ll), kw))
            metas.append((plans, wi, ko, ll, path))
    for pi in range(max(20, nplans // 3)):       # race bucket: coinciding wake-ups, line-level, frequent switches
        wi = rng.choice([0.5, 1.0])
        plans = gen_rec_plans_race(rng, wi)
        ko = rng.random() < 0.3
        for si in range(nsched):
            kw = dict(strategy="random", seed=rng.randrange(1 << 30), switch_prob=rng.choice([0.5, 0.65, 0.8]))
            path = os.path.join(base, "q%d_%d.h5" % (pi, si))
            jobs.append((rec_scenario, (path, plans, wi, ko, True), kw))
            metas.append((plans, wi, ko, True, path))
    results = dsched.run_forked(jobs, nproc=16, wall_timeout=60.0)
    for (plans, wi, ko, ll, path), res in zip(metas, results):
        try:
            os.unlink(path)
        except OSError:
            pass
        ck.count("recorder:threads=%d" % len(plans))
        for p_ in plans:
            for op_ in p_:
                if op_[0] == "rec" and op_[2]:
                    ck.count("recorder:block-form=%s%s" % (op_[3] if len(op_) > 3 else "fresh",
                                                          "+yield" if len(op_) > 4 and op_[4] and (op_[3] if len(op_) > 3 else "fresh") != "fresh" else ""))
        ck.count("recorder:" + ("line-level" if ll else "sync-level"))
        ck.count("recorder:status=" + res["status"])
        replay = {"kind": "recorder", "plans": plans, "write_interval": wi, "keep_open": ko, "line_level": ll,
                  "schedule": res.get("choices"), "status": res["status"],
                  "trace": (res.get("obs") or {}).get("trace"), "file": (res.get("obs") or {}).get("file")}
        ck.note_case(("rec", plans, wi, ko, ll, tuple(res.get("choices") or ())), len(plans) > 1)
        bad = rec_oracle(plans, res)
        if bad:
            ck.report("recorder:" + bad[0], "C17 fails on the implementation (recorder): " + bad[1], replay)
            continue
        o = res["obs"]
        if not o.get("marks_ok"):
            ck.report("recorder:source-marks", "the swap / end-of-write lines of _HDF5RecorderThread.run were not found; "
                      "the trace cannot be recorded", replay, found_input=False)
            continue
        nsw = sum(1 for e in o["trace"] if e[0] == "swap")
        ck.count("recorder:swaps=%s" % (nsw if nsw < 4 else "4+"))
        cx.add(crec_case(o), replay)


# =========================================================================================
# run / replay
# =========================================================================================
def run(ck):
    ck.theory_dir = THEORY
    ck.build_theory(THEORY)
    ck.trusted = [
        "Coq 8.16.1 kernel (vm_compute evaluates the model on the cases; no native_compute)",
        "hand-written model theories/C17/Model.v of the logic of qmi/data/dataset.py (attribute codec, header lines, special "
        "columns), datastore.py (folders, exclusive create, latest folder) and hdf5recorder.py (swap/write protocol), tied to "
        "/repo by this run's correspondence",
        "NOT modelled, only exercised here: h5py and HDF5, numpy savetxt/loadtxt/reshape/tile/repeat and their value "
        "fidelity, float()/repr(float), str.isprintable, the text encoding of files, os.mkdir / open('x') / listdir",
        "python harness c17.py (generators, canonicalisation, the independent format description expected_header)",
        "dsched deterministic scheduler and its cooperative Lock/Condition (define what an interleaving is); the recorder "
        "trace is taken from lock acquisitions and from two source lines of run() located by their text",
    ]
    ck.assumptions = [
        "PARTIAL: value fidelity of HDF5 and of the decimal text format (19 significant digits) is assumed, not proved; "
        "int64 values beyond 2**53 are outside the text format and are only sent through the HDF5 chain",
        "float attributes are atoms: float(repr(x)) == x and the shape of repr(float) are hypotheses of C17_attr_roundtrip, "
        "checked on every float written (float_text_ok)",
        "printable = str.isprintable of the running CPython, supplied to the model per case",
        "strings that HDF5 cannot store (NUL, lone surrogates) and integers beyond 64 bits go through the text chain only; NaN is excluded",
        "attribute names: non-empty, no ':' (rejected by the writer), no control characters",
        "numbered names: axis numbers are exercised up to 34 (numpy arrays have at most 64 axes, HDF5 datasets 32), column numbers up "
        "to 102; int() in the recogniser of special columns is modelled for sign + ASCII digits and for plain ASCII junk only "
        "(white space, underscores, non-ASCII digits inside the number are not generated)",
        "recorder: a block is the VALUE passed to record() at the time of the call (ndarray of any layout, or list; a tuple is refused "
        "by the pinned code); set_attribute values are int / float / str as documented (mutable attribute values are outside)",
        "recorder: blocks passed to record() before close() is called; record()/set_attribute() concurrent with close() are outside",
        "make_folder by several users of one base directory: C17_make_folder_fresh is about sequential histories; the concurrent case "
        "relies on the atomicity of os.mkdir (exclusive create) and is tied only by the schedules of the mkf-race bucket (2-3 DataStore "
        "objects in threads, every source line of make_folder a switch point); races between processes are not run",
    ]
    cx = Ctx(ck)
    quick = ck.tier == "quick"
    import time as _time
    phases = {}

    def timed(name, f, *a):
        t0 = _time.time()
        f(cx, *a)
        phases[name] = round(_time.time() - t0, 1)
    try:
        timed("chains", do_chains, 160 if quick else 3000)
        timed("parse", do_parse_cases, 1500 if quick else 30000)
        timed("layout", do_layout)
        timed("special", do_special)
        timed("store", do_store, 260 if quick else 6000)
        timed("mkf-race", do_mkf_race, 14 if quick else 150, 10 if quick else 30)
        timed("recorder", do_recorder, 50 if quick else 600, 10 if quick else 40)
    finally:
        ck.cleanup()
    ck.coverage["phase_s"] = phases
    for m in (cx.metas[:1] + cx.metas[len(cx.metas) // 2: len(cx.metas) // 2 + 1] + cx.metas[-1:]):
        ck.sample({k: v for k, v in m.items() if k != "from"}, 3)
    bad = ck.run_model("C17.Corr", "check_case", cx.terms, "case", shard=250)
    ck.coverage["correspondence_disagreements"] = len(bad)
    if bad:
        # classify: does the reader *as it is in the tree* (no \U alternative) explain the disagreement?
        cur_bad = set(ck.run_model("C17.Corr", "check_case_current", [cx.terms[i] for i in bad], "case", shard=250))
        for j, i in enumerate(bad):
            m = cx.metas[i]
            if m["kind"] in ("attr", "parse") and j not in cur_bad:
                s = m.get("text") or m.get("line") or ""
                ck.report(KEY_U, "C17 fails on the implementation: _parse_attribute_value does not undo the \\UXXXXXXXX escape that "
                          "repr() writes for non-printable characters beyond U+FFFF (%s comes back as the literal escape)" % ascii(s)[:80],
                          m, found_input=True)
            else:
                ck.report("corr:%s" % m["kind"], "implementation and Coq model disagree on a %s case (the property oracle passed on it)" % m["kind"],
                          dict(m, broken="correspondence C17.Corr.check_case"), found_input=False)
    return ck.finish("generated datasets through five write/read chains; every distinct header line; damaged attribute texts; "
                     "all outer shapes up to 3 axes of size <= 4 and a fixed bucket of shapes with 10-13 (once 35) outer axes and of "
                     "datasets with 12-103 columns (numbered names crossing 9/10 and 99/100); probe files for the reader's recogniser of "
                     "special columns; store histories; recorder schedules (random/PCT, sync- and "
                     "line-level switch points); distinct by content hash; non-trivial = has metadata / special characters / "
                     "several axes / a write or lookup / several recording threads")


def replay(rep):
    c = rep["case"]
    kind = c.get("kind")
    scratch = "/var/tmp/qmi-verif.C17.replay.%d" % os.getpid()
    os.makedirs(scratch)
    try:
        if kind == "chain":
            from qmi.data.datastore import DataStore
            ds0 = rebuild(c["dataset"])
            got, err, texts = run_chain(DataStore(scratch), tuple(c["chain"]), ds0, "r")
            for p, _ in texts:
                print("header of %s:" % p)
                for ln in header_of(p) or []:
                    print("   ", ascii(ln))
            bad = ("error", err) if err else same_dataset(ds0, got)
            print("oracle:", bad or "read back equal")
            return 1 if bad else 0
        if kind in ("attr", "parse"):
            text = c.get("text")
            if text is None:
                line = c["line"]
                text = line[line.find(":") + 1:].strip()
            r = parse_impl(text)
            print("_parse_attribute_value(%s) -> %s" % (ascii(text), ascii(r)))
            if kind == "attr":
                v = c["value"]
                want = float.fromhex(v[1]) if v[0] == "f" else v[1]
                ok = (r[0] == "float") if v[0] == "f" else (r[0] == {"s": "str", "i": "int"}[v[0]] and r[1] == want)
                print("oracle:", "value read back" if ok else "value %s NOT read back" % ascii(want))
                return 0 if ok else 1
            return 0
        if kind == "store":
            ops = [tuple(o) for o in c["ops"]]
            eff, obs, final, fails = run_store(scratch, ops)
            print("observations:", obs)
            print("oracle:", fails or "holds")
            return 1 if fails else 0
        if kind == "recorder":
            import qmi.data.hdf5recorder  # noqa
            plans = [[tuple(op) for op in p] for p in c["plans"]]
            res = dsched.run_forked([(rec_scenario, (os.path.join(scratch, "r.h5"), plans, c["write_interval"], c["keep_open"],
                                                     c["line_level"]), dict(strategy="replay", schedule=list(c["schedule"] or [])))],
                                    nproc=1, wall_timeout=60.0)[0]
            print("status:", res["status"], "file:", (res.get("obs") or {}).get("file"))
            bad = rec_oracle(plans, res)
            print("oracle:", bad or "holds")
            return 1 if bad else 0
        if kind == "mkfrace":
            import qmi.data.datastore  # noqa
            plans = [[tuple(x) for x in p] for p in c["plans"]]
            res = dsched.run_forked([(mkf_scenario, (os.path.join(scratch, "b"), plans),
                                      dict(strategy="replay", schedule=list(c["schedule"] or [])))], nproc=1, wall_timeout=60.0)[0]
            print("status:", res["status"], "results:", (res.get("obs") or {}).get("results"))
            bad = mkf_oracle(plans, res)
            print("oracle:", bad or "holds")
            return 1 if bad else 0
        if kind == "special":
            obs = probe_special(c["label"], c["nax"])
            print("special column labelled %r in a file with %d axes is treated as %r" % (c["label"], c["nax"], obs))
            m = re.fullmatch(r"axis([1-9][0-9]*|0)_(index|scale)", c["label"])
            bad = bool(m) and int(m.group(1)) < c["nax"] and obs != (m.group(2), int(m.group(1)))
            print("oracle:", "NOT taken as the %s column of axis %s" % (m.group(2), m.group(1)) if bad else "holds")
            return 1 if bad else 0
        if kind == "name" and c.get("from"):
            return replay({"case": c["from"], "seed": rep.get("seed")})
        print("layout / other case: re-run ./check C17 --seed", rep.get("seed"))
        return 0
    finally:
        shutil.rmtree(scratch, ignore_errors=True)
