import argparse
import importlib
import json
import os
import sys
import traceback

sys.path.insert(0, os.path.dirname(os.path.abspath(__file__)))
import common  # noqa: E402


def main():
    ap = argparse.ArgumentParser()
    ap.add_argument("pid")
    ap.add_argument("--tier", default=os.environ.get("VERIF_TIER", "quick"))
    ap.add_argument("--seed", type=int, default=int(os.environ.get("VERIF_SEED", "0")))
    ap.add_argument("--replay")
    a = ap.parse_args()
    common.setup_repo_import()
    mod = importlib.import_module(a.pid.lower())
    if a.replay:
        with open(a.replay) as f:
            rep = json.load(f)
        sys.exit(mod.replay(rep))
    ck = common.Check(a.pid, a.tier, a.seed, level=getattr(mod, "LEVEL", "proof"))
    try:
        import alpha
        gone = alpha.vanished_names(a.pid, common.REPO)
        optional = getattr(mod, "OPTIONAL_PRIVATE", {})
        if gone and all(g in optional for g in gone):
            # the vanished names only feed buckets the harness can do without: say that this part of the tie no longer
            # checks (no failing input from it) and let the remaining buckets search for a concrete failure
            ck.skipped_private = set(gone)
            ck.report("tie:private-name-gone:%s" % "+".join(gone),
                      "private name(s) %s no longer exist in the tree under test; the bucket(s) %s of harness/%s.py are "
                      "skipped, that part of the tie between the Coq model and the code no longer checks"
                      % (", ".join(gone), ", ".join(sorted({optional[g] for g in gone})), a.pid.lower()),
                      {"broken": "correspondence harness/%s.py bucket(s) %s" % (a.pid.lower(), ", ".join(sorted({optional[g] for g in gone})))},
                      found_input=False)
        elif gone:
            raise common.TieBroken("private name(s) %s, through which the harness observes or drives the implementation, "
                                   "no longer exist in the tree under test (and no consistent renaming was found)"
                                   % ", ".join(gone))
        rc = mod.run(ck)
    except Exception as e:
        # The tie between model and code cannot be established on this tree (the harness reaches into the code and
        # something it needs is gone or behaves differently): the property is no longer shown to hold. No failing input
        # was found, the replay file names what broke.
        tb = traceback.format_exc()
        sys.stderr.write(tb)
        ck.violations = [v for v in ck.violations if v.found_input]
        ck.report("tie:harness-cannot-run:%s" % type(e).__name__,
                  "the correspondence harness harness/%s.py cannot run against this tree (%s: %s): the tie between the Coq "
                  "model and the code no longer checks" % (a.pid.lower(), type(e).__name__, str(e)[:300]),
                  {"broken": "correspondence harness/%s.py (model/implementation tie)" % a.pid.lower(), "traceback": tb[-3000:]},
                  found_input=False)
        try:
            rc = ck.finish("harness failure: correspondence could not be run")
        except Exception:
            traceback.print_exc()
            ck.cleanup()
            print("VIOLATION property=%s replay=%s no-failing-input-found" % (a.pid, ck.violations[-1].replay))
            rc = 1
    sys.exit(rc)


if __name__ == "__main__":
    main()
