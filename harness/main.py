import argparse
import importlib
import json
import os
import sys
import traceback

sys.path.insert(0, os.path.dirname(os.path.abspath(__file__)))
import common  # noqa: E402


def main():
    ap = argparse.ArgumentParser()
    ap.add_argument("pid")
    ap.add_argument("--tier", default=os.environ.get("VERIF_TIER", "quick"))
    ap.add_argument("--seed", type=int, default=int(os.environ.get("VERIF_SEED", "0")))
    ap.add_argument("--replay")
    a = ap.parse_args()
    common.setup_repo_import()
    mod = importlib.import_module(a.pid.lower())
    if a.replay:
        with open(a.replay) as f:
            rep = json.load(f)
        sys.exit(mod.replay(rep))
    ck = common.Check(a.pid, a.tier, a.seed, level=getattr(mod, "LEVEL", "proof"))
    try:
        rc = mod.run(ck)
    except Exception:
        # machinery failure: say so loudly, never pretend the property held
        traceback.print_exc()
        ck.cleanup()
        print("ERROR: check %s could not complete (harness failure, not a property verdict)" % a.pid)
        sys.exit(2)
    sys.exit(rc)


if __name__ == "__main__":
    main()
