"""C18 — discovery answers exactly the matching requests and survives junk datagrams.

Correspondence (H1, no network, no threads):
  * the real qmi.core.messaging._UdpResponder is constructed on a scripted datagram socket and a
    recording event loop; every datagram is delivered by calling the callback the responder
    registered with add_reader (its _handle_read); what it sends / raises is compared with
    theories/C18/Model.v `run`;
  * the real unpack_qmi_udp_packet against `unpack`;
  * the real ping_qmi_contexts + QMI_Context.discover_peer_contexts with socket / selectors /
    time / random (as seen from qmi.core.context) replaced by scripted stand-ins, also end to
    end against 1-4 real responders, against `ping_request` / `collect`;
  * fnmatch.fnmatchcase against `gmatch`; bytes.decode()/str.encode() against utf8_dec/utf8_enc.
The property oracle below re-states C18 on the implementation's observations without the model.

SAFETY: the kill-request packet type (tag 0x202) is never generated (guard `_never_kill`), and
os._exit is replaced while implementation code runs.
"""
import fnmatch
import logging
import ntpath
import os
import string
import struct
import warnings

from common import cZ, cN, cbool, clist, cbytes, copt

THEORY = "C18"
MAGIC = 0x00494D51
T_REQ, T_KILL, T_RESP, T_START, T_SHUT = 0x201, 0x202, 0x101, 0x102, 0x103
ENUM_TAGS = {T_REQ, T_KILL, T_RESP, T_START, T_SHUT}
ADDR = ("10.1.2.3", 40123)


# ---------------------------------------------------------------------------------------------
# safety + stubs
# ---------------------------------------------------------------------------------------------

class _ExitCalled(BaseException):
    pass


def _never_kill(b):
    """True if the datagram may be handed to implementation code (it is not a kill request)."""
    b = bytes(b)
    return not (len(b) >= 6 and b[4:6] == struct.pack("<H", T_KILL))


class _Proxy:
    """Module stand-in: named overrides, everything else from the real module."""

    def __init__(self, real, **over):
        self.__dict__["_real"] = real
        self.__dict__.update(over)

    def __getattr__(self, k):
        return getattr(self.__dict__["_real"], k)


class Sock:
    def __init__(self):
        self.inq, self.sent, self.blocking, self.closed = [], [], None, False

    def setblocking(self, b):
        self.blocking = b

    def fileno(self):
        return 77

    def getsockname(self):
        return ("0.0.0.0", 35999)

    def recvfrom(self, n):
        if not self.inq:
            raise BlockingIOError()
        data, addr = self.inq.pop(0)
        return data[:n], addr

    def sendto(self, data, addr):
        self.sent.append((bytes(data), addr))

    def setsockopt(self, *a):
        pass

    def bind(self, addr):
        pass

    def close(self):
        self.closed = True


class Loop:
    def __init__(self):
        self.readers = {}

    def add_reader(self, fd, cb):
        self.readers[fd] = cb

    def remove_reader(self, fd):
        self.readers.pop(fd, None)


class Router:
    def __init__(self, name, wg, port):
        self.context_name, self.workgroup_name, self.tcp_server_port = name, wg, port


class Impl:
    """Everything that touches implementation code runs inside `with Impl():`."""

    def __enter__(self):
        import qmi.core.messaging as M
        self.M = M
        self._exit = os._exit
        os._exit = self._fake_exit
        self.exit_calls = 0
        self.pid = 4242
        self._m_os = M.os
        M.os = _Proxy(self._m_os, getpid=lambda: self.pid, _exit=self._fake_exit)
        # a platform whose os.path.normcase folds case (Windows): the filters must stay
        # case-sensitive there too.  fnmatchcase does not look at it.
        self._f_os = fnmatch.os
        fnmatch.os = _Proxy(self._f_os, path=_Proxy(self._f_os.path, normcase=ntpath.normcase))
        logging.disable(logging.CRITICAL)
        self._w = warnings.catch_warnings()
        self._w.__enter__()
        warnings.simplefilter("ignore")
        return self

    def _fake_exit(self, code=0):
        self.exit_calls += 1
        raise _ExitCalled()

    def __exit__(self, *a):
        self._w.__exit__(*a)
        logging.disable(logging.NOTSET)
        fnmatch.os = self._f_os
        self.M.os = self._m_os
        os._exit = self._exit
        return False

    def responder(self, name, wg, port):
        sock, loop = Sock(), Loop()
        r = self.M._UdpResponder(loop, Router(name, wg, port), sock)
        assert sock.blocking is False and list(loop.readers) == [77]
        return r, sock, loop.readers[77]


EXN = {"ValueError": "EValue", "UnicodeDecodeError": "EUnicodeDecode", "UnicodeEncodeError": "EUnicodeEncode"}


def impl_session(im, ctx, dgrams):
    """-> list of observations ('nothing',) | ('raise', cls) | ('send', bytes, addr_ok) | ('exit',)
    | ('weird', text)."""
    im.pid = ctx["pid"]
    _, sock, cb = im.responder(ctx["name"], ctx["wg"], ctx["port"])
    outs = []
    for d in dgrams:
        if d is None:            # spurious wake-up: nothing to read
            pass
        else:
            assert _never_kill(d)
            sock.inq.append((bytes(d), ADDR))
        before = len(sock.sent)
        try:
            res = cb()
            exc = None
        except _ExitCalled:
            outs.append(("exit",))
            continue
        except Exception as e:   # noqa
            exc, res = type(e).__name__, None
        new = sock.sent[before:]
        if sock.inq:
            outs.append(("weird", "datagram not consumed"))
            sock.inq.clear()
        elif exc is not None:
            outs.append(("raise", exc) if not new else ("weird", "sent and raised " + exc))
        elif res is not None:
            outs.append(("weird", "returned %r" % (res,)))
        elif not new:
            outs.append(("nothing",))
        elif len(new) == 1:
            outs.append(("send", new[0][0], new[0][1] == ADDR))
        else:
            outs.append(("weird", "%d datagrams sent" % len(new)))
    return outs


def impl_unpack(b):
    from qmi.core.udp_responder_packets import unpack_qmi_udp_packet
    from qmi.core.exceptions import QMI_RuntimeException
    assert _never_kill(b)
    try:
        p = unpack_qmi_udp_packet(bytes(b))
    except QMI_RuntimeException:
        return ("qmi_exc",)
    except ValueError:
        return ("value_exc",)
    except Exception as e:  # noqa
        return ("weird", type(e).__name__)
    kind = type(p).__name__
    ts = struct.pack("<d", p.pkt_timestamp)
    raw = bytes(p)
    if kind == "QMI_UdpResponderContextInfoRequestPacket":
        return ("req", p.pkt_id, ts, p.workgroup_name_filter, p.context_name_filter, raw)
    if kind == "QMI_UdpResponderContextInfoResponsePacket":
        return ("resp", p.pkt_id, ts, p.request_pkt_id, struct.pack("<d", p.request_pkt_timestamp),
                p.context.pid, p.context.name, p.context.workgroup_name, p.context.port, raw)
    return ("weird", kind)


class _Clock:
    def __init__(self):
        self.t = 1000.0

    def monotonic(self):
        self.t += 1e-6
        return self.t

    def time(self):
        return 1.7e9 + self.t


REQ_TS_MARK = b"\xfeRQTS\xfd\xfc\xfb"      # placeholder replaced by the request's own timestamp bytes


def impl_discover(im, my_name, cfg_wg, wf, cf, req_id, replies, responders=()):
    """Run the real discover_peer_contexts (which runs the real ping_qmi_contexts) on scripted
    stand-ins.  replies: datagrams (bytes, addr) waiting on the socket after the request went out;
    responders: (name, wg, port, pid) of real _UdpResponder objects that also receive the request.
    -> (request bytes sent or None, result list or exception class name, all reply datagrams)"""
    import qmi.core.context as C
    clock = _Clock()
    state = {"sock": None, "sent": [], "replies": list(replies)}

    class PingSock(Sock):
        def sendto(self, data, addr):
            data = bytes(data)
            state["sent"].append((data, addr))
            got = []
            for (n, w, p, pid) in responders:
                if not _never_kill(data):
                    continue
                im.pid = pid
                _, rs, cb = im.responder(n, w, p)
                rs.inq.append((data, ("10.9.9.9", 5555)))
                try:
                    cb()
                except Exception:  # noqa
                    pass
                got += [(s[0], ("10.0.0.%d" % (len(got) + 1), 35999)) for s in rs.sent]
            # replies may echo the real request's timestamp bit for bit (marker substituted here)
            req_ts8 = data[14:22] if len(data) >= 22 else b"\0" * 8
            state["replies"] = got + [(b.replace(REQ_TS_MARK, req_ts8), a) for (b, a) in state["replies"]]
            self.inq.extend(state["replies"])

    def mk_socket(*a, **k):
        state["sock"] = PingSock()
        return state["sock"]

    class Sel:
        def __enter__(self):
            return self

        def __exit__(self, *a):
            return False

        def register(self, s, ev):
            self.key = ("key", s)
            return self.key

        def select(self, timeout=None):
            if state["sock"].inq:
                return [(self.key, 1)]
            clock.t += (timeout or 0) + 1.0
            return []

    import socket as rs, selectors as rsel, random as rrand, time as rtime
    saved = (C.socket, C.selectors, C.random, C.time)
    C.socket = _Proxy(rs, socket=mk_socket)
    C.selectors = _Proxy(rsel, DefaultSelector=Sel)
    C.random = _Proxy(rrand, randint=lambda a, b: req_id)
    C.time = _Proxy(rtime, time=clock.time, monotonic=clock.monotonic)
    try:
        class Cfg:
            workgroup = cfg_wg

        class Self:
            name = my_name
            _config = Cfg
        try:
            res = C.QMI_Context.discover_peer_contexts(Self(), wf, cf)
        except Exception as e:  # noqa
            res = type(e).__name__
    finally:
        C.socket, C.selectors, C.random, C.time = saved
    sent = state["sent"][0] if state["sent"] else None
    ok_sock = state["sock"] is not None and state["sock"].closed
    return sent, res, state["replies"], ok_sock


# ---------------------------------------------------------------------------------------------
# independent packet construction / parsing (struct only)
# ---------------------------------------------------------------------------------------------

def mk_req(pid_, ts8, wf, cf, tag=T_REQ, magic=MAGIC):
    return struct.pack("<IHQ", magic, tag, pid_) + ts8 + wf.ljust(64, b"\0")[:64] + cf.ljust(64, b"\0")[:64]


def mk_resp(id_, ts8, rid, rts8, pid, name, wg, port, tag=T_RESP, magic=MAGIC):
    return (struct.pack("<IHQ", magic, tag, id_) + ts8 + struct.pack("<Q", rid) + rts8 + struct.pack("<i", pid)
            + name.ljust(64, b"\0")[:64] + wg.ljust(64, b"\0")[:64] + struct.pack("<i", port))


def cs(b):
    i = b.find(b"\0")
    return b if i < 0 else b[:i]


def parse_req(b):
    if len(b) != 150 or b[:6] != struct.pack("<IH", MAGIC, T_REQ):
        return None
    return {"id": struct.unpack("<Q", b[6:14])[0], "ts": b[14:22], "wf": cs(b[22:86]), "cf": cs(b[86:150])}


def parse_resp(b):
    if len(b) != 174 or b[:6] != struct.pack("<IH", MAGIC, T_RESP):
        return None
    return {"id": struct.unpack("<Q", b[6:14])[0], "ts": b[14:22], "rid": struct.unpack("<Q", b[22:30])[0],
            "rts": b[30:38], "pid": struct.unpack("<i", b[38:42])[0], "name": cs(b[42:106]),
            "wg": cs(b[106:170]), "port": struct.unpack("<i", b[170:174])[0]}


# ---------------------------------------------------------------------------------------------
# property oracle (uses fnmatch.fnmatchcase as the meaning of "matches", struct for the layout)
# ---------------------------------------------------------------------------------------------

def oracle_session(ctx, dgrams, outs):
    for k, (d, o) in enumerate(zip(dgrams, outs)):
        if o[0] == "weird":
            return "datagram %d: %s" % (k, o[1])
        if o[0] == "exit":
            return "datagram %d: the process was told to exit" % k
        rq = parse_req(bytes(d)) if d is not None else None
        if rq is None:
            if o[0] == "send":
                return "junk answered: a datagram that is not a well-formed request got an answer"
            if o[0] == "raise":
                tag = struct.unpack("<H", d[4:6])[0] if d is not None and len(d) >= 22 else None
                if not (o[1] == "ValueError" and d[:4] == struct.pack("<I", MAGIC) and tag not in ENUM_TAGS):
                    return "junk raised %s out of the read callback" % o[1]
            continue
        try:
            wfs, cfs = rq["wf"].decode(), rq["cf"].decode()
            nb, wb = ctx["name"].encode(), ctx["wg"].encode()
            expect = (fnmatch.fnmatchcase(ctx["wg"], wfs) and fnmatch.fnmatchcase(ctx["name"], cfs)
                      and len(nb) <= 64 and len(wb) <= 64)
        except UnicodeError:
            expect = False     # filter is not text / own name cannot be sent: no answer possible
        if expect and o[0] != "send":
            return "request not answered although both filters match (%s)" % (o,)
        if not expect and o[0] == "send":
            return "request answered although a filter does not match"
        if o[0] == "send":
            rp = parse_resp(o[1])
            if rp is None:
                return "answer is not a well-formed response packet"
            if not o[2]:
                return "answer sent to another address than the request's source"
            if rp["rid"] != rq["id"]:
                return "answer does not echo the request id"
            if rp["rts"] != rq["ts"]:
                return "answer does not echo the request timestamp bit for bit"
            if rp["name"] != cs(nb) or rp["wg"] != cs(wb):
                return "answer does not carry the context's name/workgroup"
            if rp["pid"] != ctx["pid"]:
                return "answer does not carry the process id"
            if rp["port"] != ((ctx["port"] + 2 ** 31) % 2 ** 32) - 2 ** 31:
                return "answer does not carry the TCP port"
            if not 1 <= rp["id"] < 2 ** 64:
                return "answer's own id out of range"
    # junk never changes later answers: every request is answered as if it were alone
    return None


def oracle_alone(im, ctx, dgrams, outs):
    """The answer to each valid request equals the answer of a fresh responder that saw nothing else
    (modulo the answer's own id/timestamp)."""
    for d, o in zip(dgrams, outs):
        if d is None or parse_req(bytes(d)) is None:
            continue
        o2 = impl_session(im, ctx, [d])[0]
        a = (o[0], o[1][:6] + o[1][22:]) if o[0] == "send" else o
        b = (o2[0], o2[1][:6] + o2[1][22:]) if o2[0] == "send" else o2
        if a != b:
            return "earlier datagrams changed the answer to a request"
    return None


def oracle_discover(my_name, req_id, sent, res, replies, wf, cf, cfg_wg):
    if isinstance(res, str):
        ok_exc = False
        if res in ("ValueError", "UnicodeEncodeError"):
            try:
                a, b = (cfg_wg if wf is None else wf).encode(), cf.encode()
                ok_exc = len(a) > 64 or len(b) > 64
            except UnicodeError:
                ok_exc = True
        if res == "UnicodeDecodeError":
            for b, _ in replies:
                rp = parse_resp(b)
                if rp and rp["rid"] == req_id:
                    try:
                        rp["name"].decode()
                    except UnicodeError:
                        ok_exc = True
        return None if ok_exc else "discovery raised %s" % res
    if sent is None:
        return "no request was sent"
    rq = parse_req(sent[0])
    if rq is None or rq["id"] != req_id:
        return "the request sent is not a well-formed request with the drawn id"
    if rq["wf"] != cs((cfg_wg if wf is None else wf).encode()) or rq["cf"] != cs(cf.encode()):
        return "the request does not carry the filters"
    exp = []
    for b, addr in replies:
        rp = parse_resp(b)
        if rp is None or rp["rid"] != req_id:
            continue
        try:
            n = rp["name"].decode()
        except UnicodeError:
            return "discovery returned although a reply to its request carries a name that is not text"
        if n != my_name:
            exp.append((n, "%s:%d" % (addr[0], rp["port"])))
    got = [tuple(x) for x in res]
    if got != exp:
        extra = [x for x in got if x not in exp]
        if any(x[0] == my_name for x in extra):
            return "discovery reported the asking context itself"
        if extra:
            return "discovery reported an answer that is not a reply to its own request"
        return "discovery lost or reordered replies to its own request"
    return None


# ---------------------------------------------------------------------------------------------
# generators
# ---------------------------------------------------------------------------------------------
NAME_ALPHA = string.ascii_letters + string.digits + "_-"
QUIRK = "ab-!]^[*?\\c~&|"
WIDE = ["é", "€", "\U0001F600", "ÿ", "Ā"]


def gen_name(rng, quirky=0.0):
    n = rng.choice([1, 1, 2, 3, 4, 6, 9, 17, 40, 62, 63, 64])
    if rng.random() < quirky:
        return "".join(rng.choice(QUIRK) for _ in range(min(n, rng.choice([1, 2, 3, 5, 8, 64]))))
    alpha = rng.choice([NAME_ALPHA, "abAB", "aA_"])
    return "".join(rng.choice(alpha) for _ in range(n))


def gen_wg(rng):
    r = rng.random()
    if r < 0.45:
        return gen_name(rng)
    if r < 0.75:
        return gen_name(rng, quirky=1.0)
    n = rng.choice([1, 2, 5, 16, 21, 22])
    s = "".join(rng.choice(WIDE + list("ab .")) for _ in range(n))
    while len(s.encode()) > 64 and rng.random() < 0.9:
        s = s[:-1]
    return s


def gen_set_for(rng, ch, include):
    """A bracket expression that (probably) does / does not contain ch."""
    o = ord(ch)
    others = "".join(rng.choice("abAB019_-!]^x") for _ in range(rng.randint(0, 3)))
    kind = rng.randint(0, 3)
    if kind == 0:
        body = others + (ch if include else "")
    elif kind == 1:
        lo, hi = max(1, o - rng.randint(0, 3)), o + rng.randint(0, 3)
        body = (chr(lo) + "-" + chr(hi)) if include else (chr(o + 1) + "-" + chr(o + 3))
        body = rng.choice(["", others]) + body
    elif kind == 2:
        body = "!" + (others.replace(ch, "") if include else others + ch)
        if body == "!":
            body = "!~"
    else:
        body = (ch + others) if include else ("!" + ch + others)
    if not body:
        body = "~"
    return "[" + body + "]"


def gen_pattern_for(rng, t, want):
    """Pattern derived from the target string t; want=True aims at a match."""
    if rng.random() < 0.08:
        return "*" if want else (t + "x")[:64]
    out, i, broke = [], 0, False
    style = rng.choice(["lit", "mix", "mix", "stars"])
    while i < len(t):
        ch = t[i]
        r = rng.random()
        if style == "lit":
            r = 0.0 if ch not in "*?[" else 0.95
        if style == "stars" and r > 0.5:
            k = rng.randint(0, min(6, len(t) - i))
            out.append("*" * rng.choice([1, 1, 2]))
            i += k
            continue
        if r < 0.6 and ch not in "*?[":
            out.append(ch)
        elif r < 0.7:
            out.append("?")
        elif r < 0.8:
            k = rng.randint(0, min(4, len(t) - i))
            out.append("*")
            i += k
            continue
        else:
            out.append(gen_set_for(rng, ch, True))
        i += 1
    if rng.random() < 0.2:
        out.append("*")
    pat = "".join(out)
    if not want:
        m = rng.randint(0, 4)
        if m == 0 and t:
            k = rng.randrange(len(t))
            pat = pat.replace(t[k], t[k].swapcase() if t[k].swapcase() != t[k] else "#", 1)
        elif m == 1:
            pat = pat + rng.choice(["?", "x", "[a]"])
        elif m == 2 and t:
            pat = gen_set_for(rng, t[0], False) + pat[1:]
        elif m == 3:
            pat = pat.swapcase()
        else:
            pat = "".join(rng.choice(QUIRK + "ab") for _ in range(rng.randint(0, 8)))
    if len(pat.encode("utf-8", "replace")) > 64:
        keep = t[:rng.choice([0, 1, 3, 30, 60, 63])]
        pat = "".join(c if c not in "*?[" else "?" for c in keep) + "*"
    return pat


def rand_quirk_pat(rng):
    return "".join(rng.choice("ab*?[]!-^\\ab[]-") for _ in range(rng.choice([0, 1, 2, 3, 4, 5, 6, 8, 10, 12])))


def rand_quirk_str(rng):
    return "".join(rng.choice("ab-]!^[\\c") for _ in range(rng.choice([0, 1, 1, 2, 2, 3, 4, 6])))


def rand_ts(rng):
    return rng.choice([struct.pack("<d", rng.uniform(0, 2e9)), bytes(rng.randrange(256) for _ in range(8)),
                       b"\x01\x00\x00\x00\x00\x00\xf0\x7f", b"\x00" * 8, b"\xff" * 8,
                       b"\x01\x00\x00\x00\x00\x00\xf8\xff"])


def rand_id(rng):
    return rng.choice([0, 1, 2 ** 64 - 1, 2 ** 63, 255, 256, rng.randrange(2 ** 64), rng.randrange(2 ** 64)])


def gen_junk(rng, valid):
    """A datagram that is not a well-formed request (and never a kill request)."""
    while True:
        k = rng.randint(0, 11)
        if k == 0:
            b = bytes(rng.randrange(256) for _ in range(rng.choice([0, 1, 3, 21, 22, 23, 64, 149, 150, 151, 174, 200])))
            kind = "random"
        elif k == 1:
            b, kind = valid[:rng.randrange(0, len(valid))], "truncated"
        elif k == 2:
            b, kind = valid + bytes(rng.randrange(256) for _ in range(rng.choice([1, 1, 2, 24, 100]))), "oversized"
        elif k == 3:
            i = rng.randrange(4)
            b, kind = valid[:i] + bytes([valid[i] ^ (1 << rng.randrange(8))]) + valid[i + 1:], "bad-magic"
        elif k == 4:
            t = rng.choice([0, 1, 0x100, 0x104, 0x200, 0x203, 0x2FF, 0xFFFF, rng.randrange(65536)])
            b, kind = valid[:4] + struct.pack("<H", t) + valid[6:], "tag-not-in-enum"
            if t in ENUM_TAGS:
                continue
        elif k == 5:
            b, kind = valid[:4] + struct.pack("<H", rng.choice([T_START, T_SHUT])) + valid[6:], "tag-startup/shutdown"
        elif k == 6:
            b = mk_resp(rand_id(rng), rand_ts(rng), rand_id(rng), rand_ts(rng), rng.randrange(1, 99999),
                        b"peer", b"wg", rng.randrange(65536))
            kind = "a-response"
        elif k == 7:
            b, kind = valid[:22], "header-only"
        elif k == 8:
            b, kind = valid[:4] + struct.pack("<H", T_RESP) + valid[6:], "response-tag-request-size"
        elif k == 9:
            b, kind = b"", "empty"
        elif k == 10:
            b, kind = valid[:149], "one-byte-short"
        else:
            b, kind = valid + b"\0", "one-byte-long"
        if _never_kill(b) and parse_req(b) is None:
            return b, kind


def gen_ctx(rng):
    name = gen_name(rng, quirky=0.15)
    if rng.random() < 0.04:
        name = name + rng.choice(WIDE)
    wg = gen_wg(rng)
    if rng.random() < 0.03:
        wg = "w" * rng.choice([65, 66, 100])
    if rng.random() < 0.01:
        name = "n\ud800"
    port = rng.choice([0, 1, 80, 35999, 65535, -1, rng.randrange(65536), rng.randrange(65536), 2 ** 31 - 1,
                       2 ** 31, -2 ** 31, 2 ** 32 + 5])
    return {"name": name, "wg": wg, "pid": rng.choice([1, 4242, 2 ** 22, 2 ** 31 - 1, rng.randrange(1, 2 ** 22)]),
            "port": port}


def gen_request(rng, ctx):
    wm, cm = rng.random() < 0.8, rng.random() < 0.8
    wf = gen_pattern_for(rng, ctx["wg"], wm).encode("utf-8", "replace")
    cf = gen_pattern_for(rng, ctx["name"], cm).encode("utf-8", "replace")
    r = rng.random()
    if r < 0.03:
        wf = rng.choice([b"\xff", b"\xc3", b"a\x80", b"\xed\xa0\x80", b"\xc0\xaf", b"\xf4\x90\x80\x80"])
    elif r < 0.06:
        cf = rng.choice([b"\xfe*", b"*\xe2\x82", b"\xf8"])
    elif r < 0.10:
        wf = wf[:10] + b"\0" + b"garbage after NUL"
    if len(wf) > 64:
        wf = b"*"
    if len(cf) > 64:
        cf = b"*"
    return mk_req(rand_id(rng), rand_ts(rng), wf, cf)


def gen_session(rng):
    ctx = gen_ctx(rng)
    dgrams, kinds = [], []
    nreq = rng.choice([1, 1, 2, 3])
    for _ in range(nreq):
        req = gen_request(rng, ctx)
        for _ in range(rng.choice([0, 0, 1, 2, 3, 4])):
            j, kind = gen_junk(rng, req)
            dgrams.append(j)
            kinds.append(kind)
        if rng.random() < 0.05:
            dgrams.append(None)
            kinds.append("spurious-wakeup")
        dgrams.append(req)
        kinds.append("request")
    if rng.random() < 0.3:
        j, kind = gen_junk(rng, dgrams[-1])
        dgrams.append(j)
        kinds.append(kind)
    return ctx, dgrams, kinds


# ---------------------------------------------------------------------------------------------
# Coq terms
# ---------------------------------------------------------------------------------------------

def ccps(s):
    return "[" + ";".join(str(ord(ch)) for ch in s) + "]%N"


def c_ctx(ctx):
    return "(mkctx %s %s %s %s)" % (ccps(ctx["name"]), ccps(ctx["wg"]), cZ(ctx["pid"]), cZ(ctx["port"]))


def c_hout(o):
    if o[0] == "nothing":
        return "HNothing"
    if o[0] == "raise" and o[1] in EXN:
        return "HRaise " + EXN[o[1]]
    if o[0] == "send":
        return "HSend " + cbytes(o[1])
    return "HExit"      # exit / weird: the model never yields it for generated input


def c_session_parts(ctx, dgrams, outs):
    ds = []
    for d, o in zip(dgrams, outs):
        if d is None:
            continue     # a wake-up without a datagram is not a model step (oracle checks it is a no-op)
        if o[0] == "send" and len(o[1]) >= 22:
            nid, nts = struct.unpack("<Q", o[1][6:14])[0], o[1][14:22]
        else:
            nid, nts = 0, b""
        ds.append("(%s, %s, %s)" % (cN(nid), cbytes(nts), cbytes(d)))
    obs = [c_hout(o) for d, o in zip(dgrams, outs) if d is not None]
    return c_ctx(ctx), clist(ds), clist(obs)


def c_session(ctx, dgrams, outs):
    return "CSession %s %s %s" % c_session_parts(ctx, dgrams, outs)


def c_unpack(b, o):
    if o[0] == "req":
        t = "UO_req %s %s %s %s %s" % (cN(o[1]), cbytes(o[2]), cbytes(o[3]), cbytes(o[4]), cbytes(o[5]))
    elif o[0] == "resp":
        t = "UO_resp %s %s %s %s %s %s %s %s %s" % (cN(o[1]), cbytes(o[2]), cN(o[3]), cbytes(o[4]), cZ(o[5]),
                                                  cbytes(o[6]), cbytes(o[7]), cZ(o[8]), cbytes(o[9]))
    elif o[0] == "qmi_exc":
        t = "UO_qmi_exc"
    elif o[0] == "value_exc":
        t = "UO_value_exc"
    else:
        t = "UO_kill 0%N []%N []%N"     # weird: never equal to the model's view of generated input
    return "CUnpack %s (%s)" % (cbytes(b), t)


def c_found(res):
    if isinstance(res, str):
        return "None"
    items = []
    for n, ap in res:
        items.append("(%s, %s)" % (ccps(n), cZ(int(ap.rsplit(":", 1)[1]))))
    return "(Some %s)" % clist(items)


# ---------------------------------------------------------------------------------------------
# the run
# ---------------------------------------------------------------------------------------------

def ts_nan(b):
    return len(b) == 8 and (struct.unpack("<Q", b)[0] & 0x7FF0000000000000) == 0x7FF0000000000000 \
        and (struct.unpack("<Q", b)[0] & 0x000FFFFFFFFFFFFF) != 0


def run(ck):
    ck.theory_dir = THEORY
    ck.build_theory(THEORY)
    ck.trusted = [
        "Coq 8.16.1 kernel (vm_compute evaluates the model on the cases)",
        "hand-written model theories/C18/Model.v of the packet layout, unpack_qmi_udp_packet, _UdpResponder._handle_read, "
        "ping_qmi_contexts/discover_peer_contexts, tied to /repo by this run's correspondence",
        "model's transcription of CPython 3.12 fnmatch.translate (gmatch) and of strict UTF-8 decode/encode: compared "
        "differentially with fnmatch.fnmatchcase / bytes.decode / str.encode on every run, not verified",
        "ctypes packed little-endian layout and c_char-array field semantics (compared on every run)",
        "python harness c18.py: scripted datagram socket, recording event loop, stand-ins for socket/selectors/time/random "
        "as seen from qmi.core.context, struct-based packet builder/parser used by the oracle",
        "OS UDP: whole datagrams, at most 4096 bytes read; real broadcast delivery is outside",
    ]
    ck.assumptions = [
        "the kill-request packet type (tag 0x202) is never generated: it is a well-formed request of another kind that makes "
        "the process exit; the model's Kill branch is therefore not exercised against the code",
        "an exception leaving _handle_read (ValueError for a 16-bit tag outside the enum, UnicodeDecodeError for a request "
        "whose filter is not UTF-8) counts as 'datagram ignored': asyncio logs it and the loop goes on (DESIGN 8.1)",
        "the responder's own message id and timestamp (random.randint, time.time) are inputs of the model, read off the answer",
        "case-sensitivity is observed by running the responder with an os.path.normcase that folds case (as on Windows)",
    ]
    rng = ck.rng
    big = ck.tier != "quick"
    terms, metas = [], []

    def add(term, meta):
        terms.append(term)
        metas.append(meta)

    with Impl() as im:
        # ---- 1. responder sessions ------------------------------------------------------------
        nsess = 700 if not big else 8000
        for i in range(nsess):
            ctx, dgrams, kinds = gen_session(rng)
            outs = impl_session(im, ctx, dgrams)
            for k in kinds:
                ck.count("dgram:" + k)
            answered = sum(1 for o in outs if o[0] == "send")
            ck.count("session-answers:%d" % min(answered, 3))
            for d, o in zip(dgrams, outs):
                if d is not None and parse_req(bytes(d)):
                    ck.count("request:" + o[0])
                    if o[0] == "send" and ts_nan(bytes(d)[14:22]):
                        ck.count("request:answered-with-NaN-timestamp")
            ck.count("name-bytes:%s" % (lambda n: n if n in (1, 62, 63, 64) else "other")(len(ctx["name"].encode("utf-8", "replace"))))
            ck.note_case(("S", ctx, dgrams), answered > 0 and len(dgrams) > 1)
            why = oracle_session(ctx, dgrams, outs) or (oracle_alone(im, ctx, dgrams, outs) if i % 4 == 0 else None)
            meta = {"kind": "session", "ctx": ctx, "dgrams": [None if d is None else list(d) for d in dgrams]}
            if why:
                report_session(ck, im, why, ctx, dgrams)
            add(c_session(ctx, dgrams, outs), meta)
        ck.sample({"kind": "session", "ctx": ctx, "datagram_kinds": kinds, "observed": [o[0] for o in outs]})

        # ---- 2. names at the 63/64-byte limit, exhaustive small sweep ------------------------
        for n in (1, 2, 62, 63, 64):
            for patkind in ("exact", "star", "prefix*", "q", "Case", "longer"):
                name = "".join(rng.choice(NAME_ALPHA) for _ in range(n))
                wg = "".join(rng.choice(NAME_ALPHA) for _ in range(rng.choice([1, 63, 64])))
                pat = {"exact": name, "star": "*", "prefix*": name[:n - 1] + "*", "q": "?" * n,
                       "Case": name.swapcase(), "longer": (name + "?")[:64]}[patkind]
                ctx = {"name": name, "wg": wg, "pid": 77, "port": 1234}
                dgrams = [mk_req(rand_id(rng), rand_ts(rng), wg.encode(), pat.encode())]
                outs = impl_session(im, ctx, dgrams)
                ck.count("limit-sweep:%s" % outs[0][0])
                ck.note_case(("L", ctx, dgrams), True)
                why = oracle_session(ctx, dgrams, outs)
                if why:
                    report_session(ck, im, why, ctx, dgrams)
                add(c_session(ctx, dgrams, outs), {"kind": "session", "ctx": ctx, "dgrams": [list(d) for d in dgrams]})

        # ---- 3. unpack: every truncation/extension of valid packets, tags, random ------------
        valid_req = mk_req(0x1122334455667788, rand_ts(rng), b"wg*", b"x" * 64)
        valid_resp = mk_resp(7, rand_ts(rng), 2 ** 64 - 1, rand_ts(rng), -5, b"n" * 64, b"w" * 63, -1)
        ubs = []
        for v in (valid_req, valid_resp):
            for ln in range(0, len(v) + 3):
                ubs.append(((v + b"\x01\x02\x03")[:ln], "length-sweep"))
        for t in list(range(0x0FE, 0x106)) + list(range(0x1FE, 0x206)) + [0, 0xFFFF] + \
                [rng.randrange(65536) for _ in range(120 if not big else 1500)]:
            if t == T_KILL:
                continue
            for v in (valid_req, valid_resp, valid_req[:22]):
                if rng.random() < 0.5 or t in ENUM_TAGS:
                    ubs.append((v[:4] + struct.pack("<H", t) + v[6:], "tag-sweep"))
        for _ in range(300 if not big else 4000):
            r = rng.random()
            if r < 0.35:
                ubs.append((mk_req(rand_id(rng), rand_ts(rng), rand_field(rng), rand_field(rng)), "valid-request"))
            elif r < 0.7:
                ubs.append((mk_resp(rand_id(rng), rand_ts(rng), rand_id(rng), rand_ts(rng),
                                    rng.choice([-2 ** 31, -1, 0, 1, 2 ** 31 - 1, rng.randrange(-2 ** 31, 2 ** 31)]),
                                    rand_field(rng), rand_field(rng),
                                    rng.choice([-2 ** 31, -1, 0, 65535, 2 ** 31 - 1, rng.randrange(-2 ** 31, 2 ** 31)])),
                            "valid-response"))
            else:
                ubs.append(gen_junk(rng, valid_req))
        for b, kind in ubs:
            if not _never_kill(b):
                continue
            o = impl_unpack(b)
            ck.count("unpack:" + kind)
            ck.count("unpack-result:" + o[0])
            ck.note_case(("U", b), o[0] in ("req", "resp"))
            why = oracle_unpack(b, o)
            if why:
                ck.report("oracle:unpack:" + why[:40], "C18 fails on the implementation: " + why,
                          {"kind": "unpack", "bytes": list(b), "observed": repr(o)})
            add(c_unpack(b, o), {"kind": "unpack", "bytes": list(b)})
        # all 16-bit tags (python side only; a sample went to the model above)
        for t in range(65536):
            if t == T_KILL:
                continue
            o = impl_unpack(valid_req[:4] + struct.pack("<H", t) + valid_req[6:])
            exp = "req" if t == T_REQ else "qmi_exc" if t in ENUM_TAGS else "value_exc"
            if o[0] != exp:
                ck.report("oracle:unpack:tag", "request-sized datagram with tag %d: %s" % (t, o[0]),
                          {"kind": "unpack", "bytes": list(valid_req[:4] + struct.pack("<H", t) + valid_req[6:])})
        ck.count("unpack:all-65535-tags(python only)", 65535)

        # ---- 4. gmatch vs fnmatch.fnmatchcase -------------------------------------------------
        nglob = 9000 if not big else 120000
        pairs = []
        for _ in range(nglob):
            r = rng.random()
            if r < 0.45:
                qp = rand_quirk_pat(rng)
                qs = rand_quirk_str(rng)
                if rng.random() < 0.6:       # look for a string the pattern accepts
                    for _ in range(12):
                        if fnmatch.fnmatchcase(qs, qp):
                            break
                        qs = rand_quirk_str(rng)
                pairs.append((qp, qs, "quirk"))
            elif r < 0.9:
                t = gen_name(rng, quirky=0.2) if rng.random() < 0.8 else gen_wg(rng)
                pairs.append((gen_pattern_for(rng, t, rng.random() < 0.6), t, "derived"))
            else:
                t = gen_name(rng)
                pairs.append((("*" + rng.choice("ab?")) * rng.randint(1, 12) + rng.choice(["", "*", "b"]),
                              "".join(rng.choice("ab") for _ in range(rng.choice([0, 5, 30, 64]))), "many-stars"))
        for a in ("", "a", "*", "?", "[", "]", "[]", "[!]", "[]]", "[!]]", "[a-]", "[-a]", "[!-a]", "[z-a]", "[!z-a]",
                  "[x-a!b]", "[a-b-c]", "[b-a-z]", "[--a]", "[]-a]", "[\\]", "[\\-a]", "[^a]", "[[a]", "[a", "[!a", "a[",
                  "[c-ba-0]", "[!z-ab-c]", "[a-c][!a-c]", "**", "*[", "[*]", "[?]", "[a&&b]", "[~~]", "[||]"):
            for s in ("", "a", "b", "-", "]", "!", "^", "[", "\\", "z", "[a", "[!a", "a[", "ab", "&", "~", "|", "*", "?", "c"):
                pairs.append((a, s, "table"))
        for pat, s, kind in pairs:
            try:
                got = bool(fnmatch.fnmatchcase(s, pat))
            except Exception as e:  # noqa  (re.error would be a finding about the library use)
                ck.report("oracle:fnmatch-raises", "fnmatchcase(%r, %r) raises %s" % (s, pat, type(e).__name__),
                          {"kind": "glob", "pat": pat, "s": s})
                continue
            ck.count("glob:%s:%s" % (kind, "match" if got else "no-match"))
            ck.note_case(("G", pat, s), True)
            add("CGlob %s %s %s" % (ccps(pat), ccps(s), cbool(got)), {"kind": "glob", "pat": pat, "s": s, "fnmatchcase": got})
        ck.sample({"kind": "glob", "pat": pairs[0][0], "s": pairs[0][1]})

        # ---- 5. UTF-8 transcription -----------------------------------------------------------
        for _ in range(400 if not big else 5000):
            if rng.random() < 0.5:
                b = bytes(rng.choice([0x41, 0x7f, 0x80, 0xbf, 0xc0, 0xc1, 0xc2, 0xdf, 0xe0, 0xe1, 0xec, 0xed, 0xee, 0xef,
                                      0xf0, 0xf1, 0xf4, 0xf5, 0xff, 0x9f, 0xa0, 0x8f, 0x90]) for _ in range(rng.randint(0, 5)))
            else:
                b = "".join(chr(rng.choice([0x41, 0x7f, 0x80, 0x7ff, 0x800, 0xd7ff, 0xe000, 0xffff, 0x10000, 0x10ffff,
                                            rng.randrange(0x110000)])) for _ in range(rng.randint(0, 4))).encode("utf-8", "ignore")
                if rng.random() < 0.3 and b:
                    b = b[:-1]
            try:
                d = [ord(c) for c in b.decode()]
            except UnicodeDecodeError:
                d = None
            ck.count("utf8-decode:" + ("ok" if d is not None else "error"))
            ck.note_case(("D", b), True)
            add("CDec %s %s" % (cbytes(b), copt(d, lambda x: "[" + ";".join(map(str, x)) + "]%N")), {"kind": "dec", "bytes": list(b)})
            cps = [rng.choice([0x41, 0x7f, 0x80, 0x7ff, 0x800, 0xd7ff, 0xd800, 0xdfff, 0xe000, 0xffff, 0x10000, 0x10ffff,
                               rng.randrange(0x110000)]) for _ in range(rng.randint(0, 3))]
            try:
                e = list("".join(map(chr, cps)).encode())
            except UnicodeEncodeError:
                e = None
            add("CEnc %s %s" % ("[" + ";".join(map(str, cps)) + "]%N", copt(e, cbytes)), {"kind": "enc", "cps": cps})

        # ---- 6. asking side -------------------------------------------------------------------
        ndisc = 250 if not big else 3000
        for i in range(ndisc):
            case = gen_discover(rng)
            sent, res, replies, ok_sock = impl_discover(im, **case)
            wf_used = case["cfg_wg"] if case["wf"] is None else case["wf"]
            why = oracle_discover(case["my_name"], case["req_id"], sent, res, replies, case["wf"], case["cf"], case["cfg_wg"])
            if not ok_sock and not why:
                why = "the socket was not closed"
            nrep = sum(1 for b, _ in replies if (parse_resp(b) or {}).get("rid") == case["req_id"])
            ck.count("discover:%s" % ("raised" if isinstance(res, str) else "found-%d" % min(len(res), 3)))
            ck.count("discover:responders-%d" % len(case["responders"]))
            ck.note_case(("C", case["my_name"], case["req_id"], [b for b, _ in replies]), nrep > 0)
            meta = {"kind": "discover", "case": {k: (v if k != "replies" else [[list(b), list(a)] for b, a in v])
                                                 for k, v in case.items()}}
            if why:
                ck.report("oracle:discover:" + why[:50], "C18 fails on the implementation: " + why, meta)
            if sent is not None and (isinstance(res, list) or res == "UnicodeDecodeError"):
                add("CCollect %s %s %s %s" % (ccps(case["my_name"]), cN(case["req_id"]),
                                              clist([cbytes(b) for b, _ in replies]), c_found(res)), meta)
            ts = sent[0][14:22] if sent is not None and len(sent[0]) >= 22 else b"\0" * 8
            if sent is not None:
                pres = "PSent " + cbytes(sent[0])
            else:
                pres = "PRaise " + EXN.get(res if isinstance(res, str) else "", "EUnicodeDecode")
            add("CPing %s %s %s %s (%s)" % (cN(case["req_id"]), cbytes(ts), ccps(wf_used), ccps(case["cf"]), pres), meta)
        ck.sample({"kind": "discover", "my_name": case["my_name"], "filters": [case["wf"], case["cf"]],
                   "result": res if isinstance(res, str) else [list(x) for x in res]})

    # small cases (pattern/string pairs, UTF-8) in big shards, byte-heavy cases in small ones
    small = [i for i, m in enumerate(metas) if m["kind"] in ("glob", "dec", "enc")]
    large = [i for i, m in enumerate(metas) if m["kind"] not in ("glob", "dec", "enc")]
    bad = [large[j] for j in ck.run_model("C18.Corr", "check_case", [terms[i] for i in large], "case", shard=100)]
    bad += [small[j] for j in ck.run_model("C18.Corr", "check_case", [terms[i] for i in small], "case", shard=1000)]
    ck.coverage["correspondence_disagreements"] = len(bad)
    for i in bad[:5]:
        m = metas[i]
        why = None
        with Impl() as im:
            if m["kind"] == "session":
                dg = [None if d is None else bytes(d) for d in m["dgrams"]]
                ctx = m["ctx"]
                outs = impl_session(im, ctx, dg)
                why = oracle_session(ctx, dg, outs) or oracle_alone(im, ctx, dg, outs)
                parts = c_session_parts(ctx, dg, outs)
                m = dict(m, impl_observed=[repr(o) for o in outs],
                         model=ck.model_eval("C18.Corr", "model_session %s %s" % parts[:2])[-3000:])
            elif m["kind"] == "unpack":
                o = impl_unpack(bytes(m["bytes"]))
                why = oracle_unpack(bytes(m["bytes"]), o)
                m = dict(m, impl_observed=repr(o))
            elif m["kind"] == "discover":
                k = dict(m["case"])
                k["replies"] = [(bytes(b_), tuple(a_)) for b_, a_ in k["replies"]]
                sent, res, replies, _ = impl_discover(im, **k)
                why = oracle_discover(k["my_name"], k["req_id"], sent, res, replies, k["wf"], k["cf"], k["cfg_wg"])
                m = dict(m, impl_observed=repr(res))
        ck.report("corr:%s:%s" % (m["kind"], "oracle-fails" if why else "model-differs"),
                  "implementation and Coq model disagree (%s case)" % m["kind"] + (": " + why if why else
                                                                                     " (property oracle passes on it)"),
                  dict(m, broken="correspondence C18.Corr.check_case"), found_input=bool(why))
    return ck.finish("sessions on one real _UdpResponder (0-4 junk datagrams before each of 1-3 requests) + 63/64-byte sweep "
                     "+ unpack length/tag sweeps + fnmatchcase differential + UTF-8 differential + scripted discovery; "
                     "non-trivial session = at least one answer and more than one datagram; distinct by content hash")


def rand_field(rng):
    r = rng.random()
    if r < 0.3:
        return bytes(rng.randrange(1, 256) for _ in range(rng.choice([0, 1, 5, 62, 63, 64])))
    if r < 0.6:
        return bytes(rng.randrange(256) for _ in range(64))
    return gen_name(rng).encode()


def oracle_unpack(b, o):
    if o[0] == "weird":
        return "unpack gave %s" % o[1]
    rq, rp = parse_req(b), parse_resp(b)
    if rq:
        ok = o[0] == "req" and o[1] == rq["id"] and o[3] == rq["wf"] and o[4] == rq["cf"] and o[5] == b \
            and (o[2] == rq["ts"] or ts_nan(rq["ts"]))
        return None if ok else "a well-formed request was not unpacked to its fields"
    if rp:
        ok = o[0] == "resp" and (o[1], o[3], o[5], o[6], o[7], o[8], o[9]) == \
            (rp["id"], rp["rid"], rp["pid"], rp["name"], rp["wg"], rp["port"], b)
        return None if ok else "a well-formed response was not unpacked to its fields"
    if o[0] in ("req", "resp"):
        return "junk accepted: a datagram that is not a well-formed packet was unpacked"
    return None


def gen_discover(rng):
    my = gen_name(rng)
    req_id = rng.choice([1, 2 ** 64 - 1, rng.randrange(1, 2 ** 64)])
    cfg_wg = gen_wg(rng)
    wf = None if rng.random() < 0.3 else gen_pattern_for(rng, cfg_wg, True)
    cf = rng.choice(["*", "*", gen_pattern_for(rng, my, True), rand_quirk_pat(rng)])
    if rng.random() < 0.04:
        cf = "x" * 65
    if rng.random() < 0.02:
        cf = "\udc80"
    responders = []
    if rng.random() < 0.5:
        for _ in range(rng.randint(1, 4)):
            n = my if rng.random() < 0.25 else gen_name(rng)
            responders.append((n, cfg_wg if rng.random() < 0.8 else gen_wg(rng), rng.randrange(65536),
                               rng.randrange(1, 2 ** 22)))
    replies = []
    for _ in range(rng.choice([0, 1, 2, 3, 5, 8])):
        r = rng.random()
        addr = ("192.168.%d.%d" % (rng.randrange(256), rng.randrange(256)), rng.randrange(1, 65536))
        name = (my if rng.random() < 0.3 else rng.choice([gen_name(rng), my + "x", my[:-1], my.swapcase(), my + "é"])).encode()[:64]
        rid = req_id if rng.random() < 0.7 else rng.choice([req_id ^ 1, (req_id + 1) % 2 ** 64, 0, rng.randrange(2 ** 64)])
        # stray answers to SOMEBODY ELSE's request issued in the same clock tick echo our timestamp but not our id
        rts = REQ_TS_MARK if rng.random() < 0.5 else rand_ts(rng)
        good = mk_resp(rand_id(rng), rand_ts(rng), rid, rts, rng.randrange(1, 2 ** 22), name,
                       gen_name(rng).encode(), rng.choice([-1, 0, 65535, rng.randrange(65536)]))
        if r < 0.65:
            b = good
        elif r < 0.72:
            b = good[:rng.randrange(len(good))]
        elif r < 0.79:
            b = good + b"\0"
        elif r < 0.84:
            b = mk_req(req_id, rand_ts(rng), b"*", b"*")
        elif r < 0.89:
            b = good[:4] + struct.pack("<H", rng.choice([0, 0x100, T_START, T_SHUT, 0xFFFF])) + good[6:]
        elif r < 0.93:
            b = b"X" + good[1:]
        elif r < 0.96:
            b = mk_resp(1, rand_ts(rng), req_id, rand_ts(rng), 1, rng.choice([b"\xff", b"ab\xc3", b"\xed\xa0\x80"]), b"w", 1)
        else:
            b = bytes(rng.randrange(256) for _ in range(rng.choice([0, 5, 174])))
        if _never_kill(b):
            replies.append((b, addr))
    return {"my_name": my, "cfg_wg": cfg_wg, "wf": wf, "cf": cf, "req_id": req_id, "replies": replies,
            "responders": responders}


def shrink_session(im, ctx, dgrams, _unused=None):
    """Drop datagrams while the oracle still fails."""
    def bad(ds):
        outs = impl_session(im, ctx, ds)
        return bool(oracle_session(ctx, ds, outs) or oracle_alone(im, ctx, ds, outs))
    i = 0
    while i < len(dgrams) and len(dgrams) > 1:
        t = dgrams[:i] + dgrams[i + 1:]
        if bad(t):
            dgrams = t
        else:
            i += 1
    return ctx, dgrams


def report_session(ck, im, why, ctx, dgrams):
    ctx, dgrams = shrink_session(im, ctx, list(dgrams))
    outs = impl_session(im, ctx, dgrams)
    why = oracle_session(ctx, dgrams, outs) or oracle_alone(im, ctx, dgrams, outs) or why
    ck.report("oracle:session:" + why.split("(")[0].strip()[:60], "C18 fails on the implementation: " + why,
              {"kind": "session", "ctx": ctx, "dgrams": [None if d is None else list(d) for d in dgrams],
               "impl_observed": [repr(o) for o in outs]})


def replay(rep):
    c = rep["case"]
    with Impl() as im:
        if c["kind"] == "session":
            dg = [None if d is None else bytes(d) for d in c["dgrams"]]
            if not all(d is None or _never_kill(d) for d in dg):
                print("refusing to replay a kill request")
                return 2
            outs = impl_session(im, c["ctx"], dg)
            for d, o in zip(dg, outs):
                print("datagram", None if d is None else d.hex(), "->", o[0], o[1].hex() if o[0] == "send" else o[1:])
            why = oracle_session(c["ctx"], dg, outs) or oracle_alone(im, c["ctx"], dg, outs)
        elif c["kind"] == "unpack":
            b = bytes(c["bytes"])
            o = impl_unpack(b)
            print("unpack ->", o)
            why = oracle_unpack(b, o)
        elif c["kind"] == "discover":
            k = dict(c["case"])
            k["replies"] = [(bytes(b), tuple(a)) for b, a in k["replies"]]
            k["responders"] = [tuple(r) for r in k["responders"]]
            sent, res, replies, ok_sock = impl_discover(im, **k)
            print("request sent:", None if sent is None else sent[0].hex())
            print("result:", res)
            why = oracle_discover(k["my_name"], k["req_id"], sent, res, replies, k["wf"], k["cf"], k["cfg_wg"])
        elif c["kind"] == "glob":
            print("fnmatchcase(%r, %r) = %r" % (c["s"], c["pat"], fnmatch.fnmatchcase(c["s"], c["pat"])))
            why = None
        else:
            why = None
    print("oracle:", why or "property holds on this case")
    return 1 if why else 0
