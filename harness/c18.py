"""C18 — discovery answers exactly the matching requests and survives junk datagrams.

Correspondence (H1, no network, no threads):
  * the real qmi.core.messaging._UdpResponder is constructed on a scripted datagram socket and a
    scripted event loop that treats reader callbacks as asyncio does (an Exception leaving a callback
    is handed to the loop's exception handler and the loop goes on; SystemExit / KeyboardInterrupt
    stop the loop).  Datagrams arrive in bursts; the loop calls the registered reader callback while
    datagrams are queued (level-triggered), so the harness does not care how many datagrams one call
    handles.  What is sent for each datagram is compared with theories/C18/Model.v `run`;
  * the real unpack_qmi_udp_packet against `unpack` (accepted or not; fields of accepted packets);
  * the real ping_qmi_contexts + QMI_Context.discover_peer_contexts with socket / selectors /
    time / random (as seen from qmi.core.context) replaced by scripted stand-ins, also end to
    end against 1-4 real responders, against `ping_request` / `collect`;
  * fnmatch.fnmatchcase against `gmatch`; bytes.decode()/str.encode() against utf8_dec/utf8_enc.
The property oracle below re-states C18 on the implementation's observations without the model.

What is a CLAIM (checked) and what is an OBSERVATION (only counted in the evidence):
  claims: a request is answered iff both filters match per fnmatchcase, one answer, to the sender, echoing id
          and timestamp and carrying name/workgroup/pid/port; anything that is not a well-formed request gets no
          answer; after any sequence the responder is still registered, its socket open, the loop alive and a
          probe request is answered; discovery reports exactly (as a set) the readable replies to its own request
          that are not from itself;
  observations: the exception class used to reject a datagram or a call, whether the rejection happens inside the
          handler or in the loop's exception handler, log output, the receive buffer size passed to recvfrom
          (the scripted socket truncates to it like the OS), how many datagrams one wake-up handles, the order of
          the peers reported, whether the asking socket is closed, the request id the asker draws (read off the
          request it sends).

SAFETY: the kill-request packet type (tag 0x202) is never generated (guard `_never_kill`), and
os._exit is replaced while implementation code runs.
"""
import fnmatch
import logging
import ntpath
import os
import string
import struct
import warnings

import common
from common import cZ, cN, cbool, clist, cbytes, copt

THEORY = "C18"
MAGIC = 0x00494D51
T_REQ, T_KILL, T_RESP, T_START, T_SHUT = 0x201, 0x202, 0x101, 0x102, 0x103
ENUM_TAGS = {T_REQ, T_KILL, T_RESP, T_START, T_SHUT}


def src_addr(idx):
    """source address of the idx-th datagram of a session (all different: answers must go to the right one)"""
    return ("10.1.%d.%d" % (2 + idx // 200, 3 + idx % 200), 40000 + idx)


# ---------------------------------------------------------------------------------------------
# safety + stubs
# ---------------------------------------------------------------------------------------------

class _ExitCalled(BaseException):
    pass


def _never_kill(b):
    """True if the datagram may be handed to implementation code (it is not a kill request)."""
    b = bytes(b)
    return not (len(b) >= 6 and b[4:6] == struct.pack("<H", T_KILL))


class _Proxy:
    """Module stand-in: named overrides, everything else from the real module."""

    def __init__(self, real, **over):
        self.__dict__["_real"] = real
        self.__dict__.update(over)

    def __getattr__(self, k):
        return getattr(self.__dict__["_real"], k)


class Sock:
    """Scripted datagram socket.  inq holds (index, data, source address); recvfrom truncates to the buffer size the
    code passes (as the OS does) and logs which datagram was read; sendto logs what was sent after which read."""

    def __init__(self):
        self.inq, self.sent, self.closed = [], [], False
        self.events = []          # ("recv", idx) | ("send", bytes, addr)
        self.current = None       # index of the datagram read last
        self.bufsizes = set()

    def setblocking(self, b):
        pass

    def settimeout(self, t):
        pass

    def fileno(self):
        return 77

    def getsockname(self):
        return ("0.0.0.0", 35999)

    def recvfrom(self, n, *flags):
        if not self.inq:
            raise BlockingIOError()
        idx, data, addr = self.inq.pop(0)
        self.current = idx
        self.bufsizes.add(n)
        self.events.append(("recv", idx))
        return data[:n], addr

    def sendto(self, data, *rest):
        addr = rest[-1]
        self.events.append(("send", bytes(data), addr))
        self.sent.append((bytes(data), addr))

    def setsockopt(self, *a):
        pass

    def bind(self, addr):
        pass

    def close(self):
        self.closed = True


class Loop:
    """Scripted event loop: reader callbacks are run the way asyncio's Handle._run runs them."""

    def __init__(self):
        self.readers = {}
        self.escaped = []         # (exception class name, index of the datagram being handled)
        self.killed = None        # SystemExit / KeyboardInterrupt left a callback: asyncio stops

    def add_reader(self, fd, cb, *args):
        self.readers[fd] = (cb, args)

    def remove_reader(self, fd):
        return self.readers.pop(fd, None) is not None

    def wake(self, sock):
        for cb, args in list(self.readers.values()):
            try:
                cb(*args)
            except _ExitCalled:
                raise
            except (SystemExit, KeyboardInterrupt) as e:
                self.killed = type(e).__name__
            except BaseException as e:   # noqa  -> loop.call_exception_handler(...); the loop goes on
                self.escaped.append((type(e).__name__, sock.current))


class Router:
    def __init__(self, name, wg, port):
        self.context_name, self.workgroup_name, self.tcp_server_port = name, wg, port


class Impl:
    """Everything that touches implementation code runs inside `with Impl():`."""

    def __enter__(self):
        import qmi.core.messaging as M
        self.M = M
        self._exit = os._exit
        os._exit = self._fake_exit
        self.exit_calls = 0
        self.real_getpid = os.getpid
        self.pid_mode = "scripted"      # set by calibrate(): does the code ask os.getpid() when it answers?
        # a platform whose os.path.normcase folds case (Windows): the filters must stay
        # case-sensitive there too.  fnmatchcase does not look at it.
        self._f_os = fnmatch.os
        fnmatch.os = _Proxy(self._f_os, path=_Proxy(self._f_os.path, normcase=ntpath.normcase))
        logging.disable(logging.CRITICAL)
        self._w = warnings.catch_warnings()
        self._w.__enter__()
        warnings.simplefilter("ignore")
        self.rejected_by = {}      # observation: exception classes seen when a datagram / call is rejected
        self.bufsizes = set()      # observation: receive buffer sizes the code asks for
        return self

    def _fake_exit(self, code=0):
        self.exit_calls += 1
        raise _ExitCalled()

    def __exit__(self, *a):
        self._w.__exit__(*a)
        logging.disable(logging.NOTSET)
        fnmatch.os = self._f_os
        os.getpid = self.real_getpid
        os._exit = self._exit
        return False

    def as_pid(self, pid):
        """ambient process id while implementation code runs: `pid` as reported by os.getpid() (None: the real one)"""
        im = self

        class _P:
            def __enter__(self_):
                if pid is not None and im.pid_mode == "scripted":
                    os.getpid = lambda: pid

            def __exit__(self_, *a):
                os.getpid = im.real_getpid
                return False
        return _P()

    def own_pid(self, pid):
        """the process id an answer must carry when the ambient pid is `pid`: computed in the process that answers"""
        return pid if (pid is not None and self.pid_mode == "scripted") else self.real_getpid()

    def calibrate(self):
        """Does the code look the pid up through os.getpid() at the time it answers (then the harness can vary it
        cheaply)?  If the answer carries the real pid instead, only the forked sessions can tell a stale pid."""
        ctx = {"name": "cal", "wg": "wg", "pid": 1234567, "port": 1}
        outs, _ = impl_session(self, ctx, [[mk_req(1, b"CALIBRAT", b"*", b"*")]], probe=False)
        rp = parse_resp(outs[0][1]) if outs and outs[0][0] == "send" else None
        if rp is not None and rp["pid"] == self.real_getpid():
            self.pid_mode = "real"
        return None if rp is None else rp["pid"]

    def saw(self, where, cls):
        k = "%s:%s" % (where, cls)
        self.rejected_by[k] = self.rejected_by.get(k, 0) + 1

    def responder(self, name, wg, port):
        sock, loop = Sock(), Loop()
        r = self.M._UdpResponder(loop, Router(name, wg, port), sock)
        if len(loop.readers) != 1:
            raise common.TieBroken("the UDP responder registered %d reader callbacks with its event loop; the harness "
                                   "delivers datagrams through exactly one" % len(loop.readers))
        return r, sock, loop


PROBE_ID = 0x50524F4245215F21
PROBE_TS = b"PROBE_TS"


def sendable(ctx):
    """the context's names fit the packet's 64-byte text fields"""
    try:
        return len(ctx["name"].encode()) <= 64 and len(ctx["wg"].encode()) <= 64
    except UnicodeError:
        return False


class Session:
    """One real _UdpResponder on a scripted socket and loop.  ctx: the context's identity record {name, wg, port, pid,
    build_pid?}; pid / build_pid = ambient process id (as os.getpid() reports it) while datagrams are handled / while
    the responder is constructed; None = the real pid of the process this runs in."""

    def __init__(self, im, ctx):
        self.im, self.ctx = im, ctx
        with im.as_pid(ctx.get("build_pid", ctx["pid"])):
            _, self.sock, self.loop = im.responder(ctx["name"], ctx["wg"], ctx["port"])
        self.n, self.exits, self.unread, self.fed = 0, set(), set(), []

    def _pump(self, k):
        """level-triggered delivery: call the reader while something is queued"""
        sock, loop, calls = self.sock, self.loop, 0
        while True:
            before = len(sock.inq)
            try:
                loop.wake(sock)
            except _ExitCalled:
                self.exits.add(sock.current)
            calls += 1
            if not sock.inq or loop.killed:
                return
            if len(sock.inq) == before or calls > k + 3:
                self.unread.update(i for i, _, _ in sock.inq)     # the responder does not read any more
                del sock.inq[:]
                return

    def feed(self, burst):
        for d in burst:
            assert _never_kill(d)
            self.sock.inq.append((self.n, bytes(d), src_addr(self.n)))
            self.n += 1
        self.fed.append(list(burst))
        with self.im.as_pid(self.ctx["pid"]):
            self._pump(len(burst))

    def finish(self, probe=True):
        im, sock, loop, n, ctx = self.im, self.sock, self.loop, self.n, self.ctx
        sends, escaped = {}, dict((i, c) for c, i in reversed(loop.escaped))
        cur = None
        stray = 0
        for ev in sock.events:
            if ev[0] == "recv":
                cur = ev[1]
            elif cur is None:
                stray += 1
            else:
                sends.setdefault(cur, []).append(ev[1:])
        outs = []
        for i in range(n):
            sn = sends.get(i, [])
            if i in self.exits:
                outs.append(("exit",))
            elif i in self.unread:
                outs.append(("weird", "datagram never read: the responder stopped reading its socket"))
            elif len(sn) > 1:
                outs.append(("weird", "%d datagrams sent for one datagram received" % len(sn)))
            elif sn:
                outs.append(("send", sn[0][0], sn[0][1] == src_addr(i)))
            else:
                outs.append(("nothing", escaped.get(i)))
        for c, _ in loop.escaped:
            im.saw("escaped-into-the-loop's-exception-handler", c)
        im.bufsizes |= sock.bufsizes
        # the pid every answer must carry: that of the process the responder runs in NOW (never cached elsewhere)
        info = {"alive": None, "why_dead": None, "stray_sends": stray, "pid": im.own_pid(ctx["pid"])}
        if loop.killed:
            info.update(alive=False, why_dead="%s left the read callback: the event loop stops" % loop.killed)
        elif not loop.readers:
            info.update(alive=False, why_dead="the responder removed its reader from the event loop")
        elif sock.closed:
            info.update(alive=False, why_dead="the responder closed its socket")
        elif probe:
            m = len(sock.sent)
            sock.inq.append((n, mk_req(PROBE_ID, PROBE_TS, b"*", b"*"), src_addr(n)))
            with im.as_pid(ctx["pid"]):
                self._pump(1)
            ans = [parse_resp(b) for b, a in sock.sent[m:] if a == src_addr(n)]
            if any(r and r["rid"] == PROBE_ID for r in ans):
                info["alive"] = True
            elif sendable(ctx):
                info.update(alive=False, why_dead="a request with filters ('*', '*') is not answered any more")
        return outs, info


def impl_session(im, ctx, bursts, probe=True):
    """bursts: list of lists of datagrams; an empty burst is a wake-up with nothing to read.
    -> (outs, info).  outs, one per datagram in arrival order:
         ('nothing', exc-class-or-None) | ('send', bytes, to_the_sender) | ('exit',) | ('weird', text)
       info: {'alive': the responder still answers afterwards (None = cannot tell), 'why_dead': text,
              'pid': the process id of the process the responder ran in}"""
    s = Session(im, ctx)
    for burst in bursts:
        s.feed(burst)
    return s.finish(probe)


def impl_pair(im, ctxs, script):
    """Two responders of different contexts alive in one process; script: [(which, burst), ...] interleaved.
    -> [(bursts, outs, info) for each]"""
    ss = [Session(im, c) for c in ctxs]
    for which, burst in script:
        ss[which].feed(burst)
    return [(s.fed,) + s.finish() for s in ss]


def impl_forked(im, ctx, bursts, prebuilt):
    """Run the session in a child process forked NOW (long after the qmi modules were imported); with prebuilt, the
    responder object is constructed in this process and used in the child.  Everything expected of the answers is
    computed in the child.  -> (outs, info, why)"""
    import pickle
    import select
    ctx = dict(ctx, pid=None)
    pre = Session(im, ctx) if prebuilt else None
    r, w = os.pipe()
    child = os.fork()
    if child == 0:
        code = 0
        try:
            os.close(r)
            s = pre or Session(im, ctx)
            for burst in bursts:
                s.feed(burst)
            outs, info = s.finish()
            why = oracle_session(ctx, bursts, outs, info)
            os.write(w, pickle.dumps((outs, info, why, im.rejected_by, im.bufsizes)))
        except BaseException as e:   # noqa
            try:
                os.write(w, pickle.dumps(("child-failed", "%s: %s" % (type(e).__name__, e))))
            except BaseException:  # noqa
                code = 3
        finally:
            im._exit(code)           # the real os._exit
    os.close(w)
    data = b""
    try:
        while True:
            rd, _, _ = select.select([r], [], [], 60.0)
            if not rd:
                os.kill(child, 9)
                raise common.TieBroken("the forked responder session did not finish within 60 s")
            chunk = os.read(r, 1 << 16)
            if not chunk:
                break
            data += chunk
    finally:
        os.close(r)
        os.waitpid(child, 0)
    res = pickle.loads(data) if data else ("child-failed", "no result")
    if res[0] == "child-failed":
        raise common.TieBroken("the forked responder session failed: %s" % res[1])
    outs, info, why, rej, bufs = res
    if info["pid"] != child:
        raise common.TieBroken("forked session: the child computed pid %r, the parent forked %r" % (info["pid"], child))
    for k, v in rej.items():
        im.rejected_by[k] = max(im.rejected_by.get(k, 0), v)
    im.bufsizes |= bufs
    return outs, info, why


REQ_KINDS = ("QMI_UdpResponderContextInfoRequestPacket", "QMI_UdpResponderContextInfoResponsePacket")


def impl_unpack(im, b):
    """-> ('req', ...) | ('resp', ...) | ('rejected', exception class) | ('weird', text)"""
    from qmi.core.udp_responder_packets import unpack_qmi_udp_packet
    assert _never_kill(b)
    try:
        p = unpack_qmi_udp_packet(bytes(b))
    except Exception as e:  # noqa   any exception = not accepted; the class is an observation
        im.saw("unpack", type(e).__name__)
        return ("rejected", type(e).__name__)
    kind = type(p).__name__
    try:
        ts = struct.pack("<d", p.pkt_timestamp)
        raw = bytes(p)
        if kind == REQ_KINDS[0]:
            return ("req", p.pkt_id, ts, p.workgroup_name_filter, p.context_name_filter, raw)
        if kind == REQ_KINDS[1]:
            return ("resp", p.pkt_id, ts, p.request_pkt_id, struct.pack("<d", p.request_pkt_timestamp),
                    p.context.pid, p.context.name, p.context.workgroup_name, p.context.port, raw)
    except AttributeError as e:
        raise common.TieBroken("the structure returned by unpack_qmi_udp_packet lacks a public field the harness reads: %s" % e)
    return ("weird", kind)


class _Clock:
    def __init__(self):
        self.t = 1000.0

    def monotonic(self):
        self.t += 1e-6
        return self.t

    def time(self):
        return 1.7e9 + self.t


# placeholders in scripted replies, replaced when the request has been seen (the asker draws id and timestamp)
REQ_TS_MARK = b"\xfeRQTS\xfd\xfc\xfb"      # the request's own timestamp bytes
REQ_ID_MARK = b"\xfeRQID\xfd\xfc\x00"      # the request's id
REQ_ID_X1 = b"\xfeRQID\xfd\xfc\x01"        # id xor 1
REQ_ID_P1 = b"\xfeRQID\xfd\xfc\x02"        # id + 1


def materialise(b, req):
    rid = struct.unpack("<Q", req[6:14])[0] if len(req) >= 14 else 0
    ts8 = req[14:22] if len(req) >= 22 else b"\0" * 8
    return (b.replace(REQ_TS_MARK, ts8).replace(REQ_ID_MARK, struct.pack("<Q", rid))
            .replace(REQ_ID_X1, struct.pack("<Q", rid ^ 1)).replace(REQ_ID_P1, struct.pack("<Q", (rid + 1) % 2 ** 64)))


def impl_discover(im, my_name, cfg_wg, wf, cf, req_id, replies, responders=()):
    """Run the real discover_peer_contexts (which runs the real ping_qmi_contexts) on scripted
    stand-ins.  replies: datagram templates (bytes, addr) that arrive after the request went out;
    responders: (name, wg, port, pid) of real _UdpResponder objects that also receive the request.
    req_id is what random.randint would return if the code asks it; the id actually used is read off the request.
    -> (request (bytes, addr) sent or None, result list or exception class name, the reply datagrams, socket closed)"""
    import qmi.core.context as C
    clock = _Clock()
    state = {"sock": None, "sent": [], "replies": []}

    class PingSock(Sock):
        def sendto(self, data, *rest):
            data = bytes(data)
            state["sent"].append((data, rest[-1]))
            if len(state["sent"]) > 1:
                return
            got = []
            for (n, w, p, pid) in responders:
                if not _never_kill(data):
                    continue
                with im.as_pid(pid):
                    _, rs, lp = im.responder(n, w, p)
                    rs.inq.append((0, data, ("10.9.9.9", 5555)))
                    lp.wake(rs)
                got += [(s[0], ("10.0.0.%d" % (len(got) + 1), 35999)) for s in rs.sent]
            state["replies"] = got + [(materialise(b, data), a) for (b, a) in replies]
            self.inq.extend((i, b, a) for i, (b, a) in enumerate(state["replies"]))

    def mk_socket(*a, **k):
        state["sock"] = PingSock()
        return state["sock"]

    class Sel:
        def __enter__(self):
            return self

        def __exit__(self, *a):
            return False

        def register(self, s, ev, data=None):
            self.key = ("key", s)
            return self.key

        def unregister(self, s):
            pass

        def close(self):
            pass

        def select(self, timeout=None):
            if state["sock"].inq:
                return [(self.key, 1)]
            clock.t += (timeout or 0) + 1.0
            return []

    import socket as rs, selectors as rsel, random as rrand, time as rtime
    saved = (C.socket, C.selectors, C.random, C.time)
    C.socket = _Proxy(rs, socket=mk_socket)
    C.selectors = _Proxy(rsel, DefaultSelector=Sel)
    C.random = _Proxy(rrand, randint=lambda a, b: req_id)
    C.time = _Proxy(rtime, time=clock.time, monotonic=clock.monotonic)
    try:
        class Cfg:
            workgroup = cfg_wg

        class Self:
            name = my_name
            _config = Cfg
        try:
            res = C.QMI_Context.discover_peer_contexts(Self(), wf, cf)
        except Exception as e:  # noqa
            res = type(e).__name__
            im.saw("discover_peer_contexts", res)
    finally:
        C.socket, C.selectors, C.random, C.time = saved
    sent = state["sent"][0] if state["sent"] else None
    if state["sock"] is not None:
        im.bufsizes |= state["sock"].bufsizes
    ok_sock = state["sock"] is not None and state["sock"].closed
    return sent, res, state["replies"], ok_sock


# ---------------------------------------------------------------------------------------------
# independent packet construction / parsing (struct only)
# ---------------------------------------------------------------------------------------------

def mk_req(pid_, ts8, wf, cf, tag=T_REQ, magic=MAGIC):
    return struct.pack("<IHQ", magic, tag, pid_) + ts8 + wf.ljust(64, b"\0")[:64] + cf.ljust(64, b"\0")[:64]


def mk_resp(id_, ts8, rid, rts8, pid, name, wg, port, tag=T_RESP, magic=MAGIC):
    return (struct.pack("<IHQ", magic, tag, id_) + ts8 + struct.pack("<Q", rid) + rts8 + struct.pack("<i", pid)
            + name.ljust(64, b"\0")[:64] + wg.ljust(64, b"\0")[:64] + struct.pack("<i", port))


def cs(b):
    i = b.find(b"\0")
    return b if i < 0 else b[:i]


def parse_req(b):
    if len(b) != 150 or b[:6] != struct.pack("<IH", MAGIC, T_REQ):
        return None
    return {"id": struct.unpack("<Q", b[6:14])[0], "ts": b[14:22], "wf": cs(b[22:86]), "cf": cs(b[86:150])}


def parse_resp(b):
    if len(b) != 174 or b[:6] != struct.pack("<IH", MAGIC, T_RESP):
        return None
    return {"id": struct.unpack("<Q", b[6:14])[0], "ts": b[14:22], "rid": struct.unpack("<Q", b[22:30])[0],
            "rts": b[30:38], "pid": struct.unpack("<i", b[38:42])[0], "name": cs(b[42:106]),
            "wg": cs(b[106:170]), "port": struct.unpack("<i", b[170:174])[0]}


# ---------------------------------------------------------------------------------------------
# property oracle (uses fnmatch.fnmatchcase as the meaning of "matches", struct for the layout)
# ---------------------------------------------------------------------------------------------

def expected_answer(ctx, rq):
    """True / False: the request must / must not be answered.  None: the property does not say (the context's own
    names do not fit the packet's text fields, so no answer can carry them)."""
    try:
        wfs, cfs = rq["wf"].decode(), rq["cf"].decode()
    except UnicodeError:
        return False           # a filter that is not text matches nothing
    if not (fnmatch.fnmatchcase(ctx["wg"], wfs) and fnmatch.fnmatchcase(ctx["name"], cfs)):
        return False           # EACH filter against ITS name
    return True if sendable(ctx) else None


def oracle_session(ctx, bursts, outs, info):
    flat = [d for b in bursts for d in b]
    for k, (d, o) in enumerate(zip(flat, outs)):
        if o[0] == "weird":
            return "datagram %d: %s" % (k, o[1])
        if o[0] == "exit":
            return "datagram %d: the process was told to exit" % k
        rq = parse_req(bytes(d))
        if rq is None:
            if o[0] == "send":
                return "junk answered: a datagram that is not a well-formed request got an answer"
            continue
        expect = expected_answer(ctx, rq)
        if expect is True and o[0] != "send":
            return "request not answered although both filters match (%s)" % (o,)
        if expect is False and o[0] == "send":
            return "request answered although a filter does not match its name"
        if o[0] == "send":
            rp = parse_resp(o[1])
            if rp is None:
                return "answer is not a well-formed response packet"
            if not o[2]:
                return "answer sent to another address than the request's source"
            if rp["rid"] != rq["id"]:
                return "answer does not echo the request id"
            if rp["rts"] != rq["ts"]:
                return "answer does not echo the request timestamp bit for bit"
            if expect is None:
                continue
            if rp["name"] != cs(ctx["name"].encode()) or rp["wg"] != cs(ctx["wg"].encode()):
                return "answer does not carry the context's name/workgroup"
            if rp["pid"] != info["pid"]:
                return "answer does not carry the id of the process the context runs in (carries %d, runs in %d)" % (
                    rp["pid"], info["pid"])
            if rp["port"] != ((ctx["port"] + 2 ** 31) % 2 ** 32) - 2 ** 31:
                return "answer does not carry the TCP port"
    if info.get("stray_sends"):
        return "the responder sent a datagram without having received one"
    if info.get("alive") is False:
        return "the responder did not survive: " + info["why_dead"]
    return None


def strip_own(o):
    return (o[0], o[1][:6] + o[1][22:], o[2]) if o[0] == "send" else (o[0],)


def oracle_alone(im, ctx, bursts, outs):
    """The answer to each valid request equals the answer of a fresh responder that saw nothing else
    (modulo the answer's own id/timestamp and the source address)."""
    flat = [d for b in bursts for d in b]
    for d, o in zip(flat, outs):
        if parse_req(bytes(d)) is None:
            continue
        o2 = impl_session(im, ctx, [[d]], probe=False)[0][0]
        if strip_own(o) != strip_own(o2):
            return "earlier datagrams changed the answer to a request"
    return None


def filters_sendable(case):
    try:
        a, b = (case["cfg_wg"] if case["wf"] is None else case["wf"]).encode(), case["cf"].encode()
        return len(a) <= 64 and len(b) <= 64
    except UnicodeError:
        return False


def oracle_discover(case, sent, res, replies):
    """-> (why or None, defined) ; defined=False: the property does not fix the outcome of this call (filters that do
    not fit a request, or a reply to the own request whose name is not text)"""
    my_name = case["my_name"]
    fits = filters_sendable(case)
    if sent is None:
        if isinstance(res, str) and not fits:
            return None, True          # refused: nothing can be sent
        return ("no request was sent" if not isinstance(res, str) else
                "discovery raised %s before sending although both filters fit a request" % res), True
    rq = parse_req(sent[0])
    if rq is None:
        return (None, False) if not fits else ("the request sent is not a well-formed request", True)
    if fits:
        wfb, cfb = (case["cfg_wg"] if case["wf"] is None else case["wf"]).encode(), case["cf"].encode()
        if rq["wf"] != cs(wfb) or rq["cf"] != cs(cfb):
            return "the request does not carry the filters", True
    required, unreadable = set(), set()
    for b, addr in replies:
        rp = parse_resp(b)
        if rp is None or rp["rid"] != rq["id"]:
            continue
        ap = "%s:%d" % (addr[0], rp["port"])
        try:
            n = rp["name"].decode()
        except UnicodeError:
            unreadable.add(ap)
            continue
        if n != my_name:
            required.add((n, ap))
    defined = fits and not unreadable
    if isinstance(res, str):
        if unreadable:
            return None, True          # HEAD's choice for an unreadable name; the model agrees (collect = None)
        return "discovery raised %s although every reply to its request is readable" % res, True
    got = set(tuple(x) for x in res)
    for g in got - required:
        if g[0] == my_name:
            return "discovery reported the asking context itself", defined
        if g[1] not in unreadable:
            return "discovery reported an answer that is not a reply to its own request", defined
    if required - got:
        return "discovery lost a reply to its own request", defined
    return None, defined


# ---------------------------------------------------------------------------------------------
# generators
# ---------------------------------------------------------------------------------------------
NAME_ALPHA = string.ascii_letters + string.digits + "_-"
QUIRK = "ab-!]^[*?\\c~&|"
WIDE = ["é", "€", "\U0001F600", "ÿ", "Ā"]


def gen_name(rng, quirky=0.0):
    n = rng.choice([1, 1, 2, 3, 4, 6, 9, 17, 40, 62, 63, 64])
    if rng.random() < quirky:
        return "".join(rng.choice(QUIRK) for _ in range(min(n, rng.choice([1, 2, 3, 5, 8, 64]))))
    alpha = rng.choice([NAME_ALPHA, "abAB", "aA_"])
    return "".join(rng.choice(alpha) for _ in range(n))


def gen_wg(rng):
    r = rng.random()
    if r < 0.08:               # workgroup names are free-form: path-like ones occur
        return rng.choice(["site/lab", "a/b", "/", "x/", "/x", "lab/room/3"]) if rng.random() < 0.6 else \
            "/".join(gen_name(rng)[:rng.randint(1, 6)] for _ in range(rng.randint(2, 3)))
    if r < 0.45:
        return gen_name(rng)
    if r < 0.75:
        return gen_name(rng, quirky=1.0)
    n = rng.choice([1, 2, 5, 16, 21, 22])
    s = "".join(rng.choice(WIDE + list("ab .")) for _ in range(n))
    while len(s.encode()) > 64 and rng.random() < 0.9:
        s = s[:-1]
    return s


def gen_set_for(rng, ch, include):
    """A bracket expression that (probably) does / does not contain ch."""
    o = ord(ch)
    others = "".join(rng.choice("abAB019_-!]^x") for _ in range(rng.randint(0, 3)))
    kind = rng.randint(0, 3)
    if kind == 0:
        body = others + (ch if include else "")
    elif kind == 1:
        lo, hi = max(1, o - rng.randint(0, 3)), o + rng.randint(0, 3)
        body = (chr(lo) + "-" + chr(hi)) if include else (chr(o + 1) + "-" + chr(o + 3))
        body = rng.choice(["", others]) + body
    elif kind == 2:
        body = "!" + (others.replace(ch, "") if include else others + ch)
        if body == "!":
            body = "!~"
    else:
        body = (ch + others) if include else ("!" + ch + others)
    if not body:
        body = "~"
    return "[" + body + "]"


def gen_pattern_for(rng, t, want):
    """Pattern derived from the target string t; want=True aims at a match."""
    if rng.random() < 0.08:
        return "*" if want else (t + "x")[:64]
    out, i, broke = [], 0, False
    style = rng.choice(["lit", "mix", "mix", "stars"])
    while i < len(t):
        ch = t[i]
        r = rng.random()
        if style == "lit":
            r = 0.0 if ch not in "*?[" else 0.95
        if style == "stars" and r > 0.5:
            k = rng.randint(0, min(6, len(t) - i))
            out.append("*" * rng.choice([1, 1, 2]))
            i += k
            continue
        if r < 0.6 and ch not in "*?[":
            out.append(ch)
        elif r < 0.7:
            out.append("?")
        elif r < 0.8:
            k = rng.randint(0, min(4, len(t) - i))
            out.append("*")
            i += k
            continue
        else:
            out.append(gen_set_for(rng, ch, True))
        i += 1
    if rng.random() < 0.2:
        out.append("*")
    pat = "".join(out)
    if not want:
        m = rng.randint(0, 4)
        if m == 0 and t:
            k = rng.randrange(len(t))
            pat = pat.replace(t[k], t[k].swapcase() if t[k].swapcase() != t[k] else "#", 1)
        elif m == 1:
            pat = pat + rng.choice(["?", "x", "[a]"])
        elif m == 2 and t:
            pat = gen_set_for(rng, t[0], False) + pat[1:]
        elif m == 3:
            pat = pat.swapcase()
        else:
            pat = "".join(rng.choice(QUIRK + "ab") for _ in range(rng.randint(0, 8)))
    if len(pat.encode("utf-8", "replace")) > 64:
        keep = t[:rng.choice([0, 1, 3, 30, 60, 63])]
        pat = "".join(c if c not in "*?[" else "?" for c in keep) + "*"
    return pat


def rand_quirk_pat(rng):
    return "".join(rng.choice("ab*?[]!-^\\ab[]-") for _ in range(rng.choice([0, 1, 2, 3, 4, 5, 6, 8, 10, 12])))


def rand_quirk_str(rng):
    return "".join(rng.choice("ab-]!^[\\c") for _ in range(rng.choice([0, 1, 1, 2, 2, 3, 4, 6])))


def rand_ts(rng):
    return rng.choice([struct.pack("<d", rng.uniform(0, 2e9)), bytes(rng.randrange(256) for _ in range(8)),
                       b"\x01\x00\x00\x00\x00\x00\xf0\x7f", b"\x00" * 8, b"\xff" * 8,
                       b"\x01\x00\x00\x00\x00\x00\xf8\xff"])


def rand_id(rng):
    return rng.choice([0, 1, 2 ** 64 - 1, 2 ** 63, 255, 256, rng.randrange(2 ** 64), rng.randrange(2 ** 64)])


def gen_junk(rng, valid):
    """A datagram that is not a well-formed request (and never a kill request)."""
    while True:
        k = rng.randint(0, 11)
        if k == 0:
            b = bytes(rng.randrange(256) for _ in range(rng.choice([0, 1, 3, 21, 22, 23, 64, 149, 150, 151, 174, 200])))
            kind = "random"
        elif k == 1:
            b, kind = valid[:rng.randrange(0, len(valid))], "truncated"
        elif k == 2:
            b, kind = valid + bytes(rng.randrange(256) for _ in range(rng.choice([1, 1, 2, 24, 100]))), "oversized"
        elif k == 3:
            i = rng.randrange(4)
            b, kind = valid[:i] + bytes([valid[i] ^ (1 << rng.randrange(8))]) + valid[i + 1:], "bad-magic"
        elif k == 4:
            t = rng.choice([0, 1, 0x100, 0x104, 0x200, 0x203, 0x2FF, 0xFFFF, rng.randrange(65536)])
            b, kind = valid[:4] + struct.pack("<H", t) + valid[6:], "tag-not-in-enum"
            if t in ENUM_TAGS:
                continue
        elif k == 5:
            b, kind = valid[:4] + struct.pack("<H", rng.choice([T_START, T_SHUT])) + valid[6:], "tag-startup/shutdown"
        elif k == 6:
            b = mk_resp(rand_id(rng), rand_ts(rng), rand_id(rng), rand_ts(rng), rng.randrange(1, 99999),
                        b"peer", b"wg", rng.randrange(65536))
            kind = "a-response"
        elif k == 7:
            b, kind = valid[:22], "header-only"
        elif k == 8:
            b, kind = valid[:4] + struct.pack("<H", T_RESP) + valid[6:], "response-tag-request-size"
        elif k == 9:
            b, kind = b"", "empty"
        elif k == 10:
            b, kind = valid[:149], "one-byte-short"
        else:
            b, kind = valid + b"\0", "one-byte-long"
        if _never_kill(b) and parse_req(b) is None:
            return b, kind


def gen_ctx(rng):
    name = gen_name(rng, quirky=0.15)
    if rng.random() < 0.04:
        name = name + rng.choice(WIDE)
    wg = gen_wg(rng)
    if rng.random() < 0.03:
        wg = "w" * rng.choice([65, 66, 100])
    if rng.random() < 0.01:
        name = "n\ud800"
    port = rng.choice([0, 1, 80, 35999, 65535, -1, rng.randrange(65536), rng.randrange(65536), 2 ** 31 - 1,
                       2 ** 31, -2 ** 31, 2 ** 32 + 5])
    return {"name": name, "wg": wg, "pid": rng.choice([1, 4242, 2 ** 22, 2 ** 31 - 1, rng.randrange(1, 2 ** 22)]),
            "port": port}


def gen_request(rng, ctx):
    wm, cm = rng.random() < 0.8, rng.random() < 0.8
    wf = gen_pattern_for(rng, ctx["wg"], wm).encode("utf-8", "replace")
    cf = gen_pattern_for(rng, ctx["name"], cm).encode("utf-8", "replace")
    r = rng.random()
    if r < 0.03:
        wf = rng.choice([b"\xff", b"\xc3", b"a\x80", b"\xed\xa0\x80", b"\xc0\xaf", b"\xf4\x90\x80\x80"])
    elif r < 0.06:
        cf = rng.choice([b"\xfe*", b"*\xe2\x82", b"\xf8"])
    elif r < 0.10:
        wf = wf[:10] + b"\0" + b"garbage after NUL"
    if len(wf) > 64:
        wf = b"*"
    if len(cf) > 64:
        cf = b"*"
    return mk_req(rand_id(rng), rand_ts(rng), wf, cf)


def gen_session(rng):
    """-> ctx, bursts (lists of datagrams that are queued together before the loop wakes the responder; an empty burst
    is a wake-up with nothing to read), kinds"""
    ctx = gen_ctx(rng)
    dgrams, kinds = [], []
    nreq = rng.choice([1, 1, 2, 3])
    for _ in range(nreq):
        req = gen_request(rng, ctx)
        for _ in range(rng.choice([0, 0, 1, 2, 3, 4])):
            j, kind = gen_junk(rng, req)
            dgrams.append(j)
            kinds.append(kind)
        dgrams.append(req)
        kinds.append("request")
    if rng.random() < 0.3:
        j, kind = gen_junk(rng, dgrams[-1])
        dgrams.append(j)
        kinds.append(kind)
    style = rng.choice(["one-by-one", "one-by-one", "all-at-once", "random", "random"])
    if style == "one-by-one":
        bursts = [[d] for d in dgrams]
    elif style == "all-at-once":
        bursts = [list(dgrams)]
    else:
        bursts, cur = [], []
        for d in dgrams:
            cur.append(d)
            if rng.random() < 0.4:
                bursts.append(cur)
                cur = []
        if cur:
            bursts.append(cur)
    if rng.random() < 0.08:
        bursts.insert(rng.randrange(len(bursts) + 1), [])
        kinds.append("spurious-wakeup")
    return ctx, bursts, kinds, style


# filters whose bracket expression would straddle the two fields, and workgroup names containing '/':
# (workgroup, context name, workgroup filter, context filter); the expectation is computed per filter by the oracle
STRADDLE = [
    ("w", "tx", "w[g", "c]tx"), ("w", "tx", "[w", "]/tx"), ("w", "tx", "[!", "]/tx"),
    ("wg", "ctx", "w[g", "c]tx"), ("wg", "ctx", "[w", "]/tx"), ("wg", "ctx", "[!", "]/tx"),
    ("w[g", "c]tx", "w[g", "c]tx"), ("[a", "]", "[a", "]"), ("[", "x", "[", "x"), ("[!", "]", "[!", "]"),
    ("site/lab", "ctx1", "site", "*"), ("site/lab", "ctx1", "*", "lab/*"), ("site/lab", "ctx1", "site", "lab/ctx1"),
    ("site/lab", "ctx1", "s*", "l*"), ("site/lab", "ctx1", "site/lab", "ctx1"), ("site/lab", "ctx1", "site/*", "*"),
    ("site/lab", "ctx1", "*", "*"), ("site/lab", "ctx1", "site?lab", "ctx?"), ("site/lab", "ctx1", "*", "ctx1"),
    ("site/lab", "ctx1", "site", "ctx1"), ("site/lab", "ctx1", "lab", "ctx1"), ("site/lab", "ctx1", "*/", "*"),
    ("a/b", "c", "a", "b/c"), ("a", "b/c", "a/b", "c"), ("a", "b/c", "a", "b/c"), ("a", "c", "a/", "c"),
    ("a", "c", "a", "/c"), ("/", "/", "/", "/"), ("/", "x", "", "/x"), ("a", "b", "*", "*/b"), ("a", "b", "a/*", "b"),
    ("wg", "ctx", "*", "?tx"), ("wg", "ctx", "w?", "*"), ("wg", "ctx", "wg/ctx", "*"), ("wg", "ctx", "*", "wg/ctx"),
]


# ---------------------------------------------------------------------------------------------
# Coq terms
# ---------------------------------------------------------------------------------------------

def ccps(s):
    return "[" + ";".join(str(ord(ch)) for ch in s) + "]%N"


def c_ctx(ctx, pid=None):
    return "(mkctx %s %s %s %s)" % (ccps(ctx["name"]), ccps(ctx["wg"]), cZ(ctx["pid"] if pid is None else pid), cZ(ctx["port"]))


def c_hout(o):
    if o[0] == "nothing":
        return "HNothing"          # returned or raised: nothing sent (the class is not compared)
    if o[0] == "send":
        return "HSend " + cbytes(o[1])
    return "HExit"      # exit / weird: the model never yields it for generated input


def c_session_parts(ctx, bursts, outs, info):
    """the model's identity record (name, workgroup, pid, port) is filled from the answering process: info['pid']"""
    flat = [d for b in bursts for d in b]
    ds = []
    for d, o in zip(flat, outs):
        if o[0] == "send" and len(o[1]) >= 42:
            nid, nts = struct.unpack("<Q", o[1][6:14])[0], o[1][14:22]
        else:
            nid, nts = 0, b""
        ds.append("(%s, %s, %s)" % (cN(nid), cbytes(nts), cbytes(d)))
    return c_ctx(ctx, info["pid"]), clist(ds), clist([c_hout(o) for o in outs])


def c_session(ctx, bursts, outs, info):
    return "CSession %s %s %s" % c_session_parts(ctx, bursts, outs, info)


def c_unpack(b, o):
    if o[0] == "req":
        t = "UO_req %s %s %s %s %s" % (cN(o[1]), cbytes(o[2]), cbytes(o[3]), cbytes(o[4]), cbytes(o[5]))
    elif o[0] == "resp":
        t = "UO_resp %s %s %s %s %s %s %s %s %s" % (cN(o[1]), cbytes(o[2]), cN(o[3]), cbytes(o[4]), cZ(o[5]),
                                                  cbytes(o[6]), cbytes(o[7]), cZ(o[8]), cbytes(o[9]))
    elif o[0] == "rejected":
        t = "UO_rejected"
    else:
        t = "UO_kill 0%N []%N []%N"     # weird: never equal to the model's view of generated input
    return "CUnpack %s (%s)" % (cbytes(b), t)


def c_found(res):
    if isinstance(res, str):
        return "None"
    items = []
    for n, ap in res:
        items.append("(%s, %s)" % (ccps(n), cZ(int(ap.rsplit(":", 1)[1]))))
    return "(Some %s)" % clist(items)


# ---------------------------------------------------------------------------------------------
# the run
# ---------------------------------------------------------------------------------------------

def ts_nan(b):
    return len(b) == 8 and (struct.unpack("<Q", b)[0] & 0x7FF0000000000000) == 0x7FF0000000000000 \
        and (struct.unpack("<Q", b)[0] & 0x000FFFFFFFFFFFFF) != 0


def jbursts(bursts):
    return [[list(d) for d in b] for b in bursts]


def run(ck):
    ck.theory_dir = THEORY
    ck.build_theory(THEORY)
    ck.trusted = [
        "Coq 8.16.1 kernel (vm_compute evaluates the model on the cases)",
        "hand-written model theories/C18/Model.v of the packet layout, unpack_qmi_udp_packet, the responder's handling of one "
        "datagram, ping_qmi_contexts/discover_peer_contexts, tied to /repo by this run's correspondence",
        "model's transcription of CPython 3.12 fnmatch.translate (gmatch) and of strict UTF-8 decode/encode: compared "
        "differentially with fnmatch.fnmatchcase / bytes.decode / str.encode on every run, not verified",
        "ctypes packed little-endian layout and c_char-array field semantics (compared on every run)",
        "python harness c18.py: scripted datagram socket (truncates to the buffer size the code asks for), scripted event loop "
        "with asyncio's treatment of exceptions in reader callbacks, stand-ins for socket/selectors/time/random as seen from "
        "qmi.core.context, struct-based packet builder/parser used by the oracle",
        "OS UDP: whole datagrams, truncated to the receive buffer; real broadcast delivery is outside",
    ]
    ck.assumptions = [
        "the kill-request packet type (tag 0x202) is never generated: it is a well-formed request of another kind that makes "
        "the process exit; the model's Kill branch is therefore not exercised against the code",
        "a rejected datagram may make the handler return or raise: compared is only that nothing is sent; that the responder "
        "survives is checked on the implementation after every sequence (reader still registered, socket open, no "
        "SystemExit/KeyboardInterrupt into the loop, a ('*','*') request answered). The exception classes seen are listed in "
        "the evidence (observed_rejections), not compared",
        "the responder's own message id and timestamp and the asker's request id and timestamp are read off the datagrams sent",
        "the identity record of the model (name, workgroup, pid, port) is filled from the answering process: the pid is "
        "os.getpid() of the process the responder runs in (forked children included), or the value the harness makes "
        "os.getpid() report during the request when the code looks it up at that time (calibrated at the start of the run). "
        "Name, workgroup and port are not changed after construction (QMI fixes them before the responder exists)",
        "case-sensitivity is observed by running the responder with an os.path.normcase that folds case (as on Windows)",
        "a filter that is not UTF-8 text matches nothing; when the context's own names do not fit the 64-byte fields, or a "
        "discovery filter does not fit, or a reply to the own request carries a name that is not text, the property does not "
        "fix the outcome and only the remaining claims (echo, no foreign replies, not itself) are checked",
    ]
    rng = ck.rng
    big = ck.tier != "quick"
    terms, metas = [], []

    def add(term, meta):
        terms.append(term)
        metas.append(meta)

    def do_session(im, ctx, bursts, bucket, alone=False, forked=None, given=None, pair=None):
        """forked: None (this process) | 'after' (responder built in the forked child) | 'before' (built here, used in
        the child); given: (outs, info) already observed (sessions run as a pair)"""
        extra = {}
        if forked:
            ctx = dict(ctx, pid=None)
            outs, info, why = impl_forked(im, ctx, bursts, prebuilt=(forked == "before"))
            extra = {"forked": forked}
            if why:
                ck.report("oracle:session:forked:" + why.split("(")[0].strip()[:60],
                          "C18 fails on the implementation (responder running in a process forked after qmi was imported%s): %s"
                          % (", responder object constructed before the fork" if forked == "before" else "", why),
                          {"kind": "session", "ctx": ctx, "bursts": jbursts(bursts), "forked": forked,
                           "impl_observed": [repr(o) for o in outs], "pid_of_the_answering_process": info["pid"]})
        else:
            outs, info = given or impl_session(im, ctx, bursts)
            why = oracle_session(ctx, bursts, outs, info) or (oracle_alone(im, ctx, bursts, outs) if alone else None)
            if why and pair:
                ck.report("oracle:session:two-contexts:" + why.split("(")[0].strip()[:60],
                          "C18 fails on the implementation (two contexts answering in one process, context %r): %s" % (ctx["name"], why),
                          dict(pair, impl_observed=[repr(o) for o in outs]))
            elif why:
                report_session(ck, im, why, ctx, bursts)
        flat = [d for b in bursts for d in b]
        undefined = False
        for d, o in zip(flat, outs):
            rq = parse_req(bytes(d))
            if rq is not None:
                ck.count("%s:request:%s" % (bucket, o[0]))
                if o[0] == "send" and ts_nan(bytes(d)[14:22]):
                    ck.count("request:answered-with-NaN-timestamp")
                if o[0] == "send" and expected_answer(ctx, rq) is None:
                    undefined = True      # names that do not fit were sent somehow: not the model's business
        if undefined:
            ck.count("session:outcome-not-fixed-by-the-property(not compared)")
        elif max([len(d) for d in flat] or [0]) <= 6000:
            add(c_session(ctx, bursts, outs, info), dict({"kind": "session", "ctx": ctx, "bursts": jbursts(bursts)}, **extra))
        return outs, info

    with Impl() as im:
        seen = im.calibrate()
        ck.coverage["pid_lookup"] = ("os.getpid() at the time of the answer (varied by the harness)" if im.pid_mode == "scripted"
                                     else "not through os.getpid() at the time of the answer: only the forked sessions vary it")
        if seen is not None and seen not in (1234567, im.real_getpid()):
            ck.report("oracle:session:pid-neither", "an answer carries process id %d: neither what os.getpid() reports (1234567 "
                      "during this call) nor the id of this process (%d)" % (seen, im.real_getpid()),
                      {"kind": "session", "ctx": {"name": "cal", "wg": "wg", "pid": 1234567, "port": 1},
                       "bursts": jbursts([[mk_req(1, b"CALIBRAT", b"*", b"*")]])})

        # ---- 00. the identity in an answer is that of the ANSWERING context at the time of the request ---------------
        # (a) responder running in a process forked long after the qmi modules were imported, built after / before the fork
        for k in range(6):
            name, wg = "fork%d" % k, rng.choice(["wg", "site/lab", "W"])
            ctx = {"name": name, "wg": wg, "pid": None, "port": rng.choice([0, 1, 35999, 65535, -1])}
            hit = mk_req(rand_id(rng), rand_ts(rng), wg.encode(), (name[:-1] + "?").encode())
            miss = mk_req(rand_id(rng), rand_ts(rng), wg.encode(), (name + "x").encode())
            shapes = [[[hit]], [[miss], [hit]], [[gen_junk(rng, hit)[0], gen_junk(rng, hit)[0], hit]], [[hit, miss, hit]]]
            for forked in ("after", "before"):
                do_session(im, ctx, shapes[(k + (forked == "before")) % 4], "forked-" + forked, forked=forked)
                ck.note_case(("F", k, forked), True)
        # (b) two responders of different contexts alive in one process, requests interleaved
        for k in range(6):
            ctxs = [{"name": "left%d" % k, "wg": "wgL", "pid": 7000 + k, "port": 1000 + k},
                    {"name": "right%d" % k, "wg": rng.choice(["wgL", "wgR"]), "pid": 7000 + k, "port": 2000 + k}]
            script = []
            for _ in range(rng.randint(2, 5)):
                which = rng.randrange(2)
                pat = rng.choice(["*", ctxs[which]["name"], ctxs[1 - which]["name"], "l*", "r*", "?????" + str(k)])
                req = mk_req(rand_id(rng), rand_ts(rng), b"wg?", pat.encode())
                script.append((which, [req] if rng.random() < 0.7 else [gen_junk(rng, req)[0], req]))
            pm = {"kind": "pair", "ctxs": ctxs, "script": [[w, [list(d) for d in b]] for w, b in script]}
            for c, (fed, outs, info) in zip(ctxs, impl_pair(im, ctxs, script)):
                if fed:
                    do_session(im, c, fed, "two-contexts", given=(outs, info), pair=pm)
            ck.note_case(("P", k), True)
        # (c) ambient process id differs between construction of the responder and the request
        for k in range(4):
            ctx = {"name": "late%d" % k, "wg": "wg", "build_pid": 3000 + k, "pid": 4000 + k, "port": 5}
            req = mk_req(rand_id(rng), rand_ts(rng), b"*", b"late*")
            do_session(im, ctx, [[req]] if k % 2 else [[gen_junk(rng, req)[0]], [req]], "pid-changed-after-construction")
            ck.note_case(("A", k), True)

        # ---- 0. fixed bucket: filters straddling the two fields, '/' in workgroup names -------
        for wg, name, wf, cf in STRADDLE:
            ctx = {"name": name, "wg": wg, "pid": 4242, "port": 35999}
            req = mk_req(rand_id(rng), rand_ts(rng), wf.encode(), cf.encode())
            for bursts in ([[req]], [[gen_junk(rng, req)[0], req]]):
                outs, _ = do_session(im, ctx, bursts, "straddle")
                ck.note_case(("X", ctx, bursts), True)
        ck.sample({"kind": "session", "bucket": "straddle", "workgroup": "site/lab", "context": "ctx1",
                   "filters": ["*", "lab/*"], "expected": "no answer (the context filter does not match 'ctx1')"})

        # ---- 0b. bursts longer than any sensible per-wake-up batch; very large datagrams ------
        for nb in (17, 33):
            ctx = gen_ctx(rng)
            ctx.update(name="burst", wg="wg")
            burst = []
            for k in range(nb):
                req = mk_req(rand_id(rng), rand_ts(rng), b"w*", rng.choice([b"burst", b"b*", b"nope", b"\xff"]))
                burst.append(req if k % 3 else gen_junk(rng, req)[0])
            do_session(im, ctx, [burst], "long-burst", alone=True)
            ck.note_case(("B", nb), True)
        for size in (4095, 4096, 4097, 5000, 65507):
            ctx = {"name": "big", "wg": "wg", "pid": 4242, "port": 1}
            req = mk_req(rand_id(rng), rand_ts(rng), b"*", b"*")
            fill = bytes(rng.randrange(256) for _ in range(64))
            bigd = (req + fill * (size // 64 + 1))[:size]     # starts like a valid request: truncation must not make it one
            do_session(im, ctx, [[bigd, req]], "oversized-%d" % size)
            ck.note_case(("O", size), True)

        # ---- 1. responder sessions ------------------------------------------------------------
        nsess = 650 if not big else 8000
        for i in range(nsess):
            ctx, bursts, kinds, style = gen_session(rng)
            outs, info = do_session(im, ctx, bursts, "random", alone=(i % 4 == 0))
            for k in kinds:
                ck.count("dgram:" + k)
            ck.count("delivery:" + style)
            answered = sum(1 for o in outs if o[0] == "send")
            ck.count("session-answers:%d" % min(answered, 3))
            ck.count("name-bytes:%s" % (lambda n: n if n in (1, 62, 63, 64) else "other")(len(ctx["name"].encode("utf-8", "replace"))))
            ck.note_case(("S", ctx, bursts), answered > 0 and len(outs) > 1)
        ck.sample({"kind": "session", "ctx": ctx, "datagram_kinds": kinds, "delivery": style, "observed": [o[0] for o in outs],
                   "responder_alive_afterwards": info["alive"]})

        # ---- 2. names at the 63/64-byte limit, exhaustive small sweep ------------------------
        for n in (1, 2, 62, 63, 64):
            for patkind in ("exact", "star", "prefix*", "q", "Case", "longer"):
                name = "".join(rng.choice(NAME_ALPHA) for _ in range(n))
                wg = "".join(rng.choice(NAME_ALPHA) for _ in range(rng.choice([1, 63, 64])))
                pat = {"exact": name, "star": "*", "prefix*": name[:n - 1] + "*", "q": "?" * n,
                       "Case": name.swapcase(), "longer": (name + "?")[:64]}[patkind]
                ctx = {"name": name, "wg": wg, "pid": 77, "port": 1234}
                do_session(im, ctx, [[mk_req(rand_id(rng), rand_ts(rng), wg.encode(), pat.encode())]], "limit-sweep")
                ck.note_case(("L", ctx, pat), True)

        # ---- 3. unpack: every truncation/extension of valid packets, tags, random ------------
        valid_req = mk_req(0x1122334455667788, rand_ts(rng), b"wg*", b"x" * 64)
        valid_resp = mk_resp(7, rand_ts(rng), 2 ** 64 - 1, rand_ts(rng), -5, b"n" * 64, b"w" * 63, -1)
        ubs = []
        for v in (valid_req, valid_resp):
            for ln in range(0, len(v) + 3):
                ubs.append(((v + b"\x01\x02\x03")[:ln], "length-sweep"))
        for t in list(range(0x0FE, 0x106)) + list(range(0x1FE, 0x206)) + [0, 0xFFFF] + \
                [rng.randrange(65536) for _ in range(120 if not big else 1500)]:
            if t == T_KILL:
                continue
            for v in (valid_req, valid_resp, valid_req[:22]):
                if rng.random() < 0.5 or t in ENUM_TAGS:
                    ubs.append((v[:4] + struct.pack("<H", t) + v[6:], "tag-sweep"))
        for _ in range(300 if not big else 4000):
            r = rng.random()
            if r < 0.35:
                ubs.append((mk_req(rand_id(rng), rand_ts(rng), rand_field(rng), rand_field(rng)), "valid-request"))
            elif r < 0.7:
                ubs.append((mk_resp(rand_id(rng), rand_ts(rng), rand_id(rng), rand_ts(rng),
                                    rng.choice([-2 ** 31, -1, 0, 1, 2 ** 31 - 1, rng.randrange(-2 ** 31, 2 ** 31)]),
                                    rand_field(rng), rand_field(rng),
                                    rng.choice([-2 ** 31, -1, 0, 65535, 2 ** 31 - 1, rng.randrange(-2 ** 31, 2 ** 31)])),
                            "valid-response"))
            else:
                ubs.append(gen_junk(rng, valid_req))
        for b, kind in ubs:
            if not _never_kill(b):
                continue
            o = impl_unpack(im, b)
            ck.count("unpack:" + kind)
            ck.count("unpack-result:" + o[0])
            ck.note_case(("U", b), o[0] in ("req", "resp"))
            why = oracle_unpack(b, o)
            if why:
                ck.report("oracle:unpack:" + why[:40], "C18 fails on the implementation: " + why,
                          {"kind": "unpack", "bytes": list(b), "observed": repr(o)})
            add(c_unpack(b, o), {"kind": "unpack", "bytes": list(b)})
        # all 16-bit tags (python side only; a sample went to the model above): accepted iff it is the request tag
        for t in range(65536):
            if t == T_KILL:
                continue
            b = valid_req[:4] + struct.pack("<H", t) + valid_req[6:]
            o = impl_unpack(im, b)
            if (o[0] == "req") != (t == T_REQ) or o[0] not in ("req", "rejected"):
                ck.report("oracle:unpack:tag", "request-sized datagram with tag %d is %s" % (
                    t, "accepted as " + o[0] if o[0] != "rejected" else "rejected"), {"kind": "unpack", "bytes": list(b)})
        ck.count("unpack:all-65535-tags(python only)", 65535)

        # ---- 4. gmatch vs fnmatch.fnmatchcase -------------------------------------------------
        nglob = 9000 if not big else 120000
        pairs = []
        for _ in range(nglob):
            r = rng.random()
            if r < 0.45:
                qp = rand_quirk_pat(rng)
                qs = rand_quirk_str(rng)
                if rng.random() < 0.6:       # look for a string the pattern accepts
                    for _ in range(12):
                        if fnmatch.fnmatchcase(qs, qp):
                            break
                        qs = rand_quirk_str(rng)
                pairs.append((qp, qs, "quirk"))
            elif r < 0.9:
                t = gen_name(rng, quirky=0.2) if rng.random() < 0.8 else gen_wg(rng)
                pairs.append((gen_pattern_for(rng, t, rng.random() < 0.6), t, "derived"))
            else:
                t = gen_name(rng)
                pairs.append((("*" + rng.choice("ab?")) * rng.randint(1, 12) + rng.choice(["", "*", "b"]),
                              "".join(rng.choice("ab") for _ in range(rng.choice([0, 5, 30, 64]))), "many-stars"))
        for a in ("", "a", "*", "?", "[", "]", "[]", "[!]", "[]]", "[!]]", "[a-]", "[-a]", "[!-a]", "[z-a]", "[!z-a]",
                  "[x-a!b]", "[a-b-c]", "[b-a-z]", "[--a]", "[]-a]", "[\\]", "[\\-a]", "[^a]", "[[a]", "[a", "[!a", "a[",
                  "[c-ba-0]", "[!z-ab-c]", "[a-c][!a-c]", "**", "*[", "[*]", "[?]", "[a&&b]", "[~~]", "[||]"):
            for s in ("", "a", "b", "-", "]", "!", "^", "[", "\\", "z", "[a", "[!a", "a[", "ab", "&", "~", "|", "*", "?", "c"):
                pairs.append((a, s, "table"))
        for wg, name, wf, cf in STRADDLE:
            pairs += [(wf, wg, "straddle"), (cf, name, "straddle"), (wf + "/" + cf, wg + "/" + name, "straddle")]
        for pat, s, kind in pairs:
            try:
                got = bool(fnmatch.fnmatchcase(s, pat))
            except Exception as e:  # noqa  (re.error would be a finding about the library use)
                ck.report("oracle:fnmatch-raises", "fnmatchcase(%r, %r) raises %s" % (s, pat, type(e).__name__),
                          {"kind": "glob", "pat": pat, "s": s})
                continue
            ck.count("glob:%s:%s" % (kind, "match" if got else "no-match"))
            ck.note_case(("G", pat, s), True)
            add("CGlob %s %s %s" % (ccps(pat), ccps(s), cbool(got)), {"kind": "glob", "pat": pat, "s": s, "fnmatchcase": got})
        ck.sample({"kind": "glob", "pat": pairs[0][0], "s": pairs[0][1]})

        # ---- 5. UTF-8 transcription -----------------------------------------------------------
        for _ in range(400 if not big else 5000):
            if rng.random() < 0.5:
                b = bytes(rng.choice([0x41, 0x7f, 0x80, 0xbf, 0xc0, 0xc1, 0xc2, 0xdf, 0xe0, 0xe1, 0xec, 0xed, 0xee, 0xef,
                                      0xf0, 0xf1, 0xf4, 0xf5, 0xff, 0x9f, 0xa0, 0x8f, 0x90]) for _ in range(rng.randint(0, 5)))
            else:
                b = "".join(chr(rng.choice([0x41, 0x7f, 0x80, 0x7ff, 0x800, 0xd7ff, 0xe000, 0xffff, 0x10000, 0x10ffff,
                                            rng.randrange(0x110000)])) for _ in range(rng.randint(0, 4))).encode("utf-8", "ignore")
                if rng.random() < 0.3 and b:
                    b = b[:-1]
            try:
                d = [ord(c) for c in b.decode()]
            except UnicodeDecodeError:
                d = None
            ck.count("utf8-decode:" + ("ok" if d is not None else "error"))
            ck.note_case(("D", b), True)
            add("CDec %s %s" % (cbytes(b), copt(d, lambda x: "[" + ";".join(map(str, x)) + "]%N")), {"kind": "dec", "bytes": list(b)})
            cps = [rng.choice([0x41, 0x7f, 0x80, 0x7ff, 0x800, 0xd7ff, 0xd800, 0xdfff, 0xe000, 0xffff, 0x10000, 0x10ffff,
                               rng.randrange(0x110000)]) for _ in range(rng.randint(0, 3))]
            try:
                e = list("".join(map(chr, cps)).encode())
            except UnicodeEncodeError:
                e = None
            add("CEnc %s %s" % ("[" + ";".join(map(str, cps)) + "]%N", copt(e, cbytes)), {"kind": "enc", "cps": cps})

        # ---- 6. asking side -------------------------------------------------------------------
        ndisc = 250 if not big else 3000
        for i in range(ndisc):
            case = gen_discover(rng)
            sent, res, replies, ok_sock = impl_discover(im, **case)
            wf_used = case["cfg_wg"] if case["wf"] is None else case["wf"]
            why, defined = oracle_discover(case, sent, res, replies)
            rq = parse_req(sent[0]) if sent is not None else None
            rid = rq["id"] if rq else None
            ck.count("discover:asking-socket-%s(observation)" % ("closed" if ok_sock else "left-open"))
            ck.count("discover:request-id-%s" % ("none-sent" if rid is None else "as-scripted" if rid == case["req_id"] else "drawn-otherwise(read off the request)"))
            nrep = sum(1 for b, _ in replies if (parse_resp(b) or {}).get("rid") == rid)
            ck.count("discover:%s" % ("raised" if isinstance(res, str) else "found-%d" % min(len(res), 3)))
            ck.count("discover:responders-%d" % len(case["responders"]))
            ck.note_case(("C", case["my_name"], [b for b, _ in replies]), nrep > 0)
            meta = {"kind": "discover", "case": jcase(case)}
            if why:
                ck.report("oracle:discover:" + why[:50], "C18 fails on the implementation: " + why, meta)
            if not defined:
                ck.count("discover:outcome-not-fixed-by-the-property(not compared)")
                continue
            if rq is not None:
                add("CCollect %s %s %s %s" % (ccps(case["my_name"]), cN(rid),
                                              clist([cbytes(b) for b, _ in replies]), c_found(res)), meta)
                add("CPing %s %s %s %s (PSent %s)" % (cN(rid), cbytes(rq["ts"]), ccps(wf_used), ccps(case["cf"]),
                                                     cbytes(sent[0])), meta)
            elif sent is None:
                add("CPing 1%%N []%%N %s %s (PRaise EValue)" % (ccps(wf_used), ccps(case["cf"])), meta)
        ck.sample({"kind": "discover", "my_name": case["my_name"], "filters": [case["wf"], case["cf"]],
                   "result": res if isinstance(res, str) else [list(x) for x in res]})
        ck.coverage["observed_rejections"] = dict(sorted(im.rejected_by.items()))
        ck.coverage["observed_receive_buffer_sizes"] = sorted(im.bufsizes)

    # small cases (pattern/string pairs, UTF-8) in big shards, byte-heavy cases in small ones
    small = [i for i, m in enumerate(metas) if m["kind"] in ("glob", "dec", "enc")]
    large = [i for i, m in enumerate(metas) if m["kind"] not in ("glob", "dec", "enc")]
    bad = [large[j] for j in ck.run_model("C18.Corr", "check_case", [terms[i] for i in large], "case", shard=100)]
    bad += [small[j] for j in ck.run_model("C18.Corr", "check_case", [terms[i] for i in small], "case", shard=1000)]
    ck.coverage["correspondence_disagreements"] = len(bad)
    for i in bad[:5]:
        m = metas[i]
        why = None
        with Impl() as im:
            if m["kind"] == "session":
                bursts = [[bytes(d) for d in b] for b in m["bursts"]]
                ctx = m["ctx"]
                if m.get("forked"):
                    outs, info, why = impl_forked(im, ctx, bursts, prebuilt=(m["forked"] == "before"))
                else:
                    outs, info = impl_session(im, ctx, bursts)
                    why = oracle_session(ctx, bursts, outs, info) or oracle_alone(im, ctx, bursts, outs)
                parts = c_session_parts(ctx, bursts, outs, info)
                m = dict(m, impl_observed=[repr(o) for o in outs],
                         model=ck.model_eval("C18.Corr", "model_session %s %s" % parts[:2])[-3000:])
            elif m["kind"] == "unpack":
                o = impl_unpack(im, bytes(m["bytes"]))
                why = oracle_unpack(bytes(m["bytes"]), o)
                m = dict(m, impl_observed=repr(o))
            elif m["kind"] == "discover":
                k = ucase(m["case"])
                sent, res, replies, _ = impl_discover(im, **k)
                why = oracle_discover(k, sent, res, replies)[0]
                m = dict(m, impl_observed=repr(res))
        ck.report("corr:%s:%s" % (m["kind"], "oracle-fails" if why else "model-differs"),
                  "implementation and Coq model disagree (%s case)" % m["kind"] + (": " + why if why else
                                                                                     " (property oracle passes on it)"),
                  dict(m, broken="correspondence C18.Corr.check_case"), found_input=bool(why))
    return ck.finish("fixed bucket of filters straddling the two fields and of '/' in workgroup names + sessions on one real "
                     "_UdpResponder (0-4 junk datagrams before each of 1-3 requests, delivered one by one, all at once or in "
                     "random bursts, survival probe afterwards) + bursts of 17/33 + datagrams of 4095..65507 bytes + 63/64-byte "
                     "sweep + unpack length/tag sweeps + fnmatchcase differential + UTF-8 differential + scripted discovery; "
                     "non-trivial session = at least one answer and more than one datagram; distinct by content hash")


def jcase(case):
    return {k: (v if k != "replies" else [[list(b), list(a)] for b, a in v]) for k, v in case.items()}


def ucase(j):
    k = dict(j)
    k["replies"] = [(bytes(b), tuple(a)) for b, a in k["replies"]]
    k["responders"] = [tuple(r) for r in k["responders"]]
    return k


def rand_field(rng):
    r = rng.random()
    if r < 0.3:
        return bytes(rng.randrange(1, 256) for _ in range(rng.choice([0, 1, 5, 62, 63, 64])))
    if r < 0.6:
        return bytes(rng.randrange(256) for _ in range(64))
    return gen_name(rng).encode()


def oracle_unpack(b, o):
    if o[0] == "weird":
        return "unpack gave %s" % o[1]
    rq, rp = parse_req(b), parse_resp(b)
    if rq:
        ok = o[0] == "req" and o[1] == rq["id"] and o[3] == rq["wf"] and o[4] == rq["cf"] and o[5] == b \
            and (o[2] == rq["ts"] or ts_nan(rq["ts"]))
        return None if ok else "a well-formed request was not unpacked to its fields"
    if rp:
        ok = o[0] == "resp" and (o[1], o[3], o[5], o[6], o[7], o[8], o[9]) == \
            (rp["id"], rp["rid"], rp["pid"], rp["name"], rp["wg"], rp["port"], b)
        return None if ok else "a well-formed response was not unpacked to its fields"
    if o[0] in ("req", "resp"):
        return "junk accepted: a datagram that is not a well-formed packet was unpacked"
    return None


def gen_discover(rng):
    my = gen_name(rng)
    req_id = rng.choice([1, 2 ** 64 - 1, rng.randrange(1, 2 ** 64)])
    cfg_wg = gen_wg(rng)
    wf = None if rng.random() < 0.3 else gen_pattern_for(rng, cfg_wg, True)
    cf = rng.choice(["*", "*", gen_pattern_for(rng, my, True), rand_quirk_pat(rng)])
    if rng.random() < 0.04:
        cf = "x" * 65
    if rng.random() < 0.02:
        cf = "\udc80"
    responders = []
    if rng.random() < 0.5:
        for _ in range(rng.randint(1, 4)):
            n = my if rng.random() < 0.25 else gen_name(rng)
            responders.append((n, cfg_wg if rng.random() < 0.8 else gen_wg(rng), rng.randrange(65536),
                               rng.randrange(1, 2 ** 22)))
    replies = []
    for _ in range(rng.choice([0, 1, 2, 3, 5, 8])):
        r = rng.random()
        addr = ("192.168.%d.%d" % (rng.randrange(256), rng.randrange(256)), rng.randrange(1, 65536))
        name = (my if rng.random() < 0.3 else rng.choice([gen_name(rng), my + "x", my[:-1], my.swapcase(), my + "é"])).encode()[:64]
        # the id echoed: ours (placeholder, filled in when the request has been seen), a near miss, or unrelated
        rid = REQ_ID_MARK if rng.random() < 0.7 else rng.choice([REQ_ID_X1, REQ_ID_P1, struct.pack("<Q", 0),
                                                                 struct.pack("<Q", rng.randrange(2 ** 64))])
        # stray answers to SOMEBODY ELSE's request issued in the same clock tick echo our timestamp but not our id
        rts = REQ_TS_MARK if rng.random() < 0.5 else rand_ts(rng)
        good = mk_resp(rand_id(rng), rand_ts(rng), 0, rts, rng.randrange(1, 2 ** 22), name,
                       gen_name(rng).encode(), rng.choice([-1, 0, 65535, rng.randrange(65536)]))
        good = good[:22] + rid + good[30:]
        if r < 0.65:
            b = good
        elif r < 0.72:
            b = good[:rng.randrange(len(good))]
        elif r < 0.79:
            b = good + b"\0"
        elif r < 0.84:
            b = mk_req(0, rand_ts(rng), b"*", b"*")
            b = b[:6] + REQ_ID_MARK + b[14:]
        elif r < 0.89:
            b = good[:4] + struct.pack("<H", rng.choice([0, 0x100, T_START, T_SHUT, 0xFFFF])) + good[6:]
        elif r < 0.93:
            b = b"X" + good[1:]
        elif r < 0.96:
            b = mk_resp(1, rand_ts(rng), 0, rand_ts(rng), 1, rng.choice([b"\xff", b"ab\xc3", b"\xed\xa0\x80"]), b"w", 1)
            b = b[:22] + REQ_ID_MARK + b[30:]
        else:
            b = bytes(rng.randrange(256) for _ in range(rng.choice([0, 5, 174])))
        if _never_kill(b):
            replies.append((b, addr))
    return {"my_name": my, "cfg_wg": cfg_wg, "wf": wf, "cf": cf, "req_id": req_id, "replies": replies,
            "responders": responders}


def shrink_session(im, ctx, bursts):
    """One datagram per burst if the failure survives that, then drop datagrams while the oracle still fails."""
    def bad(bs):
        outs, info = impl_session(im, ctx, bs)
        return bool(oracle_session(ctx, bs, outs, info) or oracle_alone(im, ctx, bs, outs))
    single = [[d] for b in bursts for d in b]
    if single and bad(single):
        bursts = single
    else:
        return ctx, bursts
    i = 0
    while i < len(bursts) and len(bursts) > 1:
        t = bursts[:i] + bursts[i + 1:]
        if bad(t):
            bursts = t
        else:
            i += 1
    return ctx, bursts


def report_session(ck, im, why, ctx, bursts):
    ctx, bursts = shrink_session(im, ctx, [list(b) for b in bursts])
    outs, info = impl_session(im, ctx, bursts)
    why = oracle_session(ctx, bursts, outs, info) or oracle_alone(im, ctx, bursts, outs) or why
    flat = [d for b in bursts for d in b]
    reqs = [parse_req(bytes(d)) for d in flat]
    ck.report("oracle:session:" + why.split("(")[0].strip()[:60], "C18 fails on the implementation: " + why,
              {"kind": "session", "ctx": ctx, "bursts": jbursts(bursts),
               "filters_of_the_requests": [[r["wf"].decode("latin-1"), r["cf"].decode("latin-1")] for r in reqs if r],
               "impl_observed": [repr(o) for o in outs], "responder_alive_afterwards": info["alive"]})


def replay(rep):
    c = rep["case"]
    with Impl() as im:
        if c["kind"] == "session":
            bursts = [[bytes(d) for d in b] for b in c["bursts"]]
            if not all(_never_kill(d) for b in bursts for d in b):
                print("refusing to replay a kill request")
                return 2
            im.calibrate()
            if c.get("forked"):
                print("session run in a child forked now; responder constructed %s the fork" % c["forked"])
                outs, info, why0 = impl_forked(im, c["ctx"], bursts, prebuilt=(c["forked"] == "before"))
            else:
                outs, info = impl_session(im, c["ctx"], bursts)
                why0 = None
            print("context", c["ctx"], "running in process", info["pid"])
            for d, o in zip([d for b in bursts for d in b], outs):
                rq = parse_req(d)
                print("datagram", d.hex() if len(d) < 200 else d[:200].hex() + "...(%d bytes)" % len(d),
                      ("= request with filters (%r, %r)" % (rq["wf"], rq["cf"])) if rq else "(not a well-formed request)",
                      "->", o[0], o[1].hex() if o[0] == "send" else o[1:])
            print("responder alive afterwards:", info["alive"], info["why_dead"] or "")
            why = why0 or oracle_session(c["ctx"], bursts, outs, info) or \
                (None if c.get("forked") else oracle_alone(im, c["ctx"], bursts, outs))
        elif c["kind"] == "pair":
            im.calibrate()
            why = None
            script = [(w, [bytes(d) for d in b]) for w, b in c["script"]]
            for cx, (fed, outs, info) in zip(c["ctxs"], impl_pair(im, c["ctxs"], script)):
                print("context", cx, "->", [o[0] if o[0] != "send" else parse_resp(o[1]) for o in outs])
                why = why or oracle_session(cx, fed, outs, info)
        elif c["kind"] == "unpack":
            b = bytes(c["bytes"])
            o = impl_unpack(im, b)
            print("unpack ->", o)
            why = oracle_unpack(b, o)
        elif c["kind"] == "discover":
            k = ucase(c["case"])
            sent, res, replies, ok_sock = impl_discover(im, **k)
            print("request sent:", None if sent is None else sent[0].hex())
            print("result:", res)
            why = oracle_discover(k, sent, res, replies)[0]
        elif c["kind"] == "glob":
            print("fnmatchcase(%r, %r) = %r" % (c["s"], c["pat"], fnmatch.fnmatchcase(c["s"], c["pat"])))
            why = None
        else:
            why = None
    print("oracle:", why or "property holds on this case")
    return 1 if why else 0
