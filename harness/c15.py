"""C15 — protocol codecs carry payloads unchanged and reject corrupted replies.

Five codecs are driven directly (H1) with recording transports / fake bulk endpoints:
  Interbus  _encode_interbus_message, _decode_interbus_message, NKTPhotonicsInterbusProtocol._request_response
  USBTMC    Instrument.write_raw / read_raw (quirks off) against a simulated conforming device
  T2        _T2EventDecoder.process_data over batches of uint32 records
  SCPI      ScpiProtocol.ask, read_binary_data
  APT       AptProtocol.write_param_command, write_data_command, ask

Every case is (inputs, observation on the real code).  The Coq models (theories/C15/Model*.v) are
evaluated on the same inputs by Corr.check_case; the property ORACLE below re-states C15 on the
observations using reference 'conforming device' codecs written from the protocol descriptions
(binascii.crc_hqx CRC, byte-wise escape state machine, struct for USBTMC/APT headers, printf-style
block headers) and is independent of the Coq model.
"""
import array
import binascii
import os
import struct
import sys
import time
from common import poke  # noqa: E402

import common
from common import cZ, cN, cnat, cbool, clist, cbytes

sys.path.insert(0, os.path.join(os.path.dirname(os.path.abspath(__file__)), "translators"))
import t_c15_apt as T  # noqa: E402

THEORY = "C15"
GEN = os.path.join(common.COQ, "gen", "C15AptLayouts.v")

# Field layouts of the APT packets as documented in the Thorlabs APT communications protocol (word =
# uint16, short = int16, dword = uint32, long = int32, char; little-endian, packed).  Pinned here
# independently of the code: for these packets the oracle decodes with this table, so a changed
# field type / order in apt_packets.py shows up as a wrong field value for a concrete reply.
APT_SPEC = {
    "HW_GET_INFO": "<i8sHI15IHHH", "MOD_GET_CHANENABLESTATE": "<HBBBB", "MOT_MOVE_HOMED": "<HBBBB",
    "MOT_MOVE_COMPLETED": "<HBBBB", "MOT_MOVE_ABSOLUTE": "<Hi", "MOT_GET_USTATUSUPDATE": "<HiHhI",
    "MOT_SET_EEPROMPARAMS": "<HH", "POL_GET_SET_PARAMS": "<HHHHHH",
}
RESERVED = [0x0A, 0x0D, 0x5E, 0x4A, 0x4D, 0x9E]


_LIVE = {}


def live():
    """Tuning constants and open implementation choices the property does not fix, read from (or probed
    on) the code under test on every run; they are parameters of the Coq cases and of the oracle."""
    if _LIVE:
        return _LIVE
    from qmi.instruments.nkt_photonics import nkt_photonics_interbus_protocol as ib
    P = ib.NKTPhotonicsInterbusProtocol
    maxr, base = getattr(P, "MAX_RETRY_COUNT", None), getattr(P, "HOST_BASE_ADDRESS", None)
    if isinstance(maxr, bool) or not isinstance(maxr, int) or not 0 <= maxr <= 500:
        raise common.TieBroken("NKTPhotonicsInterbusProtocol.MAX_RETRY_COUNT is %r: the harness reads the retry bound there" % (maxr,))
    if isinstance(base, bool) or not isinstance(base, int) or not 0 <= base <= 254:
        raise common.TieBroken("NKTPhotonicsInterbusProtocol.HOST_BASE_ADDRESS is %r" % (base,))
    types = sorted(int(m.value) for m in ib.MessageType)
    _LIVE.update({"maxr": maxr, "base": base, "types": types, "ho_check": _probe_ho_check()})
    return _LIVE


def _probe_ho_check():
    """Does AptProtocol.ask compare the message id of a HEADER_ONLY reply with the expected one?"""
    from qmi.instruments.thorlabs.apt_protocol import AptProtocol
    import qmi.instruments.thorlabs.apt_packets as P
    for n, (ho, mid, sz) in sorted(apt_types().items()):
        if ho:
            tr = StreamTransport(struct.pack("<HBBBB", mid ^ 0x0101, 1, 0, 1, 0x50))
            try:
                AptProtocol(tr).ask(getattr(P, n))
                return False
            except Exception:  # noqa
                return True
    return False


class Exhausted(Exception):
    """harness-private: the scripted endpoint has no further reply"""


def err_name(exc):
    from qmi.core.exceptions import QMI_InstrumentException, QMI_TimeoutException
    if isinstance(exc, Exhausted):
        return "EExhausted"
    if isinstance(exc, UnicodeEncodeError):
        return "EUniEnc"
    if isinstance(exc, UnicodeDecodeError):
        return "EUniDec"
    if isinstance(exc, QMI_TimeoutException):
        return "ETimeout"
    if isinstance(exc, QMI_InstrumentException):
        return "EInstr"
    if isinstance(exc, struct.error):
        return "EStruct"
    if isinstance(exc, ValueError):
        return "EValue"
    return "EOther:" + type(exc).__name__


def c_err(e):
    return "(Err %s)" % (e if not e.startswith("EOther") else "EOutOfFuel")


def c_res_bytes(r):
    return "(Ok %s)" % cbytes(r[1]) if r[0] == "ok" else c_err(r[1])


def c_msg(m):
    return "(mkmsg %s %s %s %s %s)" % (cN(m[0]), cN(m[1]), cN(m[2]), cN(m[3]), cbytes(m[4]))


def c_res_msg(r):
    return "(Ok %s)" % c_msg(r[1]) if r[0] == "ok" else c_err(r[1])


def c_bl(ls):
    return clist([cbytes(x) for x in ls])


# =========================================================================================
# reference codecs (the 'conforming device'), written from the protocol descriptions
# =========================================================================================

def ref_ib_encode(d, s, t, g, data):
    body = bytes([d, s, t, g]) + bytes(data)
    crc = binascii.crc_hqx(body, 0)            # CRC-16/XMODEM: poly 0x1021, init 0, MSB first
    body += bytes([crc >> 8, crc & 0xFF])
    out = bytearray([0x0D])
    for b in body:
        if b in (0x0A, 0x0D, 0x5E):
            out += bytes([0x5E, b + 0x40])
        else:
            out.append(b)
    out.append(0x0A)
    return bytes(out)


def ref_ib_decode(frame):
    """-> ('ok', (d,s,t,g,data)) | ('bad', reason) | ('escape', reason) for frames that break the
    escaping rule itself (a conforming device never produces them; no demand on QMI there)."""
    frame = bytes(frame)
    if len(frame) < 2 or frame[0] != 0x0D or frame[-1] != 0x0A:
        return ("bad", "sot/eot")
    inner = frame[1:-1]
    body = bytearray()
    i = 0
    while i < len(inner):
        b = inner[i]
        if b == 0x5E:
            if i + 1 >= len(inner) or inner[i + 1] not in (0x4A, 0x4D, 0x9E):
                return ("escape", "stray 0x5E")
            body.append(inner[i + 1] - 0x40)
            i += 2
        else:
            if b in (0x0A, 0x0D):
                return ("escape", "raw reserved byte")
            body.append(b)
            i += 1
    if len(body) < 6:
        return ("bad", "short")
    if binascii.crc_hqx(bytes(body[:-2]), 0) != (body[-2] << 8 | body[-1]):
        return ("bad", "crc")
    if body[2] not in live()["types"]:
        return ("bad", "type")
    return ("ok", (body[0], body[1], body[2], body[3], list(body[4:-2])))


def ref_usbtmc_device_recv(prev_tag, transfers):
    """Reassemble a device dependent message from Bulk-OUT transfers (USBTMC 1.0 table 1, 3);
    returns (data, last_tag) or a string describing the protocol violation."""
    out = b""
    if not transfers:
        return "no transfer"
    for k, tr in enumerate(transfers):
        if len(tr) < 12:
            return "transfer %d shorter than the header" % k
        msgid, tag, inv, rsv, size, attr, r1, r2, r3 = struct.unpack("<BBBBLBBBB", tr[:12])
        if msgid != 1:
            return "MsgID %d" % msgid
        if tag == 0:
            return "bTag 0"
        if tag != (1 if prev_tag == 255 else prev_tag + 1):
            return "bTag %d after %d" % (tag, prev_tag)
        if inv != (~tag & 0xFF):
            return "bTagInverse"
        if rsv or r1 or r2 or r3 or attr > 1:
            return "reserved bits not zero"
        if len(tr) != 12 + size + (-size % 4):
            return "transfer %d: length %d for TransferSize %d (alignment)" % (k, len(tr), size)
        if any(tr[12 + size:]):
            return "alignment bytes not zero"
        last = (k == len(transfers) - 1)
        if bool(attr & 1) != last:
            return "EOM=%d on transfer %d of %d" % (attr & 1, k + 1, len(transfers))
        out += tr[12:12 + size]
        prev_tag = tag
    return (out, prev_tag)


def ref_scpi_block(data, nd):
    return b"#" + str(nd).encode() + (b"%0*d" % (nd, len(data))) + bytes(data)


# =========================================================================================
# stubs
# =========================================================================================

class ScriptTransport:
    """read_until pops scripted events: None = timeout, bytes = returned as is."""
    def __init__(self, script):
        self.script = list(script)
        self.writes = []
        self.reads = 0

    def write(self, data):
        self.writes.append(bytes(data))

    def read_until(self, message_terminator, timeout):
        from qmi.core.exceptions import QMI_TimeoutException
        if not self.script:
            raise Exhausted()
        self.reads += 1
        ev = self.script.pop(0)
        if ev is None:
            raise QMI_TimeoutException("scripted timeout")
        return bytes(ev)

    def discard_read(self):
        pass


class StreamTransport:
    """Byte stream; read(n) = exactly n bytes or a timeout that consumes nothing (C13 contract)."""
    def __init__(self, stream):
        self.buf = bytes(stream)
        self.writes = []

    def write(self, data):
        self.writes.append(bytes(data))

    def read(self, nbytes, timeout=None):
        from qmi.core.exceptions import QMI_TimeoutException
        if nbytes > len(self.buf):
            raise QMI_TimeoutException("scripted timeout")
        r, self.buf = self.buf[:nbytes], self.buf[nbytes:]
        return r


class ChunkTransport(StreamTransport):
    """The reply arrives in transfers; read(n) receives further transfers until n bytes are buffered."""
    def __init__(self, chunks):
        StreamTransport.__init__(self, b"")
        self.pending = [bytes(c) for c in chunks]

    def read(self, nbytes, timeout=None):
        while len(self.buf) < nbytes and self.pending:
            self.buf += self.pending.pop(0)
        return StreamTransport.read(self, nbytes, timeout)


class FakeUsbDev:
    def __init__(self, vendor, product):
        self.idVendor, self.idProduct, self.ctrl = vendor, product, []

    def ctrl_transfer(self, *a, **kw):
        self.ctrl.append(kw)
        return [1]


class FakeOutEp:
    def __init__(self, dev):
        self.dev = dev
        self.log = []

    def write(self, req, timeout=None):
        self.log.append(bytes(req))
        self.dev.on_out(bytes(req))


class FakeInEp:
    def __init__(self, dev):
        self.dev = dev

    def read(self, size, timeout=None):
        return array.array("B", self.dev.on_in(size))


class UsbDevice:
    """Simulated device.  For reads it answers each REQUEST_DEV_DEP_MSG_IN with the next planned
    chunk (never more than the requested TransferSize), EOM on the chunk that ends the message."""
    def __init__(self, message=b"", plan=(), pads=(), fault=None):
        self.msg, self.plan, self.pads, self.fault = bytes(message), list(plan), list(pads), fault
        self.pos = 0
        self.k = 0
        self.req = None
        self.sent = []          # responses actually sent (the script the model sees)
        self.requested = []

    def on_out(self, req):
        if len(req) >= 12 and req[0] == 2:
            self.req = struct.unpack("<BBBBLBBBB", req[:12])

    def on_in(self, size):
        if self.req is None:
            raise Exhausted()
        _, tag, inv, _, want, _, _, _, _ = self.req
        self.req = None
        self.requested.append(want)
        if self.fault and self.fault[0] == "silent_after" and self.k >= self.fault[1]:
            raise Exhausted()
        if self.k >= 64 or (self.pos >= len(self.msg) and self.k > len(self.plan) + 2):
            raise Exhausted()      # never let a non-terminating exchange hang the check
        n = self.plan[self.k] if self.k < len(self.plan) else len(self.msg) - self.pos
        n = max(0, min(n, want, len(self.msg) - self.pos))
        chunk = self.msg[self.pos:self.pos + n]
        self.pos += n
        eom = self.pos >= len(self.msg)
        pad = bytes(self.pads[self.k]) if self.k < len(self.pads) else b""
        declared, attr = n, (1 if eom else 0)
        if self.fault and self.fault[0] == "short_header" and self.k == self.fault[1]:
            resp = bytes([2, tag, inv, 0, n & 0xFF])[:self.fault[2]]
        else:
            if self.fault and self.fault[0] == "declare_more" and self.k == self.fault[1]:
                declared = n + self.fault[2]
            if self.fault and self.fault[0] == "no_eom":
                attr = 0
            resp = struct.pack("<BBBBLBBBB", 2, tag, inv, 0, declared, attr, 0, 0, 0) + chunk + pad
        self.k += 1
        self.sent.append(resp)
        return resp


# =========================================================================================
# implementation drivers: impl(kind, inp) -> obs (json-able)
# =========================================================================================

def _quiet():
    import logging
    logging.getLogger("qmi.instruments.nkt_photonics.nkt_photonics_interbus_protocol").setLevel(logging.CRITICAL)


def _msg_tuple(m):
    return [m.destination, m.source, m.message_type.value, m.register_number, list(m.data)]


def impl(kind, inp):
    if kind == "ib_enc":
        from qmi.instruments.nkt_photonics import nkt_photonics_interbus_protocol as ib
        try:
            m = ib.InterbusMessage(inp["d"], inp["s"], ib.MessageType(inp["t"]), inp["g"], bytes(inp["data"]))
            return ["ok", list(ib._encode_interbus_message(m))]
        except Exception as e:  # noqa
            return ["err", err_name(e)]
    if kind == "ib_dec":
        from qmi.instruments.nkt_photonics import nkt_photonics_interbus_protocol as ib
        try:
            return ["ok", _msg_tuple(ib._decode_interbus_message(bytes(inp["frame"])))]
        except Exception as e:  # noqa
            return ["err", err_name(e)]
    if kind == "ib_rr":
        from qmi.instruments.nkt_photonics import nkt_photonics_interbus_protocol as ib
        _quiet()
        tr = ScriptTransport([None if x is None else bytes(x) for x in inp["script"]])
        p = ib.NKTPhotonicsInterbusProtocol(tr, 0.01)
        poke(p, "_source_toggle", inp["toggle"])
        try:
            r = p._request_response(inp["d"], ib.MessageType(inp["t"]), inp["g"], bytes(inp["data"]))
            res = ["ok", _msg_tuple(r)]
        except Exception as e:  # noqa
            res = ["err", err_name(e)]
        return {"toggle": p._source_toggle, "writes": [list(w) for w in tr.writes], "res": res, "reads": tr.reads}
    if kind == "usb_w":
        from qmi.core import usbtmc
        inst = usbtmc.Instrument(device=object())
        try:
            inst.connected = True
            dev = UsbDevice()
            inst.bulk_out_ep = FakeOutEp(dev)
            inst.max_transfer_size = inp["mts"]
            inst.last_btag = inp["tag"]
            inst.write_raw(bytes(inp["data"]))
            return {"transfers": [list(t) for t in inst.bulk_out_ep.log], "tag": inst.last_btag}
        finally:
            inst.connected = False
    if kind == "usb_r":
        from qmi.core import usbtmc
        inst = usbtmc.Instrument(device=object())
        try:
            inst.connected = True
            dev = UsbDevice(bytes(inp["msg"]), inp["plan"], inp["pads"], inp.get("fault"))
            inst.bulk_out_ep = FakeOutEp(dev)
            inst.bulk_in_ep = FakeInEp(dev)
            inst.max_transfer_size = inp["mts"]
            inst.last_btag = inp["tag"]
            try:
                res = ["ok", list(inst.read_raw(inp["num"]))]
            except Exception as e:  # noqa
                res = ["err", err_name(e)]
            return {"reqs": [list(t) for t in inst.bulk_out_ep.log], "tag": inst.last_btag, "res": res,
                    "script": [list(t) for t in dev.sent], "requested": dev.requested}
        finally:
            inst.connected = False
    if kind == "t2":
        import numpy as np
        from qmi.instruments.picoquant.support._decoders import _T2EventDecoder
        dec = _T2EventDecoder()
        poke(dec, "_overflow_counter", inp["ovf"])
        outs = []
        for b in inp["batches"]:
            ev = dec.process_data(np.array(b, dtype=np.uint32))
            outs.append([[int(t), int(ts)] for t, ts in zip(ev["type"], ev["timestamp"])])
        one = _T2EventDecoder()
        poke(one, "_overflow_counter", inp["ovf"])
        ev = one.process_data(np.array([r for b in inp["batches"] for r in b], dtype=np.uint32))
        return {"events": outs, "ovf": int(dec._overflow_counter),
                "whole": [[int(t), int(ts)] for t, ts in zip(ev["type"], ev["timestamp"])],
                "whole_ovf": int(one._overflow_counter)}
    if kind == "scpi_block":
        from qmi.core.scpi_protocol import ScpiProtocol
        tr = StreamTransport(bytes(inp["stream"]))
        p = ScpiProtocol(tr, response_terminator=bytes(inp["term"]).decode("ascii"))
        try:
            res = ["ok", list(p.read_binary_data(read_terminator_flag=inp["flag"]))]
        except Exception as e:  # noqa
            res = ["err", err_name(e)]
        return {"res": res, "rest": list(tr.buf)}
    if kind == "scpi_ask":
        from qmi.core.scpi_protocol import ScpiProtocol
        tr = ScriptTransport([None if inp["reply"] is None else bytes(inp["reply"])])
        p = ScpiProtocol(tr, command_terminator=bytes(inp["cterm"]).decode("ascii"),
                         response_terminator=bytes(inp["rterm"]).decode("ascii"))
        try:
            r = p.ask("".join(chr(c) for c in inp["cmd"]))
            res = ["ok", [ord(ch) for ch in r]]
        except Exception as e:  # noqa
            res = ["err", err_name(e)]
        return {"writes": [list(w) for w in tr.writes], "res": res}
    if kind == "usb_qw":
        from qmi.core import usbtmc
        inst = usbtmc.Instrument(device=FakeUsbDev(inp["vendor"], inp["product"]))
        try:
            inst._handle_vendor_quirks()
            inst.connected = True
            inst.bulk_out_ep = FakeOutEp(UsbDevice())
            inst.last_btag = inp["tag"]
            inst.write_raw(bytes(inp["data"]))
            return {"mts": inst.max_transfer_size, "adv": bool(getattr(inst, "advantest_quirk", False)),
                    "rigol": bool(getattr(inst, "rigol_quirk", False)), "ieee": bool(getattr(inst, "rigol_quirk_ieee_block", False)),
                    "transfers": [list(t) for t in inst.bulk_out_ep.log], "tag": inst.last_btag}
        finally:
            inst.connected = False
    if kind == "scpi_block_ch":
        from qmi.core.scpi_protocol import ScpiProtocol
        tr = ChunkTransport(inp["chunks"])
        p = ScpiProtocol(tr, response_terminator=bytes(inp["term"]).decode("ascii"))
        try:
            res = ["ok", list(p.read_binary_data(read_terminator_flag=inp["flag"]))]
        except Exception as e:  # noqa
            res = ["err", err_name(e)]
        return {"res": res, "rest": list(tr.buf + b"".join(tr.pending))}
    if kind == "scpi_write":
        from qmi.core.scpi_protocol import ScpiProtocol
        tr = ScriptTransport([])
        p = ScpiProtocol(tr, command_terminator=bytes(inp["cterm"]).decode("ascii"))
        try:
            p.write("".join(chr(c) for c in inp["cmd"]))
            res = ["ok", [list(w) for w in tr.writes]]
        except Exception as e:  # noqa
            res = ["err", err_name(e)]
        return {"res": res, "writes": [list(w) for w in tr.writes]}
    if kind in ("apt_fields", "apt_pack"):
        import qmi.instruments.thorlabs.apt_packets as P
        cls = getattr(P, inp["type"])
        if kind == "apt_fields":
            r = cls.from_buffer_copy(bytes(inp["bytes"]))
            out = []
            for name, _ in cls._fields_:
                v = getattr(r, name)
                out.append(list(v) if isinstance(v, bytes) or hasattr(v, "__len__") else [int(v)])
            return {"fields": out}
        obj = cls()
        for (name, ft), vs in zip(cls._fields_, inp["values"]):
            if hasattr(ft, "_length_"):
                setattr(obj, name, bytes(vs) if ft._type_.__name__ == "c_char" else ft(*vs))
            else:
                setattr(obj, name, vs[0])
        return {"bytes": list(bytes(obj))}
    if kind in ("apt_param", "apt_data", "apt_ask"):
        from qmi.instruments.thorlabs.apt_protocol import AptProtocol
        import qmi.instruments.thorlabs.apt_packets as P
        tr = StreamTransport(bytes(inp.get("stream", [])))
        p = AptProtocol(tr, apt_device_address=inp.get("dev", 0x50), host_address=inp.get("host", 1))
        if kind == "apt_param":
            p.write_param_command(inp["id"], inp["p1"], inp["p2"])
            return {"writes": [list(w) for w in tr.writes]}
        cls = getattr(P, inp["type"])
        if kind == "apt_data":
            p.write_data_command(inp["id"], cls.from_buffer_copy(bytes(inp["payload"])))
            return {"writes": [list(w) for w in tr.writes]}
        try:
            r = p.ask(cls)
            fields = []
            for name, _ in cls._fields_:
                v = getattr(r, name)
                fields.append(list(v) if isinstance(v, bytes) else (list(v) if hasattr(v, "__len__") else int(v)))
            res = ["ok", list(bytes(r))]
        except Exception as e:  # noqa
            res, fields = ["err", err_name(e)], None
        return {"res": res, "rest": list(tr.buf), "fields": fields}
    raise KeyError(kind)


def apt_types():
    import ctypes
    import inspect
    import qmi.instruments.thorlabs.apt_packets as P
    from qmi.instruments.thorlabs.apt_protocol import AptMessage
    out = {}
    for n, c in inspect.getmembers(P, inspect.isclass):
        if issubclass(c, AptMessage) and c is not AptMessage:
            out[n] = (bool(c.HEADER_ONLY), int(c.MESSAGE_ID), ctypes.sizeof(c))
    return out


_CT = {"c_ubyte": "B", "c_byte": "b", "c_ushort": "H", "c_short": "h", "c_uint": "I", "c_int": "i",
       "c_ulong": "I", "c_long": "i", "c_char": "c"}


def apt_ref_fields(cls, raw):
    """Independent field-by-field little-endian decode from the ctypes _fields_ declaration."""
    out, off = [], 0
    for _, ft in cls._fields_:
        n = getattr(ft, "_length_", None)
        base = ft._type_ if n else ft
        code = _CT[base.__name__]
        if n:
            vals = list(struct.unpack_from("<%d%s" % (n, code), raw, off))
            if code == "c":
                b = b"".join(vals)
                vals = list(b.split(b"\0")[0])       # ctypes char arrays read as NUL-terminated bytes
            out.append(vals)
            off += struct.calcsize("<%d%s" % (n, code))
        else:
            out.append(struct.unpack_from("<" + code, raw, off)[0])
            off += struct.calcsize("<" + code)
    return out


def apt_spec_codes(name):
    """one struct code per field of the pinned layout ('s' = char array)"""
    import re
    return [c for _, c in re.findall(r"(\d*)([a-zA-Z])", APT_SPEC[name][1:])]


def apt_spec_decode(name, raw):
    import re
    fmt = APT_SPEC[name]
    toks = re.findall(r"(\d*)([a-zA-Z])", fmt[1:])
    vals = list(struct.unpack(fmt, raw[:struct.calcsize(fmt)]))
    out = []
    for n, c in toks:
        n = int(n) if n else 1
        if c == "s":
            out.append(list(vals.pop(0).split(b"\0")[0]))
        else:
            out.append([vals.pop(0) for _ in range(n)])
    return out


# =========================================================================================
# property oracle: oracle(kind, inp, obs) -> None | description
# =========================================================================================

def oracle(kind, inp, obs):
    if kind == "ib_enc":
        valid = 1 <= inp["d"] <= 160 and 161 <= inp["s"] <= 255 and len(inp["data"]) <= 240 and 0 <= inp["g"] <= 255
        if obs[0] != "ok":
            return None if not valid else "encode of a valid message raised " + obs[1]
        # whatever is accepted (the property does not fix which out-of-range arguments are refused) must
        # be carried unchanged
        frame = bytes(obs[1])
        if any(b in (0x0A, 0x0D) for b in frame[1:-1]) or frame[:1] != b"\r" or frame[-1:] != b"\n":
            return "encoded frame has a reserved byte inside the body or lacks SOT/EOT (framing)"
        r = ref_ib_decode(frame)
        want = (inp["d"], inp["s"], inp["t"], inp["g"], list(inp["data"]))
        if r != ("ok", want):
            return "conforming device decodes %r from the frame, driver sent %r" % (r, want)
        return None
    if kind == "ib_dec":
        r = ref_ib_decode(inp["frame"])
        if r[0] == "ok":
            if len(inp["frame"]) < 8:     # cannot happen: 6 body bytes + SOT + EOT
                return None
            if obs[0] != "ok" or tuple(obs[1][:4]) + (obs[1][4],) != tuple(r[1][:4]) + (r[1][4],):
                return "valid frame of message %r decoded as %r" % (r[1], obs)
        elif r[0] == "bad":
            if obs[0] == "ok":
                return "frame that breaks the protocol (%s) was accepted as %r" % (r[1], obs[1])
        return None          # which exception class a bad frame raises is not fixed by the property
    if kind == "ib_rr":
        # The property fixes: every frame written is the request (a conforming device decodes exactly what the
        # driver asked to send); a returned response is a reply the device really sent, CRC-valid and addressed
        # (source,destination) = the request's (destination,source); an exchange in which such a reply was read
        # does not end in an error.  It does NOT fix how many retries are made, whether a bad reply is retried
        # or reported at once, which host address is used, or the class of the error.
        valid = 1 <= inp["d"] <= 160 and len(inp["data"]) <= 240 and 0 <= inp["g"] <= 255
        reqs = [ref_ib_decode(w) for w in obs["writes"]]
        if not obs["writes"]:
            if obs["res"][0] != "err":
                return "a response was returned although no request was written"
            return None if not valid or obs["res"][1] != "EExhausted" else "valid request was not sent"
        if reqs[0][0] != "ok":
            return "a written frame does not decode on a conforming device (%s)" % (reqs[0][1],)
        src = reqs[0][1][1]
        want_req = (inp["d"], src, inp["t"], inp["g"], list(inp["data"]))
        if not 161 <= src <= 255:
            return "request sent with source address %d (host addresses are 161..255)" % src
        for r in reqs:
            if r != ("ok", want_req):
                return "a written frame does not decode to the request on a conforming device"
        consumed = inp["script"][:obs["reads"]]
        good = []
        for ev in consumed:
            r = ("timeout",) if ev is None else ref_ib_decode(ev)
            if r[0] == "escape":
                return None          # frames outside the escaping rule: no demand
            good.append(list(r[1]) if r[0] == "ok" and r[1][1] == inp["d"] and r[1][0] == src else None)
        first = next((g for g in good if g is not None), None)
        if obs["res"][0] == "ok":
            m = obs["res"][1]
            if m[1] != inp["d"] or m[0] != src:
                return "returned a response with (source,destination)=(%d,%d) for a request (destination,source)=(%d,%d)" % (
                    m[1], m[0], inp["d"], src)
            if first is None or m != first:
                return "returned %r, the first valid matching reply read was %r" % (m, first)
            return None
        if first is not None:
            return "request/response ended in %s although the valid matching reply %r had been read" % (obs["res"][1], first)
        if obs["res"][1] == "EExhausted":
            return None             # the code was still retrying when the script ended: nothing to judge
        if obs["reads"] == 0:
            return "valid request ended in %s without reading any reply" % obs["res"][1]
        return None
    if kind == "usb_w":
        data = bytes(inp["data"])
        trs = [bytes(t) for t in obs["transfers"]]
        if not data:
            return None if not trs else "transfers written for an empty message"
        r = ref_usbtmc_device_recv(inp["tag"] if 0 <= inp["tag"] <= 255 else -1, trs)
        if isinstance(r, str):
            return "Bulk-OUT transfers violate USBTMC: " + r
        if r[0] != data:
            return "conforming device reassembles %d bytes != %d bytes sent" % (len(r[0]), len(data))
        if obs["tag"] != r[1]:
            return "last_btag %r but last transfer carried %r" % (obs["tag"], r[1])
        for t in trs:
            if struct.unpack_from("<L", t, 4)[0] > inp["mts"]:
                return "TransferSize above max_transfer_size"
        return None
    if kind == "usb_r":
        if inp.get("fault"):
            if inp["fault"][0] == "short_header" and obs["res"] == ["ok", list(inp["msg"])]:
                return None
            return None        # non-conforming device: judged by the correspondence only
        msg, num = list(inp["msg"]), inp["num"]
        want = msg if (num <= 0 or num >= len(msg)) else msg[:num]
        if obs["res"][0] != "ok":
            return "read_raw raised %s on a conforming device" % obs["res"][1]
        if obs["res"][1] != want:
            return "read_raw returned %d bytes, device message prefix has %d (or content differs)" % (
                len(obs["res"][1]), len(want))
        prev = inp["tag"]
        for q in obs["reqs"]:
            if len(q) != 12 or q[0] != 2 or q[1] == 0 or q[1] != (prev % 255) + 1 or q[2] != (~q[1] & 0xFF) or any(q[9:]) or q[3]:
                return "malformed REQUEST_DEV_DEP_MSG_IN header %r" % (q,)
            prev = q[1]
        for want_n in obs["requested"]:
            if want_n > inp["mts"] or want_n < 1:
                return "requested TransferSize %d outside 1..max_transfer_size" % want_n
        return None
    if kind == "t2":
        M = 1 << 64
        ovf = inp["ovf"]
        exp_all = []
        exp_batches = []
        for b in inp["batches"]:
            e = []
            for r in b:
                typ, tag = (r >> 25) & 0x7F, r & 0x1FFFFFF
                if typ == 0x7F:
                    ovf = (ovf + tag) % M
                else:
                    e.append([typ, (ovf * (1 << 25) + tag) % M])
            exp_batches.append(e)
            exp_all += e
        if obs["events"] != exp_batches:
            return "batch events differ from the timestamp formula (ovf*2^25+tag mod 2^64)"
        if obs["ovf"] != ovf:
            return "overflow counter %d after the batches, expected %d" % (obs["ovf"], ovf)
        if [x for e in obs["events"] for x in e] != obs["whole"] or obs["ovf"] != obs["whole_ovf"]:
            return "batched decoding differs from decoding the whole stream at once"
        return None
    if kind == "scpi_block":
        s, term = bytes(inp["stream"]), bytes(inp["term"])
        # reference parse of an IEEE 488.2 definite length block
        def ref():
            if len(s) < 2:
                return ("timeout", None)
            if s[0:1] != b"#" or not (48 <= s[1] <= 57) or s[1] == 48:
                return ("bad", None)
            nd = s[1] - 48
            if len(s) < 2 + nd:
                return ("timeout", None)
            if not all(48 <= c <= 57 for c in s[2:2 + nd]):
                return ("bad", None)
            n = int(s[2:2 + nd])
            end = 2 + nd + n
            if len(s) < end:
                return ("timeout", None)
            if inp["flag"]:
                if len(s) < end + len(term):
                    return ("timeout", None)
                if s[end:end + len(term)] != term:
                    return ("bad", None)
                return ("ok", (s[2 + nd:end], s[end + len(term):]))
            return ("ok", (s[2 + nd:end], s[end:]))
        k, v = ref()
        if k == "ok":
            if obs["res"] != ["ok", list(v[0])]:
                return "valid block of %d bytes read as %r" % (len(v[0]), obs["res"][:1] + [len(obs["res"][1])])
            if obs["rest"] != list(v[1]):
                return "bytes after the block were consumed or left behind"
        elif k == "bad":
            if obs["res"][0] != "err":
                return "malformed block yielded data %r instead of an error" % (obs["res"][1][:8],)
        else:
            if obs["res"][0] != "err":
                return "truncated block yielded data %r instead of an error" % (obs["res"][1][:8],)
        return None
    if kind == "scpi_ask":
        cmd, ct, rt = inp["cmd"], inp["cterm"], inp["rterm"]
        if any(c > 127 for c in cmd):
            return None if obs["res"][0] == "err" and not obs["writes"] else "non-ASCII command was not refused"
        if obs["writes"] != [list(cmd) + list(ct)]:
            return "bytes written differ from command + terminator"
        rep = inp["reply"]
        if rep is None:
            return None if obs["res"][0] == "err" else "a reply was returned although the transport timed out"
        if len(rt) and rep[len(rep) - len(rt):] == list(rt) and len(rep) >= len(rt):
            body = rep[:len(rep) - len(rt)]
            if any(c > 127 for c in body):
                return None if obs["res"][0] == "err" else "non-ASCII reply decoded"
            return None if obs["res"] == ["ok", body] else "reply %r returned as %r" % (body, obs["res"])
        return None if obs["res"][0] == "err" else "reply without terminator yielded %r" % (obs["res"],)
    if kind == "usb_qw":
        # which max_transfer_size / quirk flags a vendor id selects is tuning the property does not fix; the
        # live max_transfer_size is the bound the transfers are judged against
        data = bytes(inp["data"])
        trs = [bytes(t) for t in obs["transfers"]]
        if not isinstance(obs["mts"], int) or obs["mts"] < 1:
            return "max_transfer_size %r after vendor quirks" % (obs["mts"],)
        if not data:
            return None if not trs else "transfers written for an empty message"
        r = ref_usbtmc_device_recv(inp["tag"], trs)
        if isinstance(r, str):
            return "Bulk-OUT transfers violate USBTMC: " + r
        if r[0] != data:
            return "conforming device reassembles something else than the data sent"
        for t in trs:
            if struct.unpack_from("<L", t, 4)[0] > obs["mts"]:
                return "TransferSize %d above max_transfer_size %d" % (struct.unpack_from("<L", t, 4)[0], obs["mts"])
        return None
    if kind == "scpi_block_ch":
        flat = {"flag": inp["flag"], "term": inp["term"], "stream": [b for c in inp["chunks"] for b in c]}
        whole = impl("scpi_block", flat)
        same = whole["res"][0] == obs["res"][0] and (obs["res"][0] == "err" or (whole["res"] == obs["res"] and whole["rest"] == obs["rest"]))
        if not same:
            return "reply split into transfers reads as %r, in one piece as %r" % (
                (obs["res"][0], len(obs["rest"])), (whole["res"][0], len(whole["rest"])))
        return oracle("scpi_block", flat, obs)
    if kind == "scpi_write":
        if any(c > 127 for c in inp["cmd"]):
            return None if obs["res"][0] == "err" and not obs["writes"] else \
                "non-ASCII command not refused: %r written %r" % (obs["res"], obs["writes"])
        want = [list(inp["cmd"]) + list(inp["cterm"])]
        return None if obs["res"] == ["ok", want] else "bytes written differ from command + terminator"
    if kind in ("apt_fields", "apt_pack"):
        import qmi.instruments.thorlabs.apt_packets as P
        cls = getattr(P, inp["type"])
        fmt = APT_SPEC.get(inp["type"])
        if kind == "apt_fields":
            raw = bytes(inp["bytes"])
            if fmt is None:
                want = [v if isinstance(v, list) else [v] for v in apt_ref_fields(cls, raw)]
            else:
                want = apt_spec_decode(inp["type"], raw)
            if obs["fields"] != want:
                k = next((i for i, (a, b) in enumerate(zip(obs["fields"], want)) if a != b), -1)
                return "field #%d read as %r, the documented layout gives %r" % (
                    k, obs["fields"][k] if k >= 0 else len(obs["fields"]), want[k] if k >= 0 else len(want))
            return None
        if fmt is None:
            return None
        flat = []
        for vs, code in zip(inp["values"], apt_spec_codes(inp["type"])):
            flat += [bytes(vs)] if code == "s" else list(vs)
        try:
            want = list(struct.pack(fmt, *flat))
        except struct.error as e:
            return "a value the class accepts does not fit the documented field type (%s)" % e
        if obs["bytes"] != want:
            k = next((i for i, (a, b) in enumerate(zip(obs["bytes"], want)) if a != b), min(len(want), len(obs["bytes"])))
            return "structure bytes differ from the documented layout at offset %d (%r vs %r)" % (
                k, obs["bytes"][k:k + 4], want[k:k + 4])
        return None
    if kind == "apt_param":
        w = bytes(b for x in obs["writes"] for b in x)     # one write or several: the device sees a byte stream
        if len(w) != 6:
            return "header-only command is not 6 bytes"
        mid, p1, p2, d, s = struct.unpack("<HBBBB", w)
        want = (inp["id"] & 0xFFFF, inp["p1"] & 0xFF, inp["p2"] & 0xFF, inp["dev"] & 0xFF, inp["host"] & 0xFF)
        return None if (mid, p1, p2, d, s) == want else "device unpacks %r, driver sent %r" % ((mid, p1, p2, d, s), want)
    if kind == "apt_data":
        w = bytes(b for x in obs["writes"] for b in x)
        if len(w) < 6:
            return "data command shorter than a header"
        mid, ln, d, s = struct.unpack("<HHBB", w[:6])
        if (mid, ln, d, s) != (inp["id"] & 0xFFFF, len(inp["payload"]), (inp["dev"] | 0x80) & 0xFF, inp["host"] & 0xFF):
            return "device unpacks header %r" % ((mid, ln, d, s),)
        return None if list(w[6:]) == list(inp["payload"]) else "data packet bytes differ from the structure sent"
    if kind == "apt_ask":
        import qmi.instruments.thorlabs.apt_packets as P
        cls = getattr(P, inp["type"])
        ho, mid, sz = apt_types()[inp["type"]]
        s = bytes(inp["stream"])
        if len(s) < 6:
            return None if obs["res"][0] == "err" else "a reply was returned from a truncated header"
        if ho:
            rid = struct.unpack("<H", s[:2])[0]
            if obs["res"][0] == "err":
                # the property demands the id check only for data messages; rejecting a header with another id
                # is allowed, rejecting the expected one is not
                return None if rid != mid else "header-only reply with the expected id raised %s" % obs["res"][1]
            if obs["res"] != ["ok", list(s[:6])]:
                return "header-only reply returned as %r" % (obs["res"],)
            if obs["fields"] != apt_ref_fields(cls, s[:6]):
                return "header fields differ from a field-by-field decode"
            return None
        rid, ln = struct.unpack("<HH", s[:4])
        if len(s) < 6 + ln:
            return None if obs["res"][0] == "err" else "truncated data reply returned data"
        if rid != mid:
            if obs["res"][0] != "err":
                return "data reply with message id 0x%04x (expected 0x%04x) yielded %r" % (rid, mid, obs["res"])
            return None
        if ln < sz:
            return None if obs["res"][0] == "err" else "data reply shorter than the structure returned data"
        raw = s[6:6 + sz]
        if obs["res"] != ["ok", list(raw)]:
            return "data reply bytes not returned unchanged"
        if obs["fields"] != apt_ref_fields(cls, raw):
            return "returned structure fields differ from a field-by-field little-endian decode"
        if obs["rest"] != list(s[6 + ln:]):
            return "bytes after the reply consumed or left behind"
        return None
    raise KeyError(kind)


# =========================================================================================
# Coq case terms
# =========================================================================================

APT_LAYOUTS = {}      # packet name -> layout (list of field dicts), filled from the translator in run()/replay()


def load_layouts():
    packets, errors = T.translate()
    APT_LAYOUTS.clear()
    for p in packets:
        APT_LAYOUTS[p["name"]] = p["layout"]
    return packets, errors


def coq_case(kind, inp, obs):
    if kind == "ib_enc":
        return "CIbEnc %s %s %s %s %s %s" % (cN(inp["d"]), cN(inp["s"]), cN(inp["t"]), cN(inp["g"]),
                                           cbytes(inp["data"]), c_res_bytes(obs))
    if kind == "ib_dec":
        return "CIbDec %s %s %s" % (cbytes(live()["types"]), cbytes(inp["frame"]), c_res_msg(obs))
    if kind == "ib_rr":
        script = clist(["RdTimeout" if e is None else "RdBytes %s" % cbytes(e) for e in inp["script"]])
        L = live()
        return "CIbRR %s %s %s %s %s %s %s %s %s %s %s %s" % (
            cbytes(L["types"]), cnat(L["maxr"]), cN(L["base"]), cN(inp["toggle"]), cN(inp["d"]), cN(inp["t"]), cN(inp["g"]), cbytes(inp["data"]), script,
            cN(obs["toggle"]), c_bl(obs["writes"]), c_res_msg(obs["res"]))
    if kind == "usb_w":
        return "CUsbW %s %s %s %s %s" % (cbytes(inp["data"]), cnat(inp["mts"]), cN(inp["tag"]),
                                        c_bl(obs["transfers"]), cN(obs["tag"]))
    if kind == "usb_r":
        return "CUsbR %s %s %s %s %s %s %s" % (cZ(inp["num"]), cN(inp["mts"]), cN(inp["tag"]), c_bl(obs["script"]),
                                              c_bl(obs["reqs"]), cN(obs["tag"]), c_res_bytes(obs["res"]))
    if kind == "t2":
        ev = lambda e: "(%s, %s)" % (cN(e[0]), cN(e[1]))
        return "CT2 %s %s %s %s" % (cN(inp["ovf"]), c_bl(inp["batches"]), cN(obs["ovf"]),
                                    clist([clist([ev(e) for e in b]) for b in obs["events"]]))
    if kind == "scpi_block":
        return "CScpiBlock %s %s %s %s %s" % (cbool(inp["flag"]), cbytes(inp["term"]), cbytes(inp["stream"]),
                                              c_res_bytes(obs["res"]), cbytes(obs["rest"]))
    if kind == "scpi_ask":
        rep = "RTimeout" if inp["reply"] is None else "(RMsg %s)" % cbytes(inp["reply"])
        return "CScpiAsk %s %s %s %s %s %s" % (cbytes(inp["cmd"]), cbytes(inp["cterm"]), cbytes(inp["rterm"]), rep,
                                              c_bl(obs["writes"]), c_res_bytes(obs["res"]))
    if kind == "usb_qw":
        return "CUsbQuirkW %s %s %s %s %s %s %s %s %s %s" % (
            cN(inp["vendor"]), cN(inp["product"]), cbytes(inp["data"]), cN(inp["tag"]), cN(obs["mts"]),
            cbool(obs["adv"]), cbool(obs["rigol"]), cbool(obs["ieee"]), c_bl(obs["transfers"]), cN(obs["tag"]))
    if kind == "scpi_block_ch":
        return "CScpiBlockCh %s %s %s %s %s" % (cbool(inp["flag"]), cbytes(inp["term"]), c_bl(inp["chunks"]),
                                                c_res_bytes(obs["res"]), cbytes(obs["rest"]))
    if kind == "scpi_write":
        r = obs["res"]
        return "CScpiWrite %s %s %s" % (cbytes(inp["cmd"]), cbytes(inp["cterm"]),
                                        "(Ok %s)" % c_bl(r[1]) if r[0] == "ok" else c_err(r[1]))
    if kind in ("apt_fields", "apt_pack"):
        lay = T.coq_layout(APT_LAYOUTS[inp["type"]])
        zl = lambda vss: clist([clist([cZ(v) for v in vs]) for vs in vss])
        if kind == "apt_fields":
            return "CAptFields %s %s %s" % (lay, cbytes(inp["bytes"]), zl(obs["fields"]))
        return "CAptPack %s %s %s" % (lay, zl(inp["values"]), cbytes(obs["bytes"]))
    if kind == "apt_param":
        w = [b for x in obs["writes"] for b in x]
        return "CAptParam %s %s %s %s %s %s" % (cN(inp["dev"]), cN(inp["host"]), cN(inp["id"]), cN(inp["p1"]),
                                               cN(inp["p2"]), cbytes(w))
    if kind == "apt_data":
        w = [b for x in obs["writes"] for b in x]
        return "CAptData %s %s %s %s %s" % (cN(inp["dev"]), cN(inp["host"]), cN(inp["id"]), cbytes(inp["payload"]),
                                            cbytes(w))
    if kind == "apt_ask":
        ho, mid, sz = apt_types()[inp["type"]]
        return "CAptAsk %s %s %s %s %s %s %s" % (cbool(live()["ho_check"]), cbool(ho), cN(mid), cN(sz), cbytes(inp["stream"]),
                                             c_res_bytes(obs["res"]), cbytes(obs["rest"]))
    raise KeyError(kind)


# =========================================================================================
# generators
# =========================================================================================

def gen_bytes(rng, n, reserved_weight=0.4):
    return [rng.choice(RESERVED) if rng.random() < reserved_weight else rng.randrange(256) for _ in range(n)]


def gen_ib_msg(rng, device_side=False):
    n = rng.choice([0, 0, 1, 2, 3, 4, 5, 8, 13, 32, 100, 239, 240]) if rng.random() < 0.9 else rng.randrange(241)
    if n > 40 and rng.random() < 0.7:
        n = rng.randrange(0, 24)
    w = rng.choice([0.0, 0.2, 0.6, 1.0])
    data = gen_bytes(rng, n, w)
    if device_side:
        d, s = rng.randint(161, 255), rng.randint(1, 160)
    else:
        d, s = rng.choice([1, 10, 13, 15, 94, 160, rng.randint(1, 160)]), rng.choice([161, 162, 255, rng.randint(161, 255)])
    t = rng.choice(live()["types"])
    g = rng.choice([0x0A, 0x0D, 0x5E, 0x61, 0x66, rng.randrange(256)])
    return d, s, t, g, data


def force_reserved_crc(rng, d, s, t, g, data):
    """Vary the last data byte until a CRC byte is a reserved value."""
    if not data:
        data = [0]
    for v in rng.sample(range(256), 256):
        dd = data[:-1] + [v]
        crc = binascii.crc_hqx(bytes([d, s, t, g]) + bytes(dd), 0)
        if (crc >> 8) in (0x0A, 0x0D, 0x5E) or (crc & 0xFF) in (0x0A, 0x0D, 0x5E):
            return dd
    return data


def corrupt_frame(rng, frame):
    """Single-field corruptions of a valid frame -> (label, bytes)."""
    f = list(frame)
    k = rng.choice(["flip_body", "flip_crc", "drop_sot", "drop_eot", "truncate", "bad_sot", "bad_eot", "swap_addr",
                    "type", "dup_byte", "del_byte"])
    if k == "flip_body" and len(f) > 2:
        i = rng.randrange(1, len(f) - 1)
        f[i] ^= rng.choice([1, 2, 4, 0x40, 0x80, 0xFF])
    elif k == "flip_crc" and len(f) > 3:
        i = rng.choice([len(f) - 2, len(f) - 3])
        f[i] = (f[i] + rng.randint(1, 255)) % 256
    elif k == "drop_sot":
        f = f[1:]
    elif k == "drop_eot":
        f = f[:-1]
    elif k == "truncate":
        f = f[:rng.randrange(0, len(f))]
    elif k == "bad_sot":
        f[0] = rng.choice([0x0A, 0x00, 0x5E, 0x0C])
    elif k == "bad_eot":
        f[-1] = rng.choice([0x0D, 0x00, 0x0B])
    elif k == "swap_addr" and len(f) > 3:
        f[1], f[2] = f[2], f[1]
    elif k == "type" and len(f) > 4:
        f[3] = rng.choice([10, 11, 0xFF, 0x80])
    elif k == "dup_byte" and len(f) > 2:
        i = rng.randrange(1, len(f) - 1)
        f = f[:i] + [f[i]] + f[i:]
    elif k == "del_byte" and len(f) > 2:
        i = rng.randrange(1, len(f) - 1)
        f = f[:i] + f[i + 1:]
    return k, f


def gen_cases(ck):
    rng = ck.rng
    S = 1 if ck.tier == "quick" else 25
    cases = []

    def add(kind, inp, bucket, nontrivial=True):
        cases.append((kind, inp, bucket, nontrivial))

    # ---------------- Interbus encode ----------------
    for i in range(350 * S):
        d, s, t, g, data = gen_ib_msg(rng)
        b = "valid"
        r = rng.random()
        if r < 0.25:
            data = force_reserved_crc(rng, d, s, t, g, data)
            b = "valid-reserved-crc"
        elif r < 0.33:
            b = "invalid-field"
            w = rng.choice("dsgl")
            if w == "d":
                d = rng.choice([0, 161, 200, 255])
            elif w == "s":
                s = rng.choice([0, 1, 160, 256, 300])
            elif w == "g":
                g = rng.choice([256, 300])
            else:
                data = gen_bytes(rng, rng.choice([241, 242, 250]), 0.1)
        add("ib_enc", {"d": d, "s": s, "t": t, "g": g, "data": data}, "ib_enc:" + b, b != "invalid-field")
    # exhaustive: every single data byte value, and every (reserved, reserved) pair
    for v in range(256):
        add("ib_enc", {"d": 15, "s": 161, "t": 5, "g": 0x30, "data": [v]}, "ib_enc:exhaustive-1byte")
    for a in RESERVED:
        for b in RESERVED:
            add("ib_enc", {"d": 15, "s": 162, "t": 5, "g": a, "data": [a, b, a]}, "ib_enc:reserved-pairs")
    # ---------------- Interbus decode ----------------
    for i in range(500 * S):
        d, s, t, g, data = gen_ib_msg(rng, device_side=True)
        if rng.random() < 0.3:
            data = force_reserved_crc(rng, d, s, t, g, data)
        frame = list(ref_ib_encode(d, s, t, g, data))
        r = rng.random()
        if r < 0.45:
            add("ib_dec", {"frame": frame}, "ib_dec:valid")
        elif r < 0.93:
            k, f = corrupt_frame(rng, frame)
            add("ib_dec", {"frame": f}, "ib_dec:corrupt:" + k)
        else:
            add("ib_dec", {"frame": gen_bytes(rng, rng.randrange(0, 14), 0.5)}, "ib_dec:junk")
    for n in range(0, 9):   # minimal lengths around the two 'too short' tests
        add("ib_dec", {"frame": [13] + [0] * n + [10]}, "ib_dec:short")
        add("ib_dec", {"frame": [13] + [0x5E, 0x4A] * n + [10]}, "ib_dec:short")
    # ---------------- Interbus request/response ----------------
    for i in range(300 * S):
        d, _, t, g, data = gen_ib_msg(rng)
        data = data[:12]
        toggle = rng.choice([0, 1])
        B, base = live()["maxr"], live()["base"]      # live retry bound and host base address
        src = base + ((toggle + 1) & 1)
        script = []
        style = rng.choice(["quick", "quick", "retries", "exhaust", "mismatch-heavy", "short-script", "attempt-k", "attempt-k"])
        n = {"quick": rng.randint(1, 3), "retries": rng.randint(2, max(2, B - 1)), "exhaust": rng.randint(B + 1, B + 4),
             "mismatch-heavy": rng.randint(max(1, B - 2), B + 4), "short-script": rng.randint(0, max(1, B // 2)),
             "attempt-k": rng.choice([B, B + 1, B + 1, B + 2, B + 3, rng.randint(1, B + 3)])}[style]
        for k in range(n):
            good = list(ref_ib_encode(src, d, rng.choice([0, 3, 8]), g, gen_bytes(rng, rng.randrange(0, 6), 0.5)))
            r = rng.random()
            last = (k == n - 1)
            if style in ("quick", "retries", "attempt-k") and last:
                script.append(good)       # attempt-k: the device answers correctly only on attempt k = n
            elif style in ("exhaust", "short-script", "attempt-k") or r < 0.8:
                kind_ev = rng.choice(["timeout", "corrupt", "stale", "wrongdst", "swapped", "junk"] if style != "mismatch-heavy"
                                     else ["stale", "wrongdst", "swapped", "stale", "timeout"])
                if kind_ev == "timeout":
                    script.append(None)
                elif kind_ev == "corrupt":
                    script.append(corrupt_frame(rng, good)[1])
                elif kind_ev == "stale":      # reply to the previous request (other toggle)
                    script.append(list(ref_ib_encode(min(255, base + toggle), d, 8, g, [1, 2])))
                elif kind_ev == "wrongdst":
                    script.append(list(ref_ib_encode(src, (d % 160) + 1, 8, g, [])))
                elif kind_ev == "swapped":
                    script.append(list(ref_ib_encode(d, src, 8, g, [])) if False else
                                  list(ref_ib_encode(rng.randint(161, 255), rng.randint(1, 160), 3, g, [])))
                else:
                    script.append(gen_bytes(rng, rng.randrange(0, 10), 0.5))
            else:
                script.append(good)
        if rng.random() < 0.04:
            d = rng.choice([0, 161])
        if style == "attempt-k" and rng.random() < 0.5:
            script += [None, good]        # whatever follows the first good reply must not matter
        add("ib_rr", {"toggle": toggle, "d": d, "t": t, "g": g, "data": data, "script": script},
            "ib_rr:" + style + (":k<=bound+1" if style == "attempt-k" and n <= B + 1 else ":k>bound+1" if style == "attempt-k" else ""))
    # ---------------- USBTMC write ----------------
    for i in range(350 * S):
        mts = rng.choice([1, 2, 3, 4, 5, 7, 8, 12, 16, 31, 64])
        k = rng.choice([0, 1, 1, 2, 3, 5])
        n = max(0, k * mts + rng.choice([-1, 0, 1]))
        if rng.random() < 0.2:
            n = rng.randrange(0, 40)
        if n > 200:
            n = 200
        tag = rng.choice([0, 1, 100, 252, 253, 254, 255, rng.randrange(256)])
        add("usb_w", {"data": gen_bytes(rng, n, 0.2), "mts": mts, "tag": tag},
            "usb_w:align%d" % (n % 4) if n else "usb_w:empty", n > 0)
    for mts in (1, 2, 3, 4, 5):        # exhaustive small scope: all lengths 0..13, tags near wrap
        for n in range(0, 14):
            for tag in (253, 254, 255):
                add("usb_w", {"data": [(7 * j + n) % 256 for j in range(n)], "mts": mts, "tag": tag}, "usb_w:exhaustive", n > 0)
    # long message through the 255 -> 1 wrap with one-byte transfers
    add("usb_w", {"data": [j % 256 for j in range(300)], "mts": 1, "tag": 0}, "usb_w:wrap-300")
    # ---------------- USBTMC read ----------------
    for i in range(300 * S):
        mts = rng.choice([1, 2, 3, 4, 5, 8, 16, 64])
        n = rng.choice([0, 1, 2, 3, 4, 5, mts - 1, mts, mts + 1, 2 * mts, 2 * mts + 1, 3 * mts - 1, rng.randrange(0, 60)])
        n = max(0, min(n, 120))
        msg = gen_bytes(rng, n, 0.2)
        plan, left = [], n
        while left > 0 and len(plan) < 40:
            c = rng.choice([1, 1, 2, 3, mts, mts, rng.randint(1, max(1, mts)), 0 if rng.random() < 0.1 else 1])
            c = min(c, left)
            plan.append(c)
            left -= c
        pads = [[rng.randrange(256) for _ in range(rng.choice([0, 0, (-c) % 4, 3]))] for c in plan] + [[]] * 2
        r = rng.random()
        num = -1
        if r < 0.25:
            num = rng.choice([1, 2, max(1, n - 1), max(1, n), n + 1, n + 5, mts, mts + 1, 0])
        fault = None
        if rng.random() < 0.12:
            fault = rng.choice([["short_header", rng.randrange(0, 3), rng.randrange(0, 12)],
                                ["declare_more", rng.randrange(0, 3), rng.randint(1, 4)],
                                ["no_eom"], ["silent_after", rng.randrange(0, 4)]])
        tag = rng.choice([0, 1, 253, 254, 255, rng.randrange(256)])
        add("usb_r", {"msg": msg, "plan": plan, "pads": pads, "num": num, "mts": mts, "tag": tag, "fault": fault},
            "usb_r:" + ("fault:" + fault[0] if fault else ("num=-1" if num == -1 else "num>=0")), fault is None and n > 0)
    # ---------------- T2 ----------------
    for i in range(200 * S):
        nrec = rng.choice([0, 1, 2, 5, 10, 25, 40])
        recs = []
        for _ in range(nrec):
            r = rng.random()
            if r < 0.3:
                typ = 0x7F
                tag = rng.choice([1, 1, 2, 3, 0, (1 << 25) - 1, rng.randrange(1 << 25)])
            else:
                typ = rng.choice([0, 1, 7, 0x40, 0x41, 0x4F, 0x3F, 0x7E, rng.randrange(127)])
                tag = rng.choice([0, 1, (1 << 25) - 1, rng.randrange(1 << 25)])
            recs.append((typ << 25) | tag)
        ovf = rng.choice([0, 0, 1, (1 << 39) - 1, 1 << 39, (1 << 39) - 2, (1 << 64) - 1, (1 << 64) - 2, rng.randrange(1 << 40)])
        cuts = sorted(rng.randrange(0, nrec + 1) for _ in range(rng.choice([0, 1, 2, 4])))
        batches, prev = [], 0
        for c in cuts + [nrec]:
            batches.append(recs[prev:c])
            prev = c
        if rng.random() < 0.3:
            batches.insert(rng.randrange(len(batches) + 1), [])
        add("t2", {"ovf": ovf, "batches": batches}, "t2:%s" % ("wrap" if ovf >= (1 << 39) - 2 else "plain"),
            nrec > 0)
    # ---------------- SCPI block ----------------
    for i in range(350 * S):
        n = rng.choice([0, 1, 2, 9, 10, 11, 99, 100, 101, rng.randrange(0, 130)])
        data = gen_bytes(rng, n, 0.1) if rng.random() < 0.7 else [rng.choice([35, 48, 57, 10, 13]) for _ in range(n)]
        mind = len(str(n))
        nd = rng.choice([mind, mind, mind + 1, 9, rng.randint(mind, 9)])
        term = rng.choice([[10], [10], [13, 10], [13], []])
        flag = rng.random() < 0.8
        rest = gen_bytes(rng, rng.choice([0, 0, 1, 3]), 0.3)
        blk = list(ref_scpi_block(data, nd))
        stream = blk + (term if flag else []) + rest
        r = rng.random()
        b = "valid"
        if r < 0.5:
            pass
        else:
            c = rng.choice(["hash", "ndchar", "nd0", "lendigit", "truncate", "tail", "one_digit_less", "len+1", "len-1"])
            b = "corrupt:" + c
            if c == "hash":
                stream[0] = rng.choice([0x23 ^ 1, 0x24, 0x00, 0x31])
            elif c == "ndchar":
                stream[1] = rng.choice([0x2F, 0x3A, 0x41, 0x20, 0xB2])
            elif c == "nd0":
                stream[1] = 0x30
            elif c == "lendigit":
                stream[2 + rng.randrange(nd)] = rng.choice([0x20, 0x2D, 0x2B, 0x5F, 0x41, 0x2E, 0xB2])
            elif c == "truncate":
                stream = stream[:rng.randrange(0, len(stream))] if stream else stream
            elif c == "tail":
                if flag and term:
                    stream[len(blk)] = (stream[len(blk)] + 1) % 256
                    stream = stream + [0]
            elif c == "one_digit_less":
                stream[1] = 48 + max(1, nd - 1)      # header claims one digit fewer than were sent
            elif c == "len+1":
                stream = list(ref_scpi_block(data, nd))
                hdr = list(b"#%d%0*d" % (nd, nd, min(n + 1, 10 ** nd - 1)))
                stream = hdr + data + (term if flag else []) + rest
            elif c == "len-1":
                hdr = list(b"#%d%0*d" % (nd, nd, max(n - 1, 0)))
                stream = hdr + data + (term if flag else []) + rest
        add("scpi_block", {"flag": flag, "term": term, "stream": stream}, "scpi_block:" + b)
    # ---------------- SCPI ask ----------------
    for i in range(200 * S):
        cmd = [ord(c) for c in rng.choice(["*IDN?", "MEAS:VOLT?", ":SOUR1:FREQ? MAX", "", "A" * 20, "X\nY"])]
        if rng.random() < 0.1:
            cmd = cmd + [rng.choice([128, 233, 8364, 255])]
        ct = rng.choice([[10], [13, 10], [13]])
        rt = rng.choice([[10], [10], [13, 10], [13]])
        body = [rng.choice([48, 49, 44, 46, 65, 10, 13, 32]) for _ in range(rng.choice([0, 1, 5, 12]))]
        r = rng.random()
        if r < 0.5:
            rep, b = body + rt, "terminated"
        elif r < 0.65:
            rep, b = body, "no-terminator"
        elif r < 0.75:
            rep, b = body + rt[:-1] if len(rt) > 1 else body + [rt[0] ^ 1], "partial-terminator"
        elif r < 0.85:
            rep, b = body + [rng.choice([128, 200, 255])] + rt, "non-ascii"
        elif r < 0.92:
            rep, b = None, "timeout"
        else:
            rep, b = body + rt + [65], "data-after-terminator"
        add("scpi_ask", {"cmd": cmd, "cterm": ct, "rterm": rt, "reply": rep}, "scpi_ask:" + b)
    # ---------------- APT ----------------
    types = apt_types()
    ids = [0x0005, 0x0006, 0x0223, 0x0210, 0x0211, 0x0212, 0x0011, 0x0443, 0x0453, 0x0464, 0x04B9, 0x0490, 0x0491,
           0x046A, 0x0530, 0x0531, 0x0532, 0x00FF, 0xFF00, 0xFFFF, 0x0100]
    for i in range(120 * S):
        big = rng.random() < 0.08
        add("apt_param", {"dev": rng.choice([0x50, 0x21, 0x11, 0x22, 0x00, 0xFF, 0x80]), "host": rng.choice([1, 1, 2, 0xFF]),
                          "id": rng.choice(ids) + (0x10000 if big else 0), "p1": rng.choice([0, 1, 2, 0x80, 0xFF, rng.randrange(256)]) + (256 if big else 0),
                          "p2": rng.choice([0, 1, 2, 0xFF, rng.randrange(256)])}, "apt_param:" + ("truncating" if big else "in-range"))
    datat = sorted(n for n, v in types.items() if not v[0])
    for i in range(100 * S):
        tn = rng.choice(datat)
        add("apt_data", {"dev": rng.choice([0x50, 0x21, 0x11, 0x00, 0xD0]), "host": 1, "id": rng.choice(ids), "type": tn,
                         "payload": gen_bytes(rng, types[tn][2], 0.1)}, "apt_data:" + tn)
    for i in range(250 * S):
        tn = rng.choice(sorted(types))
        ho, mid, sz = types[tn]
        payload = gen_bytes(rng, sz, 0.1)
        rest = gen_bytes(rng, rng.choice([0, 0, 2]), 0.1)
        r = rng.random()
        b = "valid"
        rid, ln = mid, sz
        if ho:
            if r < 0.3:
                rid, b = rng.choice(ids), "header-other-id"
            stream = list(struct.pack("<HBBBB", rid, payload[2], payload[3], 0x01, 0x50)) + rest
            if r > 0.9:
                stream, b = stream[:rng.randrange(0, 6)], "truncated"
        else:
            if r < 0.3:
                rid, b = rng.choice([x for x in ids if x != mid] + [mid ^ 1, mid ^ 0x100, (mid << 8 | mid >> 8) & 0xFFFF]), "wrong-id"
                if rid == mid:
                    b = "valid"
            elif r < 0.4:
                ln, b = max(0, sz - rng.randint(1, 3)), "short-data"
                payload = payload[:ln]
            elif r < 0.5:
                ln, b = sz + rng.randint(1, 4), "long-data"
                payload = payload + gen_bytes(rng, ln - sz, 0.1)
            stream = list(struct.pack("<HHBB", rid, ln, 0x81, 0x50)) + payload + rest
            if 0.5 <= r < 0.6:
                stream, b = stream[:rng.randrange(0, len(stream))], "truncated"
        add("apt_ask", {"type": tn, "stream": stream}, "apt_ask:" + b)
    # ---------------- second round ----------------
    # SCPI block split into transfers: re-use the block cases generated above
    blocks = [c for c in cases if c[0] == "scpi_block"]
    for kind, inp, bucket, nt in rng.sample(blocks, min(len(blocks), 160 * S)):
        st = inp["stream"]
        style = rng.choice(["bytes", "header", "random", "random", "empties"])
        if style == "bytes":
            chunks = [[b] for b in st]
        elif style == "header":          # cuts inside '#', digit count, length digits
            k = rng.randint(1, min(len(st), 6)) if st else 0
            chunks = [[b] for b in st[:k]] + ([st[k:]] if st[k:] else [])
        else:
            cuts = sorted(rng.randrange(0, len(st) + 1) for _ in range(rng.randint(1, 6)))
            chunks, prev = [], 0
            for c in cuts + [len(st)]:
                chunks.append(st[prev:c])
                prev = c
            if style == "random":
                chunks = [c for c in chunks if c]
        add("scpi_block_ch", {"flag": inp["flag"], "term": inp["term"], "chunks": chunks},
            "scpi_block_ch:%s:%s" % (style, bucket.split(":", 1)[1].split(":")[0]), nt)
    for i in range(60 * S):
        cmd = [ord(c) for c in rng.choice(["*RST", "OUTP ON", "", ":DISP:TEXT 'x'", "A" * 30])]
        if rng.random() < 0.4:
            cmd.insert(rng.randrange(len(cmd) + 1), rng.choice([128, 176, 181, 233, 255, 256, 8364, 0x1F600]))
        add("scpi_write", {"cmd": cmd, "cterm": rng.choice([[10], [13, 10], [13], []])},
            "scpi_write:" + ("non-ascii" if any(c > 127 for c in cmd) else "ascii"))
    # vendor quirks + write_raw
    for i in range(70 * S):
        vendor, product = rng.choice([(0x1334, 0x0000), (0x1334, 0x04ce), (0x1334, rng.randrange(65536)),
                                      (0x1ab1, 0x04ce), (0x1ab1, 0x0588), (0x1ab1, 0x0001), (0x1313, 0x8078),
                                      (0x0957, 0x1755), (rng.randrange(65536), rng.randrange(65536))])
        n = rng.choice([0, 1, 62, 63, 64, 65, 125, 126, 127, 128, 189, 190, rng.randrange(0, 200)])
        add("usb_qw", {"vendor": vendor, "product": product, "data": gen_bytes(rng, n, 0.1),
                       "tag": rng.choice([0, 1, 253, 254, 255])},
            "usb_qw:" + ("advantest" if vendor == 0x1334 else "rigol" if vendor == 0x1ab1 else "other"), n > 0)
    # APT packets field by field
    def rand_val(f):
        w = f["width"]
        if f["kind"] == "FU":
            return rng.choice([0, 1, (1 << (8 * w)) - 1, 1 << (8 * w - 1), (1 << (8 * w - 1)) - 1, rng.randrange(1 << (8 * w))])
        if f["kind"] == "FS":
            h = 1 << (8 * w - 1)
            return rng.choice([0, 1, -1, h - 1, -h, rng.randrange(-h, h)])
        return rng.choice([0, 65, 66, 255, rng.randrange(256)])
    for i in range(150 * S if APT_LAYOUTS else 0):
        tn = rng.choice(sorted(APT_LAYOUTS))
        lay = APT_LAYOUTS[tn]
        size = sum(f["width"] * f["count"] for f in lay)
        raw = gen_bytes(rng, size, 0.05) if rng.random() < 0.6 else [rng.choice([0, 0x7F, 0x80, 0xFF]) for _ in range(size)]
        add("apt_fields", {"type": tn, "bytes": raw}, "apt_fields:" + tn)
    for i in range(150 * S if APT_LAYOUTS else 0):
        tn = rng.choice(sorted(APT_LAYOUTS))
        vals = []
        for f in APT_LAYOUTS[tn]:
            if f["kind"] == "FC":     # ctypes' char-array setter stops at a NUL: text + NUL padding only
                k = rng.randint(0, f["count"])
                vals.append([rng.randint(1, 255) for _ in range(k)] + [0] * (f["count"] - k))
            else:
                vals.append([rand_val(f) for _ in range(f["count"])])
        add("apt_pack", {"type": tn, "values": vals}, "apt_pack:" + tn)
    return cases


# =========================================================================================

def run(ck):
    ck.theory_dir = THEORY
    # ---- translator: APT packet layouts from the live ctypes classes (fail closed) ---------------
    packets, terrs = load_layouts()
    for n, e in terrs:
        ck.report("tie:translator:%s" % n, "t_c15_apt cannot translate apt_packets.%s (broken tie): %s" % (n, e),
                  {"broken": "translator t_c15_apt", "class": n, "error": e}, found_input=False)
    os.makedirs(os.path.dirname(GEN), exist_ok=True)
    T.emit(GEN, packets, True)
    t0 = time.time()
    ck.build_theory(THEORY, extra_gen=[GEN])
    gen_ok = os.path.exists(GEN + "o") and os.path.getmtime(GEN + "o") >= t0 - 1 and \
        "generated obligation file %s" % GEN not in ck.proof_log
    ok_flags = [True] * len(packets)
    if not gen_ok:
        ok_flags = []
        for p in packets:
            out = ck.model_eval("C15.Corr", "layout_wf %s %s" % (T.coq_layout(p["layout"]), cN(p["sizeof"])))
            ok_flags.append(out.rstrip().endswith("= true : bool"))
    ck.add_generated_obligations(len(packets), sum(ok_flags), [p["name"] for p, ok in zip(packets, ok_flags) if not ok])
    ck.coverage["apt_packet_layouts"] = {p["name"]: {"header_only": p["header_only"], "message_id": p["message_id"],
                                                     "sizeof": p["sizeof"], "layout": T.coq_layout(p["layout"])}
                                         for p in packets}
    for n, (ho_, mid_, sz_) in sorted(apt_types().items()):
        if n in APT_SPEC and sz_ != struct.calcsize(APT_SPEC[n]):
            ck.report("spec:apt-sizeof:%s" % n, "sizeof(%s) = %d, the documented packet has %d bytes" % (
                n, sz_, struct.calcsize(APT_SPEC[n])), {"broken": "pinned APT_SPEC layout", "class": n}, found_input=False)
    for p in packets:          # the (HEADER_ONLY, MESSAGE_ID, sizeof) the ask cases use must be the translated ones
        if apt_types().get(p["name"]) != (p["header_only"], p["message_id"], p["sizeof"]):
            ck.report("tie:translator:%s:meta" % p["name"], "translated packet metadata differ from the class attributes",
                      {"broken": "translator t_c15_apt", "class": p["name"]}, found_input=False)
    ck.trusted = [
        "Coq 8.16.1 kernel (vm_compute evaluates the models on cases and the finite CRC sweeps; no native_compute)",
        "hand-written models theories/C15/Model{IB,Usbtmc,T2,Scpi,Apt}.v, tied to /repo by this run's correspondence",
        "python harness c15.py: scripted transports (read(n) = exactly n bytes or timeout consuming nothing; "
        "read_until returns the scripted message), fake USB bulk endpoints and the simulated conforming device",
        "reference codecs of the oracle: binascii.crc_hqx, struct, printf-style block header",
        "numpy uint32/uint64 vector arithmetic (cumsum, masking, wrap-around) — trusted, compared",
        "ctypes packed little-endian structure layout and silent integer truncation — trusted, compared",
        "translator harness/translators/t_c15_apt.py (ctypes _fields_ -> Coq layout tables, fail closed) and the pinned "
        "APT_SPEC table of documented packet layouts used by the oracle",
    ]
    ck.assumptions = [
        "USBTMC: read_raw quirk branches (Rigol/Advantest) off, no USBError raised by the endpoints, term_char None",
        "outcomes are compared as data-vs-error: the class/wording of an error, and how much input was consumed when "
        "an error is raised, are not fixed by the property (only the harness-private 'script exhausted' is kept apart)",
        "T2: records are uint32; T3 decoding is outside the property",
        "SCPI/APT run over a transport that honours the C13 contract",
        "Interbus frames that violate the escaping rule itself (stray 0x5E, raw 0x0D inside a frame) carry no demand",
    ]
    ck.coverage["live_parameters"] = dict(live())     # read / probed on the code under test this run
    ck.assumptions.append("parameters taken from the code under test this run (quantified over in the theorems): %r" % (dict(live()),))
    cases = gen_cases(ck)
    terms, metas = [], []
    for kind, inp, bucket, nontrivial in cases:
        ck.note_case((kind, inp), nontrivial)
        ck.count(bucket)
        ck.count("codec:" + kind.split("_")[0])
        try:
            obs = impl(kind, inp)
        except Exception as e:  # noqa -- an exception class none of the codecs may raise on these inputs
            ck.report("crash:%s:%s" % (kind, type(e).__name__),
                      "C15 fails on the implementation (%s): unexpected %s: %s" % (kind, type(e).__name__, e),
                      {"kind": kind, "in": inp, "impl": "raised " + repr(e)})
            continue
        why = oracle(kind, inp, obs)
        if why:
            ck.report("oracle:%s:%s" % (kind, why.split("(")[0].strip()[:48]), "C15 fails on the implementation (%s): %s" % (kind, why),
                      {"kind": kind, "in": inp, "impl": obs})
        terms.append(coq_case(kind, inp, obs))
        metas.append((kind, inp, obs))
    seen = set()
    for m in metas:
        if m[0] not in seen and len(repr(m)) < 1500:
            seen.add(m[0])
            ck.sample({"kind": m[0], "in": m[1], "impl": m[2]}, 6)
    bad = ck.run_model("C15.Corr", "check_case", terms, "case", shard=250)
    ck.coverage["correspondence_disagreements"] = len(bad)
    # informational only: does the model's vendor-quirk table (Advantest 63 bytes, Rigol flags) still describe
    # the live _handle_vendor_quirks?  These values are tuning the property does not fix.
    qterms = [t for t, m in zip(terms, metas) if m[0] == "usb_qw"]
    try:
        qbad = ck.run_model("C15.Corr", "quirk_agrees", qterms, "case", shard=400) if qterms else []
        ck.coverage["vendor_quirk_table"] = {"cases": len(qterms), "differ_from_model_table": len(qbad)}
    except Exception as e:  # noqa
        ck.coverage["vendor_quirk_table"] = {"error": str(e)[:200]}
    kinds_reported = set()
    for i in bad:
        kind, inp, obs = metas[i]
        if kind in kinds_reported:
            continue
        kinds_reported.add(kind)
        why = oracle(kind, inp, obs)
        mo = ck.model_eval("C15.Corr", "model_out (%s)" % coq_case(kind, inp, obs))
        ck.report("corr:%s:%s" % (kind, "oracle-fails" if why else "model-differs"),
                  "implementation and Coq model disagree on a %s case" % kind + (": " + why if why else " (property oracle passes on it)"),
                  {"kind": kind, "in": inp, "impl": obs, "model": mo[-1500:], "broken": "correspondence C15.Corr.check_case"},
                  found_input=bool(why))
    return ck.finish("per codec: structured valid traffic from reference encoders + single-field corruptions + "
                     "exhaustive small scopes (all 1-byte payloads, reserved pairs, lengths 0..13 x transfer sizes 1..5 x tags 253..255); "
                     "non-trivial = non-empty payload / valid-path case; distinct by content hash")


def replay(rep):
    c = rep["case"]
    if "kind" not in c:
        print("no concrete case stored (broken tie / proof obligation):", c)
        return 1
    load_layouts()
    print("live parameters:", dict(live()))
    kind, inp = c["kind"], c["in"]
    print("kind:", kind)
    print("input:", inp)
    try:
        obs = impl(kind, inp)
    except Exception as e:  # noqa
        print("implementation raised unexpectedly:", repr(e))
        return 1
    print("implementation:", obs)
    if "model" in c:
        print("model (at time of report):", c["model"])
    why = oracle(kind, inp, obs)
    print("oracle:", why or "property holds on this case")
    return 1 if why else 0
