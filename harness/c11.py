"""C11 — a stop request always wakes a waiting task.

H3: the real qmi.core.task._TaskThread (with real QMI_Task / QMI_LoopTask subclasses and a real
QMI_SignalReceiver) runs under the deterministic scheduler (dsched).  Every schedule is recorded as
the sequence of synchronisation operations on the three named objects (stop flag, _wait_cond_lock,
the receiver's queue condition); the Coq model (theories/C11) must accept that sequence step by
step (refinement) and reach the same outcome.  Independent oracle: the task is released with the
stop exception, join() terminates, no deadlock, and the virtual time that elapses between stop()
and the release is 0.
"""
import logging
from common import poke  # noqa: E402

import dsched
from common import cbool, clist

THEORY = "C11"
VARIANTS = ["sleep", "getsig", "getsig_timed", "loop", "getsig_poll", "loop_finwait"]
# getsig_poll: the non-blocking form get_next_signal(timeout=0) (a task polling its receiver): Condition.wait(0) never parks,
# it releases and re-takes the queue lock (model program prog_getsig_poll)
# loop_finwait: a loop task whose loop_finalize itself waits (self.sleep): that wait starts after stop() and must be released at once
COQ_VARIANT = {"loop_finwait": "VLoopFinWait", "getsig_poll": "VGetSigPoll", "sleep": "VSleep", "getsig": "VGetSig", "getsig_timed": "VGetSigTimed", "loop": "VLoop",
               "getsig_reader": "VGetSigReader", "getsig_timed_reader": "VGetSigTimedReader"}


def scenario_lines(s, variant, env, stopper_delay, n_signals):
    """Same scenario with every source line of the protocol functions as an additional scheduling point."""
    import qmi.core.task as T
    import qmi.core.pubsub as P
    dsched.enable_line_yields([T._TaskThread.stop_task, T._TaskThread.wait_for_condition, P._wait_for_condition,
                               T.QMI_Task.sleep, P.QMI_SignalReceiver.get_next_signal, P.QMI_SignalReceiver._receive_signal,
                               T.QMI_LoopTask.run, T.QMI_Task.stop_requested])
    return scenario(s, variant, env, stopper_delay, n_signals)


def scenario(s, variant, env, stopper_delay, n_signals):
    """Runs inside a forked child under dsched.  Returns observations."""
    import threading as real_threading
    import qmi.core.task as T
    import qmi.core.pubsub as P
    from qmi.core.exceptions import QMI_TaskStopException, QMI_TimeoutException
    from qmi.core.messaging import QMI_MessageHandlerAddress as Addr
    logging.disable(logging.CRITICAL)
    obs = {"outcome": None, "fin": False, "run_entered": False, "t_release": None}
    s.obs = obs
    recv = P.QMI_SignalReceiver()
    s.recording = False

    class Runner:  # minimal stand-in for QMI_TaskRunner (only what QMI_Task touches)
        _context = None
        _thread = None

        def stop(self):
            self._thread.stop_task()

    runner = Runner()

    class SleepTask(T.QMI_Task):
        def run(self):
            obs["run_entered"] = True
            obs["seq_begin"] = len(s.events)
            try:
                self.sleep(5.0)
                obs["outcome"] = "tmo"
            except QMI_TaskStopException:
                obs["outcome"] = "exc"
                raise
            finally:
                obs["t_release"] = s.clock

    class GetSigTask(T.QMI_Task):
        TMO = None

        def run(self):
            obs["run_entered"] = True
            obs["seq_begin"] = len(s.events)
            try:
                recv.get_next_signal(timeout=self.TMO)
                obs["outcome"] = "sig"
            except QMI_TimeoutException:
                obs["outcome"] = "tmo"
            except QMI_TaskStopException:
                obs["outcome"] = "exc"
                raise
            finally:
                obs["t_release"] = s.clock

    class GetSigTimedTask(GetSigTask):
        TMO = 5.0

    class GetSigPollTask(GetSigTask):
        TMO = 0.0

    class LoopTask(T.QMI_LoopTask):
        def loop_prepare(self):
            obs["run_entered"] = True

        def loop_finalize(self):
            obs["fin"] = True
            obs["t_release"] = s.clock

    class LoopFinWaitTask(T.QMI_LoopTask):
        def loop_prepare(self):
            obs["run_entered"] = True

        def loop_finalize(self):
            obs["fin"] = True
            obs["seq_begin"] = len(s.events)
            try:
                self.sleep(5.0)
                obs["outcome"] = "tmo"
            except QMI_TaskStopException:
                obs["outcome"] = "exc"
            finally:
                obs["t_release"] = s.clock

    reader = variant.endswith("_reader")
    cls = {"loop_finwait": LoopFinWaitTask, "getsig_poll": GetSigPollTask, "sleep": SleepTask, "getsig": GetSigTask, "getsig_timed": GetSigTimedTask, "loop": LoopTask,
           "getsig_reader": GetSigTask, "getsig_timed_reader": GetSigTimedTask}[variant]
    kwargs = {"loop_period": 2.0} if variant in ("loop", "loop_finwait") else {}
    th = T._TaskThread(runner, "t", cls, (), kwargs)
    poke(runner, '_thread', th)
    th.start()
    th.wait_until_initialized()
    st, exc = th.get_state()
    assert st == T._TaskThread.State.READY_TO_RUN, (st, exc)
    task = th.task
    names = {id(task._stop_requested): "flag", id(th._wait_cond_lock): "wc",
             id(recv._queue_cond): "cv", id(recv._queue_cond._lock): "cvlock"}
    obs["names"] = {str(k): v for k, v in names.items()}
    obs["tids"] = {"TS": 0}

    def env_body():
        for k in range(n_signals):
            recv._receive_signal(P.QMI_SignalMessage(Addr("c", "p"), Addr("c", "$pubsub"), "sig", (k,)))

    def reader_body():
        # another (non-task) thread waiting on the SAME receiver, without timeout
        try:
            recv.get_next_signal(timeout=None)
            obs["reader"] = "sig"
        except BaseException as e:  # noqa
            obs["reader"] = type(e).__name__

    ev0 = len(s.events)
    s.recording = True
    rt = None
    if reader:
        rt = real_threading.Thread(target=reader_body, name="reader")
        rt.start()
        obs["tids"]["TE"] = s.by_real[rt].tid
    th.start_task()
    obs["tids"]["TW"] = s.by_real[th].tid
    if env and not reader:
        et = real_threading.Thread(target=env_body, name="env")
        et.start()
        obs["tids"]["TE"] = s.by_real[et].tid
    if stopper_delay:
        dsched.FAKE_TIME.sleep(stopper_delay)
    t_stop = s.clock
    th.stop_task()
    obs["t_stop_returned"] = s.clock
    th.join()
    s.recording = False
    ev_end = len(s.events)
    if rt is not None:
        # release the second reader (outside the modelled window) and collect it
        recv._receive_signal(P.QMI_SignalMessage(Addr("c", "p"), Addr("c", "$pubsub"), "sig", (99,)))
        rt.join()
    obs["t_stop"] = t_stop
    obs["seq_flag_set"] = next((i for i, e in enumerate(s.events) if len(e) > 2 and e[1] == "ev.set" and names.get(e[2]) == "flag"), None)
    obs["joined"] = True
    obs["final_state"] = th.get_state()[0].name
    obs["wc_after"] = th._wait_cond is not None
    obs["trace"] = [list(e) for e in s.events[ev0:ev_end] if e[1] in
                    ("acq", "cond.wait", "cond.resume", "ev.set", "ev.is_set", "ev.wait", "ev.resume", "timeout")]
    return obs


def to_model_trace(obs, variant=None):
    """Translate the recorded event log into model labels [(tid, obs-or-None)]."""
    names = {int(k): v for k, v in obs["names"].items()}
    role = {v: k for k, v in obs["tids"].items()}
    out = []
    parked = {}       # role -> 'cv' | 'ev'
    skip_acq = {}     # role -> True: the re-acquire inside Condition.wait
    timed_out = {}    # role -> True: the scheduler logged the expiry of the current timed wait
    park_at = {}      # role -> index in `out` just after the OPark of the current wait
    for e in obs["trace"]:
        tid, kind = e[0], e[1]
        r = role.get(tid)
        if r is None:
            continue
        if kind == "timeout":
            if parked.get(r):
                out.append((r, None))
                timed_out[r] = True
            continue
        name = names.get(e[2])
        if name is None:
            continue
        if kind == "acq":
            if name == "cvlock":
                if skip_acq.get(r):
                    skip_acq[r] = False
                    continue
                out.append((r, "OAcq 0"))
            elif name == "wc":
                out.append((r, "OAcq 1"))
        elif kind == "cond.wait" and name == "cv" and variant == "getsig_poll" and r == "TW":
            pass            # wait(0): no parking; the re-acquire that follows is an ordinary acquire of the queue lock
        elif kind == "cond.resume" and name == "cv" and variant == "getsig_poll" and r == "TW":
            if e[3]:
                out.append((r, "OResume true"))     # cannot happen for a wait that never parks: the model will reject it
        elif kind == "cond.wait" and name == "cv":
            out.append((r, "OPark"))
            parked[r] = "cv"
            timed_out[r] = False
            park_at[r] = len(out)
            skip_acq[r] = True
        elif kind == "cond.resume" and name == "cv":
            if not e[3] and not timed_out.get(r):
                # a wait with timeout 0 expires at once, at the moment of parking (the scheduler logs no separate expiry;
                # a notify that comes later finds no waiter)
                out.insert(park_at.get(r, len(out)), (r, None))
            out.append((r, "OResume %s" % cbool(e[3])))
            parked[r] = None
        elif kind == "ev.set" and name == "flag":
            out.append((r, "OSet"))
        elif kind == "ev.is_set" and name == "flag":
            out.append((r, "ORead %s" % cbool(e[3])))
        elif kind == "ev.wait" and name == "flag":
            out.append((r, "OEvWait %s" % cbool(e[3])))
            if not e[3]:
                parked[r] = "ev"
        elif kind == "ev.resume" and name == "flag":
            out.append((r, "OEvResume %s" % cbool(e[3])))
            parked[r] = None
    return out


def coq_case(variant, env, trace, obs):
    tr = clist(["(%s, %s)" % (t, "None" if o is None else "Some (%s)" % o) for t, o in trace])
    oc = obs.get("outcome")
    fin5 = (bool(obs.get("joined")), oc == "exc", oc == "sig", oc == "tmo", bool(obs.get("fin")))
    return "(%s, %s, %s, (%s))" % (COQ_VARIANT[variant], cbool(env), tr, ", ".join(cbool(b) for b in fin5))


def oracle(variant, env, delay, res):
    """C11 on the implementation's observations."""
    if res["status"] == "deadlock":
        return "deadlock", "the task is never released (scheduler reports a deadlock): %s" % (res.get("info"),)
    if res["status"] in ("hang", "abort"):
        return "hang", "schedule did not finish (%s)" % res["status"]
    if res["status"] != "ok":
        return "error", "scenario error: %s" % (res.get("trace") or res)[:600]
    o = res["obs"]
    if not o.get("joined"):
        return "nojoin", "join() did not return"
    if variant.endswith("_reader") and o.get("reader") not in ("sig", None):
        return "reader", "the other reader of the receiver ended with %r" % (o.get("reader"),)
    if variant in ("loop", "loop_finwait"):
        if o["run_entered"] and not o["fin"]:
            return "nofinalize", "loop task ended without running loop_finalize"
    else:
        if o["run_entered"] and o["outcome"] is None:
            return "nooutcome", "wait ended with no outcome"
    if o["run_entered"] and o["t_release"] is not None and o["t_release"] > o["t_stop_returned"] + 1e-9:
        # released later than the stop call returned: it waited out (part of) its timeout
        if o["outcome"] != "sig":
            return "late-release", "task released %.3f s (virtual) after stop() returned: it waited for its timeout" % (
                o["t_release"] - o["t_stop_returned"])
    if o["run_entered"] and variant != "loop" and o.get("seq_begin") is not None and o.get("seq_flag_set") is not None \
            and o["seq_flag_set"] < o["seq_begin"] and o["outcome"] not in ("exc", "sig"):
        return "wait-after-stop", ("the task started to wait after the stop flag had been set but was not released with the "
                                   "task-stop exception (outcome %r)" % (o["outcome"],))
    if o["run_entered"] and variant not in ("loop", "getsig_poll") and o["outcome"] == "tmo" and o["t_release"] >= o["t_stop_returned"] \
            and o["t_stop"] < 5.0 - 1e-9:
        return "timeout-after-stop", "wait ended by timeout although stop() was requested before the deadline"
    if o.get("wc_after"):
        return "wc-left", "_wait_cond still registered after the task ended"
    return None


def run(ck):
    ck.theory_dir = THEORY
    ck.build_theory(THEORY)
    ck.trusted = [
        "Coq 8.16.1 kernel + vm_compute (reachable sets of the 8 finite instances are computed and checked closed by reflection)",
        "model theories/C11/Model.v: thread programs transcribed by hand from task.py/pubsub.py, tied by step-by-step trace acceptance of real schedules",
        "dsched deterministic scheduler and its cooperative Lock/RLock/Condition/Event (monitor semantics; define what a schedule is)",
        "finite abstraction: receive queue = empty/non-empty, one wait per run, time-outs fire only while parked",
    ]
    ck.assumptions = ["CPython Condition/Event behave as monitors; code between two synchronisation operations of one thread is atomic w.r.t. the protocol state",
                      "schedules are explored at synchronisation-operation granularity (every lock acquire, wait, Event op and unlocked flag read is a switch point)"]
    import qmi.core.task, qmi.core.pubsub, qmi.core.messaging  # noqa  (loaded before fork/patch)
    terms, metas = [], []
    bound = 2 if ck.tier == "quick" else 3
    max_runs = 1500 if ck.tier == "quick" else 30000
    configs = []
    for v in VARIANTS:
        configs.append((v, False, 0.0, 0))
        if v in ("getsig", "getsig_timed"):
            configs.append((v, True, 0.0, 2))
        if v in ("sleep", "getsig_timed", "loop", "loop_finwait"):
            configs.append((v, False, 7.0 if not v.startswith("loop") else 5.0, 0))   # stop arrives after time-outs
        if v in ("getsig", "getsig_timed"):
            configs.append((v + "_reader", False, 0.0, 0))               # a second waiter on the same receiver
    total_runs = 0
    for (v, env, delay, nsig) in configs:
        exhausted = None
        for res in dsched.explore_dfs(scenario, (v, env, delay, nsig), preemption_bound=bound,
                                      max_runs=max_runs, nproc=16, wall_timeout=30.0):
            if res["status"] == "_summary":
                exhausted = res["exhausted"]
                ck.coverage.setdefault("dfs", {})["%s/env=%s/delay=%s" % (v, env, delay)] = {
                    "runs": res["runs"], "exhausted_within_preemption_bound": res["exhausted"], "bound": bound}
                continue
            total_runs += 1
            sched = res.get("prefix")
            ck.note_case((v, env, delay, tuple(res.get("choices") or ())), True)
            ck.count("variant:" + v)
            ck.count("status:" + res["status"])
            bad = oracle(v, env, delay, res)
            if bad:
                ck.report("oracle:%s:%s" % (v, bad[0]), "C11 fails on the implementation (%s, env=%s): %s" % (v, env, bad[1]),
                          {"variant": v, "env": env, "stopper_delay": delay, "n_signals": nsig,
                           "schedule": res.get("choices"), "status": res["status"]})
                continue
            o = res["obs"]
            ck.count("outcome:%s" % (o["outcome"] if v != "loop" else ("fin" if o["fin"] else "nofin")))
            tr = to_model_trace(o, v)
            terms.append(coq_case(v, env, tr, o))
            metas.append((v, env, delay, nsig, res.get("choices"), tr, o.get("outcome")))
    # line-granularity interleavings inside the protocol functions (random schedules; same oracle and same
    # trace acceptance: the synchronisation events must still form a path of the model)
    nline = 40 if ck.tier == "quick" else 600
    jobs, jmeta = [], []
    for (v, env, delay, nsig) in configs:
        for i in range(nline):
            jobs.append((scenario_lines, (v, env, delay, nsig), dict(strategy="random", seed=ck.seed * 7907 + i, switch_prob=0.5)))
            jmeta.append((v, env, delay, nsig))
    for (v, env, delay, nsig), res in zip(jmeta, dsched.run_forked(jobs, nproc=16, wall_timeout=30.0)):
        ck.note_case((v, env, delay, "lines", tuple(res.get("choices") or ())), True)
        ck.count("line-level:" + res["status"])
        bad = oracle(v, env, delay, res)
        if bad:
            ck.report("oracle:%s:%s" % (v, bad[0]), "C11 fails on the implementation (%s, env=%s, line-level schedule): %s" % (v, env, bad[1]),
                      {"variant": v, "env": env, "stopper_delay": delay, "n_signals": nsig, "line_level": True,
                       "schedule": res.get("choices"), "status": res["status"]})
            continue
        o = res["obs"]
        tr = to_model_trace(o, v)
        terms.append(coq_case(v, env, tr, o))
        metas.append((v, env, delay, nsig, res.get("choices"), tr, o.get("outcome")))
    for m in metas[:2] + metas[-1:]:
        ck.sample({"variant": m[0], "env": m[1], "stopper_delay": m[2], "schedule": m[4],
                   "trace": ["%s:%s" % (t, o) for t, o in m[5]], "outcome": m[6]}, 3)
    bad = ck.run_model("C11.Corr", "check_case", terms, "case", shard=300)
    ck.coverage["correspondence_disagreements"] = len(bad)
    for i in bad[:3]:
        v, env, delay, nsig, sched, tr, oc = metas[i]
        ck.report("corr:%s" % v, "a real schedule of %s is not a path of the Coq model (or ends in another outcome); "
                  "the property oracle passed on it" % v,
                  {"variant": v, "env": env, "stopper_delay": delay, "n_signals": nsig, "schedule": sched,
                   "trace": ["%s:%s" % (t, o) for t, o in tr], "outcome": oc,
                   "broken": "correspondence C11.Corr.check_case (trace acceptance)"}, found_input=False)
    return ck.finish("all schedules of the real _TaskThread stop/wait protocol at synchronisation granularity with at "
                     "most %d preemptions (stateless DFS), per variant; every schedule is distinct; non-trivial = all" % bound)


def replay(rep):
    c = rep["case"]
    import qmi.core.task, qmi.core.pubsub, qmi.core.messaging  # noqa
    res = dsched.run_forked([(scenario_lines if c.get("line_level") else scenario, (c["variant"], c["env"], c["stopper_delay"], c["n_signals"]),
                              dict(strategy="replay", schedule=list(c["schedule"] or [])))], nproc=1)[0]
    print("status:", res["status"], "obs:", {k: v for k, v in (res.get("obs") or {}).items() if k not in ("trace", "names")})
    bad = oracle(c["variant"], c["env"], c["stopper_delay"], res)
    print("oracle:", bad or "property holds on this schedule")
    return 1 if bad else 0
