"""C10 — task lifecycle: run() at most once and only after start; join reports outcome; settings hand-over.

H3: a real (local) QMI_Context, ctx.make_task with a task class whose run() follows a script
(update_settings / stop_requested / sleep / plain delay / poll loop; then finish ok, raise, raise a
BaseException, or raise QMI_TaskStopException), and a sequence of operations issued through the real task
proxy (start, stop, join, is_running, set_settings, get_settings, get_pending_settings, the `with` form,
remove_rpc_object) — all under the deterministic scheduler (random / PCT schedules; DFS with a preemption
bound on short scenarios).

What is recorded, without touching QMI's source:
  * call / return of every proxy operation (main thread) with the canonical result;
  * the linearisation point of every operation on the runner's RPC worker: the acquisition of
    _TaskThread._state_cond in which the state is read or written, the Event.set of the stop flag, the
    single deque operation on the settings slot, the read of task.settings;
  * the task thread's steps as they happen: entry of run() (logged by the task body), every
    update_settings (the deque test / pop), every read of the stop flag (Event.is_set / Event.wait), the
    end of run() with its kind, the acquisition of _state_cond in which the final state is written, and
    the return of _TaskThread.run.
The settings slot is observed through a logging subclass of collections.deque that keeps the original's
maxlen; task.settings through a property of the scripted task class; _TaskThread.run through a wrapper
that logs its return.  These are the anchored observation points (_state/_state_cond, _settings_fifo).

Correspondence = trace acceptance: the Coq model (theories/C10) must accept the recorded interleaving and
produce, label by label, the results the implementation produced, the same number of run() invocations
and the same thread-exited flag.  Independent oracle: C10 restated on API-level observations with
real-time (call/return) order only.
"""
import collections
import logging

import dsched
from common import cZ, cbool, clist

THEORY = "C10"
V0 = 0


# ------------------------------------------------------------------------------------------------
# values
# ------------------------------------------------------------------------------------------------

def mkval(k):
    return ("S", k, k * k)


def canon(v):
    """settings value -> its index; None -> None; anything that is not a whole posted value -> -1."""
    if v is None:
        return None
    if isinstance(v, tuple) and len(v) == 3 and v[0] == "S" and isinstance(v[1], int) and v[2] == v[1] * v[1]:
        return v[1]
    return -1


# ------------------------------------------------------------------------------------------------
# the scenario (runs in a forked child under dsched)
# ------------------------------------------------------------------------------------------------

def scenario(s, script, ops, window):
    """script = {"body": [action...], "end": "ok"|"exc"|"baseexc"|"stopexc"};
    actions: ["U"] update_settings, ["P"] stop_requested, ["S", d] self.sleep(d), ["Z", d] plain delay,
             ["L", n, d] up to n rounds of: stop_requested? break; update_settings; self.sleep(d).
    ops = list of ["start"] ["stop"] ["join"] ["isrun"] ["set", k] ["get"] ["getp"] ["sleep", d]
          ["with", [ops...]] ["remove"].
    window: "all" (recording from before make_task) | "ops" (recording only while the ops run)."""
    import qmi.core.task as T
    import qmi.core.context as C
    from qmi.core.exceptions import QMI_TaskStopException
    logging.disable(logging.CRITICAL)
    obs = {"run_count": 0, "run_end": None, "ids": None, "trace": None, "removed": False}
    s.obs = obs
    s.recording = False
    holder = {}

    class ScriptedBase(BaseException):
        pass

    class LogDeque(collections.deque):
        """The settings slot, observed: same behaviour as the deque it replaces (same maxlen); every
        operation is a scheduling point and is logged at the moment it takes effect."""

        def append(self, v):
            s.yield_point(("fifo",))
            collections.deque.append(self, v)
            s.log("fifo.append", canon(v))

        def appendleft(self, v):
            s.yield_point(("fifo",))
            collections.deque.appendleft(self, v)
            s.log("fifo.append", canon(v))

        def pop(self):
            s.yield_point(("fifo",))
            v = collections.deque.pop(self)
            s.log("fifo.pop", canon(v))
            return v

        def popleft(self):
            s.yield_point(("fifo",))
            v = collections.deque.popleft(self)
            s.log("fifo.pop", canon(v))
            return v

        def __bool__(self):
            s.yield_point(("fifo",))
            b = collections.deque.__len__(self) > 0
            s.log("fifo.bool", b, canon(holder["task"]._sv))
            return b

        def __iter__(self):
            s.yield_point(("fifo",))
            s.log("fifo.iter", [canon(x) for x in collections.deque.__iter__(self)])
            return collections.deque.__iter__(self)

    class ScriptTask(T.QMI_Task):
        def __init__(self, runner, name):
            self._sv = None
            super().__init__(runner, name)
            holder["task"] = self
            holder["runner"] = runner
            orig = self._settings_fifo
            self._settings_fifo = LogDeque(orig, maxlen=orig.maxlen)
            self.settings = mkval(V0)

        def _get_settings(self):
            s.log("settings.get", canon(self._sv))
            return self._sv

        def _set_settings(self, v):
            self._sv = v
            s.log("settings.set", canon(v))

        settings = property(_get_settings, _set_settings)

        def _upd(self):
            s.log("T_upd_call")
            r = self.update_settings()
            s.log("T_upd", r if isinstance(r, bool) else repr(r), canon(self._sv))

        def run(self):
            obs["run_count"] += 1
            s.log("T_begin")
            kind = "ok"
            try:
                for a in script["body"]:
                    if a[0] == "U":
                        self._upd()
                    elif a[0] == "P":
                        self.stop_requested()
                    elif a[0] == "S":
                        self.sleep(a[1])
                    elif a[0] == "Z":
                        dsched.FAKE_TIME.sleep(a[1])
                    elif a[0] == "L":
                        for _ in range(a[1]):
                            if self.stop_requested():
                                break
                            self._upd()
                            self.sleep(a[2])
                if script["end"] == "exc":
                    raise RuntimeError("scripted failure")
                if script["end"] == "baseexc":
                    raise ScriptedBase()
                if script["end"] == "stopexc":
                    raise QMI_TaskStopException()
            except QMI_TaskStopException:
                kind = "stopexc"
                raise
            except BaseException:
                kind = "exc"
                raise
            finally:
                obs["run_end"] = kind
                s.log("T_end", kind)

    orig_thread_run = T._TaskThread.run

    def thread_run(self):
        try:
            orig_thread_run(self)
        finally:
            s.log("T_exit")          # no scheduling point between this and the thread becoming joinable

    T._TaskThread.run = thread_run

    def finalize():
        if "runner" not in holder:
            return
        th = holder["runner"]._thread
        ids = {"state": id(th._state_cond._lock), "statecv": id(th._state_cond),
               "flag": id(holder["task"]._stop_requested), "tw": s.by_real[th].tid}
        obs["ids"] = ids
        keep = []
        for e in s.events[obs.get("ev0", 0):]:
            k = e[1]
            if k in ("call", "ret", "T_begin", "T_end", "T_exit", "T_upd", "T_upd_call", "fifo.append", "fifo.pop",
                     "fifo.bool", "fifo.iter", "settings.get", "settings.set"):
                keep.append(list(e))
            elif k == "acq" and e[2] == ids["state"]:
                keep.append([e[0], "acq"])
            elif k in ("ev.set", "ev.is_set", "ev.wait", "ev.resume") and e[2] == ids["flag"]:
                keep.append([e[0], k] + list(e[3:]))
        obs["trace"] = keep
        obs["run_count_w"] = obs["run_count"]     # run() invocations inside the recorded part
        obs["clock"] = s.clock

    prev_dl = s.on_deadlock

    def on_deadlock(info):
        finalize()
        if prev_dl:
            prev_dl(info)
    s.on_deadlock = on_deadlock

    ctx = C.QMI_Context("c10ctx")
    ctx.start()
    obs["ev0"] = len(s.events)
    if window == "all":
        s.recording = True
    p = ctx.make_task("tsk", ScriptTask)
    counter = [0]

    def cres(kind, fn):
        try:
            r = fn()
        except Exception as e:  # noqa
            return ["exc", type(e).__name__]
        if kind == "none":
            return ["none"] if r is None else ["weird", repr(r)[:60]]
        if kind == "bool":
            return ["bool", r] if isinstance(r, bool) else ["weird", repr(r)[:60]]
        if kind == "val":
            return ["val", canon(r)] if r is not None else ["weird", "None"]
        if kind == "opt":
            return ["opt", canon(r)]
        return ["weird", kind]

    def do(op):
        k = op[0]
        if k == "sleep":
            dsched.FAKE_TIME.sleep(op[1])
            return
        if k == "with":
            i = counter[0]
            counter[0] += 1
            stage = "enter"
            j = None
            s.log("call", i, "enter")
            try:
                with p:
                    stage = "body"
                    s.log("ret", i, "enter", ["none"])
                    for inner in op[1]:
                        do(inner)
                    stage = "exit"
                    j = counter[0]
                    counter[0] += 1
                    s.log("call", j, "exit")
                s.log("ret", j, "exit", ["none"])
            except Exception as e:  # noqa
                if stage == "enter":
                    s.log("ret", i, "enter", ["exc", type(e).__name__])
                elif stage == "exit":
                    s.log("ret", j, "exit", ["exc", type(e).__name__])
                else:
                    raise
            return
        i = counter[0]
        counter[0] += 1
        if k == "set":
            s.log("call", i, "set", op[1])
            res = cres("none", lambda: p.set_settings(mkval(op[1])))
        else:
            s.log("call", i, k)
            if k == "start":
                res = cres("none", p.start)
            elif k == "stop":
                res = cres("none", p.stop)
            elif k == "join":
                res = cres("none", p.join)
            elif k == "isrun":
                res = cres("bool", p.is_running)
            elif k == "get":
                res = cres("val", p.get_settings)
            elif k == "getp":
                res = cres("opt", p.get_pending_settings)
            elif k == "remove":
                res = cres("none", lambda: ctx.remove_rpc_object(p))
                obs["removed"] = True
            else:
                raise ValueError(k)
        s.log("ret", i, k, res)

    s.recording = True
    for op in ops:
        do(op)
    s.recording = False
    finalize()
    ctx.stop()
    T._TaskThread.run = orig_thread_run
    return obs


# ------------------------------------------------------------------------------------------------
# from the recorded events to the model's labels
# ------------------------------------------------------------------------------------------------

class Op:
    def __init__(self, idx, name, arg, call):
        self.idx, self.name, self.arg, self.call = idx, name, arg, call
        self.ret = None
        self.res = None
        self.acq = []       # positions of _state_cond acquisitions by the RPC worker
        self.evset = []     # positions of Event.set on the stop flag
        self.app = []       # (pos, value) deque appends
        self.iters = []     # positions of deque iterations
        self.gets = []      # positions of task.settings reads


def parse(obs):
    """-> (ops, internal, info).  internal = [(pos, kind, data)] events of the task thread."""
    tr = obs["trace"]
    tw = obs["ids"]["tw"]
    ops, cur = [], None
    internal = []
    for pos, e in enumerate(tr):
        tid, k = e[0], e[1]
        if tid == 0 and k == "call":
            cur = Op(e[2], e[3], e[4] if len(e) > 4 else None, pos)
            ops.append(cur)
        elif tid == 0 and k == "ret":
            cur.ret, cur.res = pos, e[4]
            cur = None
        elif tid == tw:
            internal.append((pos, k, e[2:]))
        elif tid != 0 and cur is not None:
            if k == "acq":
                cur.acq.append(pos)
            elif k == "ev.set":
                cur.evset.append(pos)
            elif k == "fifo.append":
                cur.app.append((pos, e[2]))
            elif k == "fifo.iter":
                cur.iters.append(pos)
            elif k == "settings.get":
                cur.gets.append(pos)
    return ops, internal


def out_term(res):
    if res[0] == "none":
        return "ONone"
    if res[0] == "exc":
        return {"QMI_UsageException": "OUsageError", "QMI_TaskRunException": "OTaskRunError"}.get(
            res[1], "OUpd false (-777)%Z")
    if res[0] == "bool":
        return "OBool %s" % cbool(res[1])
    if res[0] == "val":
        return "OVal %s" % cZ(res[1])
    if res[0] == "opt":
        return "OOpt %s" % ("None" if res[1] is None else "(Some %s)" % cZ(res[1]))
    return "OUpd false (-777)%Z"   # 'weird': matches no result the model can give for an external operation


def to_labels(obs):
    """The interleaving as the model sees it: [(label term, result term or None=unobservable)], plus the
    readable form.  Stuttering events (lock re-acquisition inside wait, time-outs of sleep) give no label."""
    ops, internal = parse(obs)
    items = []   # (pos, order, label, out)
    # ---- task thread ----
    phase = "init"
    kind = None
    for pos, k, d in internal:
        if phase == "init":
            if k == "acq":
                items.append((pos, "Int TInitDone", "ONone"))
                phase = "wait"
        elif phase == "wait":
            if k == "T_begin":
                items.append((pos, "Int TBeginRun", "ONone"))
                phase = "run"
            elif k == "T_exit":
                items.append((pos, "Int TExit", "ONone"))
                phase = "done"
        elif phase == "run":
            if k == "fifo.bool" and d[0] is False:
                items.append((pos, "Int TUpdate", "OUpd false %s" % cZ(d[1] if d[1] is not None else -1)))
            elif k == "fifo.pop":
                items.append((pos, "Int TUpdate", "OUpd true %s" % cZ(d[0] if d[0] is not None else -1)))
            elif k == "ev.is_set":
                items.append((pos, "Int TPollStop", "OBool %s" % cbool(d[0])))
            elif k == "ev.wait":
                items.append((pos, "Int TPollStop", "OBool %s" % cbool(d[0])))
            elif k == "ev.resume" and d[0]:
                items.append((pos, "Int TPollStop", "OBool true"))
            elif k == "T_end":
                kind = d[0]
                phase = "ending"
        elif phase == "ending":
            if k == "acq":
                items.append((pos, {"ok": "Int TFinishOk", "exc": "Int TFinishExc",
                                    "stopexc": "Int TFinishStopExc"}[kind], "ONone"))
                phase = "fin"
            elif k == "T_exit":
                items.append((pos, "Int TExit", "ONone"))
                phase = "done"
        elif phase == "fin":
            if k == "T_exit":
                items.append((pos, "Int TExit", "ONone"))
                phase = "done"
    # ---- external operations at their linearisation points ----
    blocked = False
    for o in ops:
        if o.ret is None:
            blocked = True          # the run ended (deadlock) inside this operation
            continue
        end = o.ret
        res = out_term(o.res)
        if o.name in ("start", "enter"):
            items.append((o.acq[-1] if o.acq else end, "Ext Start", res))
        elif o.name == "stop":
            items.append((o.evset[0] if o.evset else (o.acq[-1] if o.acq else end), "Ext Stop", res))
        elif o.name == "join":
            items.append((o.acq[-1] if o.acq else end, "Ext Join", res))
        elif o.name == "isrun":
            items.append((o.acq[-1] if o.acq else end, "Ext IsRunning", res))
        elif o.name == "set":
            items.append((o.app[0][0] if o.app else end, "Ext (SetSettings %s)" % cZ(o.arg), res))
        elif o.name == "get":
            items.append((o.gets[-1] if o.gets else end, "Ext GetSettings", res))
        elif o.name == "getp":
            items.append((o.iters[-1] if o.iters else end, "Ext GetPending", res))
        elif o.name == "exit":
            items.append((o.evset[0] if o.evset else (o.acq[0] if o.acq else end), "Ext Stop", "ONone"))
            items.append((o.acq[-1] if len(o.acq) >= 2 else end, "Ext Join", res))
        elif o.name == "remove":
            if o.acq or o.evset:     # release_rpc_object found the task not joined: stop(); join()
                items.append((o.evset[0] if o.evset else o.acq[0], "Ext Stop", "ONone"))
                if len(o.acq) >= 2:
                    items.append((o.acq[-1], "Ext Join", None))   # its outcome is swallowed: unobservable
            items.append((end, "Ext Release", res))
    items.sort(key=lambda it: it[0])
    return [(lab, out) for _, lab, out in items], blocked


def coq_case(labels, run_count, done, blocked):
    tr = clist(["(%s, %s)" % (lab, "None" if out is None else "Some (%s)" % out) for lab, out in labels])
    return "(%s, %s, (%d%%nat, %s, %s))" % (cZ(V0), tr, run_count, cbool(done), cbool(blocked))


# ------------------------------------------------------------------------------------------------
# the property oracle (independent of the model; real-time order of calls / returns only)
# ------------------------------------------------------------------------------------------------

def oracle(script, flat_ops_expected_blocked, res):
    """Returns None or (key, description)."""
    st = res["status"]
    o = res.get("obs")
    if st in ("hang", "abort", "crash", "error") or o is None or o.get("trace") is None:
        return "harness:" + st, "schedule did not finish (%s): %s" % (st, (res.get("trace") or res.get("info") or "")[:400])
    ops, internal = parse(o)
    if st == "deadlock":
        pend = [x for x in ops if x.ret is None]
        if not (flat_ops_expected_blocked and pend and pend[-1].name == "join"):
            return "deadlock", "the run dead-locked inside %s" % (pend[-1].name if pend else "?")
    elif flat_ops_expected_blocked:
        return "join-returned-early", "join() returned although the task was never started nor stopped"
    pos_of = {}
    for pos, k, d in internal:
        pos_of.setdefault(k, []).append(pos)
    begins = pos_of.get("T_begin", [])
    ends = pos_of.get("T_end", [])
    exits = pos_of.get("T_exit", [])
    INF = 10 ** 9
    t_end = ends[0] if ends else INF
    t_exit = exits[0] if exits else INF
    # the step in which the end of run() is recorded: first _state_cond acquisition by the task thread after T_end
    fin = [pos for pos, k, d in internal if k == "acq" and pos > t_end]
    t_fin = fin[0] if fin else t_exit
    run_end = o.get("run_end")
    # --- run() invocation count ---
    if o["run_count"] > 1 or len(begins) > 1:
        return "run-twice", "run() was invoked %d times" % o["run_count"]
    for x in ops:
        if x.res is not None and x.res[0] == "weird":
            return "weird:" + x.name, "%s returned %r" % (x.name, x.res[1])
    starts = [x for x in ops if x.name in ("start", "enter")]
    stoplike = [x for x in ops if x.name in ("stop", "exit", "remove")]
    ok_starts = [x for x in starts if x.res == ["none"]]
    if len(ok_starts) > 1:
        return "two-starts", "start() succeeded twice (operations %s)" % [x.idx for x in ok_starts]
    for x in starts:
        if x.res is None:
            continue
        if x.res not in (["none"], ["exc", "QMI_UsageException"]):
            return "start-error", "start() raised %s" % x.res[1]
        earlier_start = any(y.idx < x.idx for y in starts)
        earlier_stop = any(y.idx < x.idx for y in stoplike)
        should = not earlier_start and not earlier_stop
        if should and x.res != ["none"]:
            return "start-refused", "first start() (no stop before it) was refused: %s" % x.res[1]
        if not should and x.res == ["none"]:
            return ("start-after-stop" if earlier_stop and not any(y.idx < x.idx and y.res == ["none"] for y in starts)
                    else "second-start"), "start() succeeded although %s came first" % (
                        "a stop()" if earlier_stop else "another start()")
    if begins:
        if not ok_starts:
            return "run-without-start", "run() was invoked although no start() succeeded"
        if begins[0] < ok_starts[0].call:
            return "run-before-start", "run() was entered before start() was called"
    # --- stop / set: return None ---
    for x in ops:
        if x.name in ("stop", "set", "remove") and x.res is not None and x.res != ["none"]:
            return x.name + "-raised", "%s raised %s" % (x.name, x.res)
    # --- join / exit ---
    for x in ops:
        if x.name in ("join", "exit") and x.res is not None:
            if t_exit > x.ret:
                return "join-early", "%s returned before the task thread had exited" % x.name
            if begins and t_end > x.ret:
                return "join-before-run-end", "%s returned before run() had finished" % x.name
            if ok_starts and not begins:
                return "join-run-lost", "%s returned, start() had succeeded, but run() was never invoked" % x.name
            want = ["exc", "QMI_TaskRunException"] if (begins and run_end == "exc") else ["none"]
            if x.res != want:
                return ("join-no-raise" if want[0] == "exc" else "join-raised"), \
                    "%s gave %s; run() %s, so it must give %s" % (
                        x.name, x.res, ("ended with kind " + str(run_end)) if begins else "was never invoked", want)
    # --- is_running ---
    for x in ops:
        if x.name == "isrun" and x.res is not None:
            if x.res[0] != "bool":
                return "isrun-raised", "is_running raised %s" % (x.res,)
            b = x.res[1]
            if b and not any(y.call < x.ret for y in ok_starts):
                return "isrun-true-unstarted", "is_running() is True although no start() had succeeded"
            if b and t_fin < x.call:
                return "isrun-true-after-finish", "is_running() is True after the end of run() was recorded"
            if not b and any(y.ret < x.call for y in ok_starts) and t_end > x.ret:
                return "isrun-false-while-running", "is_running() is False between a successful start() and the end of run()"
    # --- settings hand-over ---
    posts = [x for x in ops if x.name == "set" and x.res is not None]          # sequential: ordered by idx
    upd_calls = pos_of.get("T_upd_call", [])
    upds = [(pos, d) for pos, k, d in internal if k == "T_upd"]
    last_true = 0      # 1-based rank (in posts) of the post delivered by the latest update that returned True
    seen = set()
    for n, (uret, d) in enumerate(upds):
        ucall = upd_calls[n]
        r, val = d[0], d[1]
        sure = max([i + 1 for i, x in enumerate(posts) if x.ret < ucall], default=0)
        maybe = max([i + 1 for i, x in enumerate(posts) if x.call < uret], default=0)
        if r is True:
            ranks = [i + 1 for i, x in enumerate(posts) if x.arg == val]
            if not ranks:
                return "update-invented", "update_settings() returned True with settings %r that were never posted whole" % (val,)
            k = ranks[0]
            if k in seen:
                return "update-twice", "update_settings() delivered posted value %r twice" % (val,)
            seen.add(k)
            if k <= last_true or k < sure:
                return "update-stale", "update_settings() delivered value %r although a newer value had been posted before" % (val,)
            if k > maybe:
                return "update-future", "update_settings() delivered value %r before it was posted" % (val,)
            last_true = k
        elif r is False:
            if sure > last_true:
                return "update-missed", "update_settings() returned False although value %r was posted since the previous update" % (
                    posts[sure - 1].arg,)
        else:
            return "update-weird", "update_settings() returned %r" % (r,)
    # --- get_settings / get_pending_settings: whole values, newest pending ---
    for x in ops:
        if x.name == "get" and x.res is not None:
            if x.res[0] != "val" or x.res[1] == -1 or (x.res[1] != V0 and not any(y.arg == x.res[1] and y.call < x.ret for y in posts)):
                return "get-weird", "get_settings() gave %s" % (x.res,)
        if x.name == "getp" and x.res is not None:
            if x.res[0] != "opt" or x.res[1] == -1:
                return "getp-weird", "get_pending_settings() gave %s" % (x.res,)
            before = [y for y in posts if y.idx < x.idx]
            v = x.res[1]
            if v is None:
                # an update that returned after the post was issued may have consumed it
                urets = [pos for pos, _ in upds] + [INF] * (len(upd_calls) - len(upds))
                if before and not any(ur > before[-1].call for ur in urets):
                    return "getp-lost", "get_pending_settings() gave None although %r was posted and no update ran since" % (before[-1].arg,)
            elif not before or before[-1].arg != v:
                return "getp-stale", "get_pending_settings() gave %r, the newest posted value is %r" % (
                    v, before[-1].arg if before else None)
    # --- stop first: never run ---
    if stoplike and not any(y.idx < stoplike[0].idx for y in starts) and st == "ok" and (begins or o["run_count"]):
        return "run-after-stop", "run() was invoked although stop() came before any start()"
    # --- release ---
    for x in ops:
        if x.name == "remove" and x.res is not None and t_exit > x.ret:
            return "release-not-joined", "the task was removed from the context while its thread was still alive"
    return None


# ------------------------------------------------------------------------------------------------
# generators
# ------------------------------------------------------------------------------------------------

def gen_script(rng):
    body = []
    for _ in range(rng.choice([0, 1, 1, 2, 2, 3, 4])):
        k = rng.choices(["U", "P", "S", "Z", "L"], weights=[5, 2, 3, 2, 1.5])[0]
        if k in ("U", "P"):
            body.append([k])
        elif k in ("S", "Z"):
            body.append([k, rng.choice([0.5, 1.0, 2.0])])
        else:
            body.append(["L", rng.choice([2, 3, 5]), rng.choice([0.5, 1.0])])
    return {"body": body, "end": rng.choices(["ok", "exc", "baseexc", "stopexc"], weights=[4, 3, 1, 2])[0]}


def gen_ops(rng, blocked=False):
    """Operation sequences whose join()s terminate (a start or a stop has been issued before every join);
    blocked=True: a join on a task never started nor stopped, as the last operation."""
    ctr = [0]

    def post():
        ctr[0] += 1
        return ["set", ctr[0]]

    def simple():
        k = rng.choices(["set", "get", "getp", "isrun", "sleep"], weights=[4, 1.5, 1.5, 2.5, 2])[0]
        if k == "set":
            return post()
        if k == "sleep":
            return ["sleep", rng.choice([0.25, 0.75, 1.5, 3.0])]
        return [k]

    if blocked:
        return [simple() for _ in range(rng.randint(0, 3))] + [["join"]]
    ops = []
    live = False      # a start or stop has been issued: the thread will exit
    n = rng.randint(2, 9)
    shape = rng.choices(["plain", "with", "stopfirst"], weights=[6, 2, 2])[0]
    if shape == "stopfirst":
        for _ in range(rng.randint(0, 2)):
            ops.append(simple())
        ops.append(["stop"])
        live = True
    if shape == "with":
        for _ in range(rng.randint(0, 2)):
            ops.append(rng.choice([simple(), simple(), ["start"], ["stop"]]))
        inner = []
        for _ in range(rng.randint(0, 4)):
            inner.append(rng.choice([simple(), simple(), simple(), ["start"], ["stop"], ["join"]]))
        ops.append(["with", inner])
        live = True
    while len(ops) < n:
        k = rng.choices(["simple", "start", "stop", "join"], weights=[6, 2.5, 1.5, 2 if live else 0])[0]
        if k == "simple":
            ops.append(simple())
        else:
            ops.append([k])
            if k in ("start", "stop"):
                live = True
    tail = rng.choices(["join", "stopjoin", "remove", "none", "joinremove"], weights=[2, 3, 3, 1, 2])[0]
    if tail == "join" and live:
        ops.append(["join"])
    elif tail == "stopjoin":
        ops += [["stop"], ["join"]]
    elif tail == "remove":
        ops.append(["remove"])
    elif tail == "joinremove":
        ops += [["stop"], ["join"], ["isrun"], ["remove"]]
    return ops


DFS_SCENARIOS = [
    ({"body": [["U"]], "end": "ok"}, [["set", 1], ["start"], ["set", 2], ["isrun"], ["join"]]),
    ({"body": [["S", 1.0]], "end": "ok"}, [["start"], ["stop"], ["isrun"], ["join"]]),
    ({"body": [], "end": "exc"}, [["start"], ["isrun"], ["join"]]),
    ({"body": [["U"], ["P"]], "end": "stopexc"}, [["start"], ["set", 1], ["stop"], ["join"]]),
    ({"body": [["U"]], "end": "ok"}, [["stop"], ["start"], ["join"], ["isrun"]]),
    ({"body": [["U"], ["U"]], "end": "exc"}, [["with", [["set", 1], ["isrun"], ["getp"]]], ["start"]]),
    ({"body": [["L", 3, 0.5]], "end": "ok"}, [["start"], ["set", 1], ["get"], ["start"], ["remove"]]),
]


def flat_names(ops):
    out = []
    for o in ops:
        if o[0] == "with":
            out += ["enter"] + flat_names(o[1]) + ["exit"]
        else:
            out.append(o[0])
    return out


# ------------------------------------------------------------------------------------------------
# the check
# ------------------------------------------------------------------------------------------------

def handle(ck, script, ops, blocked, res, sched_desc, terms, metas):
    ck.count("status:" + res["status"])
    ck.count("end:" + script["end"])
    names = flat_names(ops)
    for nm in set(names):
        ck.count("op:" + nm)
    replay = {"script": script, "ops": ops, "blocked": blocked, "window": sched_desc[0],
              "schedule": res.get("choices"), "status": res["status"]}
    bad = oracle(script, blocked, res)
    ck.note_case((script, ops, tuple(res.get("choices") or ())), "start" in names or "enter" in names)
    if bad:
        o = res.get("obs") or {}
        replay["events"] = (o.get("trace") or [])[:400]
        ck.report("oracle:" + bad[0], "C10 fails on the implementation: " + bad[1], replay)
        return
    o = res["obs"]
    labels, blk = to_labels(o)
    done = any(lab == "Int TExit" for lab, _ in labels)
    ck.count("run_count:%d" % o["run_count_w"])
    if o["run_count_w"]:
        ck.count("run_end:%s" % o["run_end"])
    ck.count("trace_len:%s" % ("<20" if len(labels) < 20 else "20-39" if len(labels) < 40 else "40+"))
    for lab, out in labels:
        if lab == "Int TUpdate":
            ck.count("update:" + ("true" if out.startswith("OUpd true") else "false"))
    terms.append(coq_case(labels, o["run_count_w"], done, blk))
    metas.append((replay, labels, o["run_count_w"], done, blk))


def retry_if_hung(res, job):
    """A child killed by the wall-clock watchdog (machine under load) or lost is re-run once, alone, with a
    long watchdog; schedules are deterministic (seeded / replayed), so the re-run is the same schedule."""
    if res.get("status") in ("hang", "crash"):
        prefix = res.get("prefix")
        res = dsched.run_forked([job], nproc=1, wall_timeout=240.0)[0]
        if prefix is not None:
            res["prefix"] = prefix
    return res


def run(ck):
    ck.theory_dir = THEORY
    ck.build_theory(THEORY)
    ck.trusted = [
        "Coq 8.16.1 kernel (vm_compute evaluates the model on the recorded interleavings)",
        "model theories/C10/Model.v: _TaskThread / QMI_TaskRunner / update_settings transcribed by hand as an LTS over an "
        "abstract value type, tied to /repo by trace acceptance of real schedules in this run",
        "dsched deterministic scheduler and its cooperative Lock/RLock/Condition/Event/Thread (define what a schedule is)",
        "harness c10.py: scripted task classes, logging deque subclass for the settings slot (same maxlen), settings "
        "property, wrapper logging the return of _TaskThread.run, placement of each operation at its linearisation event",
    ]
    ck.assumptions = [
        "each model label is atomic in the implementation: regions under _state_cond, Event.set / is_set / wait, single "
        "deque operations (GIL), and 'self.settings = fifo.pop()' taken as one step (no switch between pop and store)",
        "the runner's RPC methods are executed one at a time by its RPC worker (QMI's RPC layer; C03)",
        "task scripts terminate; join() on a task that is never started nor stopped blocks by documentation (model: "
        "disabled step) and is exercised only as an expected dead-lock",
        "EXCEPTION_WHILE_INSTANTIATING_TASK, wait_for_condition (C11), get_status and QMI_LoopTask are outside the model",
    ]
    import qmi.core.task, qmi.core.context, qmi.core.rpc, qmi.core.messaging, qmi.core.pubsub  # noqa (before fork)
    rng = ck.rng
    quick = ck.tier == "quick"
    n_random = 2400 if quick else 16000
    n_pct = 800 if quick else 6000
    n_blocked = 24 if quick else 150
    dfs_runs = 450 if quick else 5000
    dfs_bound = 1 if quick else 2
    terms, metas = [], []

    jobs, descr = [], []
    for i in range(n_random + n_pct):
        script, ops = gen_script(rng), gen_ops(rng)
        strat = "random" if i < n_random else "pct"
        window = rng.choice(["all", "ops", "ops"])
        kw = dict(strategy=strat, seed=rng.randrange(1 << 30))
        if strat == "random":
            kw["switch_prob"] = rng.choice([0.1, 0.35, 0.6])
        jobs.append((scenario, (script, ops, window), kw))
        descr.append((script, ops, False, (window, strat)))
    for i in range(n_blocked):
        script, ops = gen_script(rng), gen_ops(rng, blocked=True)
        jobs.append((scenario, (script, ops, "ops"), dict(strategy="random", seed=rng.randrange(1 << 30))))
        descr.append((script, ops, True, ("ops", "random")))
    results = dsched.run_forked(jobs, nproc=16, wall_timeout=30.0)
    results = [retry_if_hung(res, job) for res, job in zip(results, jobs)]
    for (script, ops, blocked, sd), res in zip(descr, results):
        ck.count("strategy:" + sd[1])
        handle(ck, script, ops, blocked, res, sd, terms, metas)
    for script, ops in DFS_SCENARIOS:
        for res in dsched.explore_dfs(scenario, (script, ops, "ops"), preemption_bound=dfs_bound, max_runs=dfs_runs,
                                      nproc=16, wall_timeout=30.0):
            if res["status"] == "_summary":
                ck.coverage.setdefault("dfs", []).append({"ops": flat_names(ops), "end": script["end"], "runs": res["runs"],
                                                          "exhausted_within_preemption_bound": res["exhausted"],
                                                          "bound": dfs_bound})
                continue
            ck.count("strategy:dfs")
            res = retry_if_hung(res, (scenario, (script, ops, "ops"),
                                      dict(strategy="replay", schedule=list(res.get("prefix") or []))))
            handle(ck, script, ops, False, res, ("ops", "dfs"), terms, metas)
    for m in metas[:2] + metas[-1:]:
        ck.sample({"script": m[0]["script"], "ops": m[0]["ops"], "schedule_len": len(m[0]["schedule"] or []),
                   "interleaving": ["%s -> %s" % (a, b) for a, b in m[1]], "run_count": m[2], "thread_exited": m[3]}, 3)
    bad = ck.run_model("C10.Corr", "check_case", terms, "case", shard=150)
    ck.coverage["correspondence_disagreements"] = len(bad)
    for i in bad[:4]:
        replay, labels, rc, done, blk = metas[i]
        mo = ck.model_eval("C10.Corr", "model_out %s" % coq_case(labels, rc, done, blk))
        replay = dict(replay, interleaving=["%s -> %s" % (a, b) for a, b in labels], impl_run_count=rc,
                      impl_thread_exited=done, model_out=mo[-1500:],
                      broken="correspondence C10.Corr.check_case (trace acceptance)")
        ck.report("corr:" + "-".join(flat_names(replay["ops"]))[:60],
                  "a real interleaving is not accepted by the Coq model, or a result / run() count differs "
                  "(the property oracle passed on it)", replay, found_input=False)
    return ck.finish("seeded random and PCT schedules of random task scripts x random proxy-operation sequences "
                     "(plain, with-form, stop-first, remove), expected-blocked joins, and stateless DFS with <= %d "
                     "preemption(s) on %d short scenarios; non-trivial = contains a start; distinct by (script, ops, schedule)"
                     % (dfs_bound, len(DFS_SCENARIOS)))


def replay(rep):
    c = rep["case"]
    import qmi.core.task, qmi.core.context, qmi.core.rpc, qmi.core.messaging, qmi.core.pubsub  # noqa
    res = dsched.run_forked([(scenario, (c["script"], c["ops"], c.get("window", "ops")),
                              dict(strategy="replay", schedule=list(c.get("schedule") or [])))], nproc=1, wall_timeout=60.0)[0]
    print("status:", res["status"])
    o = res.get("obs") or {}
    if o.get("trace") is not None:
        labels, blk = to_labels(o)
        print("run() invocations:", o["run_count"], " run ended:", o["run_end"], " blocked in join:", blk)
        for a, b in labels:
            print("   %-28s -> %s" % (a, b))
    bad = oracle(c["script"], c.get("blocked", False), res)
    print("oracle:", bad or "property holds on this interleaving")
    return 1 if bad else 0
