"""C10 — task lifecycle: run() at most once and only after start; join reports outcome; settings hand-over.

H3: a real (local) QMI_Context, ctx.make_task with a task class whose run() follows a script
(update_settings / stop_requested / sleep / plain delay / poll loop; then finish ok, raise, raise a
BaseException, or raise QMI_TaskStopException), and a sequence of operations issued through the real task
proxy (start, stop, join, is_running, set_settings, get_settings, get_pending_settings, the `with` form,
remove_rpc_object) — all under the deterministic scheduler (random / PCT schedules; DFS with a preemption
bound on short scenarios).

What is recorded, without touching QMI's source:
  * call / return of every proxy operation (main thread) with the canonical result;
  * the linearisation point of every operation on the runner's RPC worker: the acquisition of
    _TaskThread._state_cond in which the state is read or written, the Event.set of the stop flag, the
    single deque operation on the settings slot, the read of task.settings;
  * the task thread's steps as they happen: entry of run() (logged by the task body), every
    update_settings (the deque test / pop), every read of the stop flag (Event.is_set / Event.wait), the
    end of run() with its kind, the acquisition of _state_cond in which the final state is written, and
    the return of _TaskThread.run.
The settings slot is observed through a logging subclass of collections.deque that keeps the original's
maxlen; task.settings through a property of the scripted task class; _TaskThread.run through a wrapper
that logs its return.  These are the anchored observation points (_state/_state_cond, _settings_fifo).

Also covered: the task constructor raising (any exception class: make_task must raise QMI_TaskInitException with
the thread joined and nothing left — the same task name can be made and run again); the exception class raised
by scripted run() bodies is an input (fixed bucket: Exception subclasses, a custom BaseException, SystemExit,
KeyboardInterrupt, QMI_TaskStopException and a subclass); in a share of the schedules every source line of
update_settings / set_settings / get_pending_settings / _TaskThread.run / start_task / stop_task is a scheduling
point (dsched.enable_line_yields; the deque probe then adds none), random and as line-level DFS; real QMI_LoopTask
subclasses with scripted iteration durations under virtual time against theories/C10/ModelLoop.v (run()'s local
next_time is read from its frame at every loop_iteration / loop_finalize).

Correspondence = trace acceptance: the Coq model (theories/C10) must accept the recorded interleaving and
produce, label by label, the results the implementation produced, the same number of run() invocations
and the same thread-exited flag.  Independent oracle: C10 restated on API-level observations with
real-time (call/return) order only.
"""
import collections
import dataclasses
import logging
import time

import dsched
from common import cZ, cbool, clist

THEORY = "C10"
V0 = 0


# ------------------------------------------------------------------------------------------------
# values
# ------------------------------------------------------------------------------------------------

REPS = ["tuple", "dataclass", "dict"]


class TupVal(tuple):
    """tuple equality (by content); carries the harness's identity tag as an attribute"""


@dataclasses.dataclass
class DcVal:
    label: str
    k: int
    sq: int
    tag: int = dataclasses.field(default=-1, compare=False)     # not part of the value: equality is by content


class DictVal(dict):
    """dict equality (by content); carries the identity tag as an attribute"""


def mkval(k, tag=-1, rep="tuple"):
    """A settings value with content k.  Equality is by content (two posts of the same k are equal but not
    identical objects); `tag` says which post it was (the operation index; -1 = the task's initial settings)."""
    if rep == "dataclass":
        return DcVal("S", k, k * k, tag)
    if rep == "dict":
        v = DictVal(label="S", k=k, sq=k * k)
    else:
        v = TupVal(("S", k, k * k))
    v.tag = tag
    return v


def canon(v):
    """settings value -> its content; None -> None; anything that is not a whole value -> -1."""
    if v is None:
        return None
    if isinstance(v, tuple) and len(v) == 3 and v[0] == "S" and isinstance(v[1], int) and v[2] == v[1] * v[1]:
        return v[1]
    if isinstance(v, DcVal) and v.label == "S" and isinstance(v.k, int) and v.sq == v.k * v.k:
        return v.k
    if isinstance(v, dict) and set(v) == {"label", "k", "sq"} and v["label"] == "S" and isinstance(v["k"], int) \
            and v["sq"] == v["k"] * v["k"]:
        return v["k"]
    return -1


def tagof(v):
    """which post this object is (None when it is not one of the harness's value objects)"""
    return getattr(v, "tag", None)


END_KINDS = ["ok", "exc", "exc_custom", "baseexc", "sysexit", "kbint", "stopexc", "stopexc_sub"]
TRACED = ["QMI_Task.update_settings", "QMI_TaskRunner.set_settings", "QMI_TaskRunner.get_pending_settings",
          "_TaskThread.run", "_TaskThread.start_task", "_TaskThread.stop_task"]


T_MAX = 3600.0     # virtual seconds; far beyond every sleep / timeout / script duration used by the scenarios


def bound_virtual_time(s, before_report=None):
    """An operation that never returns must look the same whether the scheduler sees a dead-lock (nothing runnable,
    no timed waiter) or unbounded progress of the virtual clock (e.g. a join() that polls with a timeout): once
    the clock passes T_MAX the schedule is ended and reported like a dead-lock ("blocked for ever")."""
    def hook(label):
        if s.clock > T_MAX and s.on_deadlock:
            s.yield_hook = None
            if before_report:
                before_report()
            s.on_deadlock({"kind": "blocked-for-ever", "clock": s.clock, "why": "virtual clock passed T_MAX"})
    s.yield_hook = hook


def make_exc(kind, stop_cls):
    """The exception a scripted run() / task constructor raises: the class is an input."""
    if kind == "exc":
        return RuntimeError("scripted failure")
    if kind == "exc_custom":
        return type("ScriptedError", (Exception,), {})("scripted")
    if kind == "baseexc":
        return type("ScriptedBase", (BaseException,), {})()
    if kind == "sysexit":
        return SystemExit(3)
    if kind == "kbint":
        return KeyboardInterrupt()
    if kind == "stopexc":
        return stop_cls()
    if kind == "stopexc_sub":
        return type("ScriptedStop", (stop_cls,), {})()
    raise ValueError(kind)


def line_yields(T, orig_thread_run):
    """every source line of the named functions becomes a scheduling point (no reliance on the deque probe)"""
    dsched.enable_line_yields([T.QMI_Task.update_settings, T.QMI_TaskRunner.set_settings,
                               T.QMI_TaskRunner.get_pending_settings, orig_thread_run,
                               T._TaskThread.start_task, T._TaskThread.stop_task])


def scenario(s, script, ops, window, lines=False, init_fail=None, rep="tuple"):
    """script = {"body": [action...], "end": one of END_KINDS};
    actions: ["U"] update_settings, ["P"] stop_requested, ["S", d] self.sleep(d), ["Z", d] plain delay,
             ["L", n, d] up to n rounds of: stop_requested? break; update_settings; self.sleep(d).
    ops = list of ["start"] ["stop"] ["join"] ["isrun"] ["set", k] ["get"] ["getp"] ["sleep", d]
          ["with", [ops...]] ["remove"].
    window: "all" (recording from before make_task) | "ops" (recording only while the ops run).
    lines: line-level scheduling points inside the functions named in TRACED (then the deque probe does
    not add scheduling points of its own).
    init_fail: None | [exception kind, "pre"|"post"]: the task constructor raises (before / after
    QMI_Task.__init__); then ops is ignored: make_task must raise, and afterwards a task of the same name
    is created, started and joined to see that nothing was left behind."""
    import qmi.core.task as T
    import qmi.core.context as C
    from qmi.core.exceptions import QMI_TaskStopException
    logging.disable(logging.CRITICAL)
    obs = {"run_count": 0, "run_end": None, "ids": None, "trace": None, "removed": False}
    s.obs = obs
    s.recording = False
    holder = {}

    def probe_yield():
        if not lines:
            s.yield_point(("fifo",))

    class LogDeque(collections.deque):
        """The settings slot, observed: same behaviour as the deque it replaces (same maxlen); every
        operation is a scheduling point and is logged at the moment it takes effect."""

        def append(self, v):
            probe_yield()
            collections.deque.append(self, v)
            s.log("fifo.append", canon(v))

        def appendleft(self, v):
            probe_yield()
            collections.deque.appendleft(self, v)
            s.log("fifo.append", canon(v))

        def pop(self):
            probe_yield()
            v = collections.deque.pop(self)
            s.log("fifo.pop", canon(v))
            return v

        def popleft(self):
            probe_yield()
            v = collections.deque.popleft(self)
            s.log("fifo.pop", canon(v))
            return v

        def __bool__(self):
            probe_yield()
            b = collections.deque.__len__(self) > 0
            s.log("fifo.bool", b, canon(holder["task"]._sv))
            return b

        def __iter__(self):
            probe_yield()
            s.log("fifo.iter", [canon(x) for x in collections.deque.__iter__(self)])
            return collections.deque.__iter__(self)

    class ScriptTask(T.QMI_Task):
        def __init__(self, runner, name):
            self._sv = None
            holder.setdefault("runner", runner)
            if init_fail and not holder.get("second") and init_fail[1] == "pre":
                s.log("T_init_raise")
                raise make_exc(init_fail[0], QMI_TaskStopException)
            super().__init__(runner, name)
            holder.setdefault("task", self)
            if init_fail and not holder.get("second") and init_fail[1] == "post":
                s.log("T_init_raise")
                raise make_exc(init_fail[0], QMI_TaskStopException)
            orig = self._settings_fifo
            self._settings_fifo = LogDeque(orig, maxlen=orig.maxlen)
            self.settings = mkval(V0, -1, rep)

        def _get_settings(self):
            s.log("settings.get", canon(self._sv))
            return self._sv

        def _set_settings(self, v):
            self._sv = v
            s.log("settings.set", canon(v))

        settings = property(_get_settings, _set_settings)

        def _upd(self):
            s.log("T_upd_call")
            r = self.update_settings()
            s.log("T_upd", r if isinstance(r, bool) else repr(r), canon(self._sv), tagof(self._sv))

        def run(self):
            obs["run_count"] += 1
            s.log("T_begin")
            kind = "ok"
            try:
                for a in script["body"]:
                    if a[0] == "U":
                        self._upd()
                    elif a[0] == "P":
                        self.stop_requested()
                    elif a[0] == "S":
                        self.sleep(a[1])
                    elif a[0] == "Z":
                        dsched.FAKE_TIME.sleep(a[1])
                    elif a[0] == "L":
                        for _ in range(a[1]):
                            if self.stop_requested():
                                break
                            self._upd()
                            self.sleep(a[2])
                if script["end"] != "ok":
                    raise make_exc(script["end"], QMI_TaskStopException)
            except QMI_TaskStopException:
                kind = "stopexc"
                raise
            except BaseException:
                kind = "exc"
                raise
            finally:
                obs["run_end"] = kind
                s.log("T_end", kind)

    orig_thread_run = T._TaskThread.run

    def thread_run(self):
        try:
            orig_thread_run(self)
        finally:
            s.yield_point(("thread-return",))   # a thread can be pre-empted between the end of run() and its exit
            s.log("T_exit")          # no scheduling point between this and the thread becoming joinable

    T._TaskThread.run = thread_run

    def finalize():
        if "runner" not in holder:
            return
        th = holder["runner"]._thread
        ids = {"state": id(th._state_cond._lock), "statecv": id(th._state_cond),
               "flag": id(holder["task"]._stop_requested) if "task" in holder else None,
               "tw": s.by_real[th].tid}
        obs["ids"] = ids
        keep = []
        for e in s.events[obs.get("ev0", 0):]:
            k = e[1]
            if k in ("call", "ret", "made", "T_init_raise", "T_begin", "T_end", "T_exit", "T_upd", "T_upd_call",
                     "fifo.append", "fifo.pop",
                     "fifo.bool", "fifo.iter", "settings.get", "settings.set"):
                keep.append(list(e))
            elif k == "acq" and e[2] == ids["state"]:
                keep.append([e[0], "acq"])
            elif k in ("ev.set", "ev.is_set", "ev.wait", "ev.resume") and e[2] == ids["flag"]:
                keep.append([e[0], k] + list(e[3:]))
        obs["trace"] = keep
        obs["run_count_w"] = obs["run_count"]     # run() invocations inside the recorded part
        obs["clock"] = s.clock

    prev_dl = s.on_deadlock

    def on_deadlock(info):
        finalize()
        if prev_dl:
            prev_dl(info)
    s.on_deadlock = on_deadlock
    bound_virtual_time(s)        # (finalize runs inside on_deadlock)

    ctx = C.QMI_Context("c10ctx")
    ctx.start()
    if lines:
        line_yields(T, orig_thread_run)
    obs["ev0"] = len(s.events)
    if window == "all":
        s.recording = True
    if init_fail:
        alive0 = set(t.tid for t in s.threads if t.state in (dsched.RUNNABLE, dsched.BLOCKED))
        s.recording = True
        s.log("call", 0, "make")
        try:
            ctx.make_task("tsk", ScriptTask)
            res = ["none"]
        except BaseException as e:  # noqa
            res = ["exc", type(e).__name__]
        s.log("ret", 0, "make", res)
        s.recording = False
        obs["left_alive"] = [t.name for t in s.threads
                             if t.state in (dsched.RUNNABLE, dsched.BLOCKED) and t.tid not in alive0]
        finalize()
        holder["second"] = True
        try:                      # nothing left: the name is free and the context still makes / runs tasks
            p2 = ctx.make_task("tsk", ScriptTask)
            p2.start()
            p2.join()
            ctx.remove_rpc_object(p2)
            obs["reuse"] = "ok"
        except Exception as e:  # noqa
            obs["reuse"] = type(e).__name__
        ctx.stop()
        T._TaskThread.run = orig_thread_run
        return obs
    p = ctx.make_task("tsk", ScriptTask)
    s.log("made")
    counter = [0]

    def cres(kind, fn):
        try:
            r = fn()
        except Exception as e:  # noqa
            return ["exc", type(e).__name__]
        if kind == "none":
            return ["none"] if r is None else ["weird", repr(r)[:60]]
        if kind == "bool":
            return ["bool", r] if isinstance(r, bool) else ["weird", repr(r)[:60]]
        if kind == "val":
            return ["val", canon(r), tagof(r)] if r is not None else ["weird", "None"]
        if kind == "opt":
            return ["opt", canon(r), tagof(r)]
        return ["weird", kind]

    def do(op):
        k = op[0]
        if k == "sleep":
            dsched.FAKE_TIME.sleep(op[1])
            return
        if k == "with":
            i = counter[0]
            counter[0] += 1
            stage = "enter"
            j = None
            s.log("call", i, "enter")
            try:
                with p:
                    stage = "body"
                    s.log("ret", i, "enter", ["none"])
                    for inner in op[1]:
                        do(inner)
                    stage = "exit"
                    j = counter[0]
                    counter[0] += 1
                    s.log("call", j, "exit")
                s.log("ret", j, "exit", ["none"])
            except Exception as e:  # noqa
                if stage == "enter":
                    s.log("ret", i, "enter", ["exc", type(e).__name__])
                elif stage == "exit":
                    s.log("ret", j, "exit", ["exc", type(e).__name__])
                else:
                    raise
            return
        i = counter[0]
        counter[0] += 1
        if k == "set":
            s.log("call", i, "set", op[1])
            res = cres("none", lambda: p.set_settings(mkval(op[1], i, rep)))
        else:
            s.log("call", i, k)
            if k == "start":
                res = cres("none", p.start)
            elif k == "stop":
                res = cres("none", p.stop)
            elif k == "join":
                res = cres("none", p.join)
            elif k == "isrun":
                res = cres("bool", p.is_running)
            elif k == "get":
                res = cres("val", p.get_settings)
            elif k == "getp":
                res = cres("opt", p.get_pending_settings)
            elif k == "remove":
                res = cres("none", lambda: ctx.remove_rpc_object(p))
                obs["removed"] = True
            else:
                raise ValueError(k)
        s.log("ret", i, k, res)

    s.recording = True
    for op in ops:
        do(op)
    s.recording = False
    finalize()
    ctx.stop()
    T._TaskThread.run = orig_thread_run
    return obs


# ------------------------------------------------------------------------------------------------
# from the recorded events to the model's labels
# ------------------------------------------------------------------------------------------------

class Op:
    def __init__(self, idx, name, arg, call):
        self.idx, self.name, self.arg, self.call = idx, name, arg, call
        self.ret = None
        self.res = None
        self.acq = []       # positions of _state_cond acquisitions by the RPC worker
        self.evset = []     # positions of Event.set on the stop flag
        self.app = []       # (pos, value) deque appends
        self.iters = []     # positions of deque iterations
        self.gets = []      # positions of task.settings reads


def parse(obs):
    """-> (ops, internal).  internal = [(pos, kind, data)] events of the task thread."""
    tr = obs["trace"]
    tw = obs["ids"]["tw"]
    ops, cur = [], None
    internal = []
    for pos, e in enumerate(tr):
        tid, k = e[0], e[1]
        if tid == 0 and k == "made":
            o = Op(-1, "made", None, pos)
            o.ret, o.res = pos, ["none"]
            ops.append(o)
        elif tid == 0 and k == "call":
            cur = Op(e[2], e[3], e[4] if len(e) > 4 else None, pos)
            ops.append(cur)
        elif tid == 0 and k == "ret":
            cur.ret, cur.res = pos, e[4]
            cur = None
        elif tid == tw:
            internal.append((pos, k, e[2:]))
        elif tid != 0 and cur is not None:
            if k == "acq":
                cur.acq.append(pos)
            elif k == "ev.set":
                cur.evset.append(pos)
            elif k == "fifo.append":
                cur.app.append((pos, e[2]))
            elif k == "fifo.iter":
                cur.iters.append(pos)
            elif k == "settings.get":
                cur.gets.append(pos)
    return ops, internal


def out_term(res):
    if res[0] == "none":
        return "ONone"
    if res[0] == "exc":
        return {"QMI_UsageException": "OUsageError", "QMI_TaskRunException": "OTaskRunError",
                "QMI_TaskInitException": "OInitError"}.get(
            res[1], "OUpd false (-777)%Z")
    if res[0] == "bool":
        return "OBool %s" % cbool(res[1])
    if res[0] == "val":
        return "OVal %s" % cZ(res[1])
    if res[0] == "opt":
        return "OOpt %s" % ("None" if res[1] is None else "(Some %s)" % cZ(res[1]))
    return "OUpd false (-777)%Z"   # 'weird': matches no result the model can give for an external operation


def to_labels(obs):
    """The interleaving as the model sees it: [(label term, result term or None=unobservable)], plus the
    readable form.  Stuttering events (lock re-acquisition inside wait, time-outs of sleep) give no label."""
    ops, internal = parse(obs)
    items = []   # (pos, order, label, out)
    # ---- task thread ----
    phase = "init"
    kind = None
    raised = False
    for pos, k, d in internal:
        if phase == "init":
            if k == "T_init_raise":
                raised = True
            elif k == "acq":
                if raised:
                    items.append((pos, "Int TInitFail", "ONone"))
                    phase = "fin"
                else:
                    items.append((pos, "Int TInitDone", "ONone"))
                    phase = "wait"
            elif k == "T_exit":
                items.append((pos, "Int TExit", "ONone"))
                phase = "done"
        elif phase == "wait":
            if k == "T_begin":
                items.append((pos, "Int TBeginRun", "ONone"))
                phase = "run"
            elif k == "T_exit":
                items.append((pos, "Int TExit", "ONone"))
                phase = "done"
        elif phase == "run":
            if k == "fifo.bool" and d[0] is False:
                items.append((pos, "Int TUpdate", "OUpd false %s" % cZ(d[1] if d[1] is not None else -1)))
            elif k == "fifo.pop":
                items.append((pos, "Int TUpdate", "OUpd true %s" % cZ(d[0] if d[0] is not None else -1)))
            elif k == "ev.is_set":
                items.append((pos, "Int TPollStop", "OBool %s" % cbool(d[0])))
            elif k == "ev.wait":
                items.append((pos, "Int TPollStop", "OBool %s" % cbool(d[0])))
            elif k == "ev.resume" and d[0]:
                items.append((pos, "Int TPollStop", "OBool true"))
            elif k == "T_end":
                kind = d[0]
                phase = "ending"
        elif phase == "ending":
            if k == "acq":
                items.append((pos, {"ok": "Int TFinishOk", "exc": "Int TFinishExc",
                                    "stopexc": "Int TFinishStopExc"}[kind], "ONone"))
                phase = "fin"
            elif k == "T_exit":
                items.append((pos, "Int TExit", "ONone"))
                phase = "done"
        elif phase == "fin":
            if k == "T_exit":
                items.append((pos, "Int TExit", "ONone"))
                phase = "done"
    # ---- external operations at their linearisation points ----
    blocked = False
    for o in ops:
        if o.ret is None:
            blocked = True          # the run ended (deadlock) inside this operation
            continue
        end = o.ret
        res = out_term(o.res)
        if o.name in ("made", "make"):      # completion of the runner's constructor
            items.append((end, "Ext Ctor", res))
        elif o.name in ("start", "enter"):
            items.append((o.acq[-1] if o.acq else end, "Ext Start", res))
        elif o.name == "stop":
            items.append((o.evset[0] if o.evset else (o.acq[-1] if o.acq else end), "Ext Stop", res))
        elif o.name == "join":
            items.append((o.acq[-1] if o.acq else end, "Ext Join", res))
        elif o.name == "isrun":
            items.append((o.acq[-1] if o.acq else end, "Ext IsRunning", res))
        elif o.name == "set":
            items.append((o.app[0][0] if o.app else end, "Ext (SetSettings %s)" % cZ(o.arg), res))
        elif o.name == "get":
            items.append((o.gets[-1] if o.gets else end, "Ext GetSettings", res))
        elif o.name == "getp":
            items.append((o.iters[-1] if o.iters else end, "Ext GetPending", res))
        elif o.name == "exit":
            items.append((o.evset[0] if o.evset else (o.acq[0] if o.acq else end), "Ext Stop", "ONone"))
            items.append((o.acq[-1] if len(o.acq) >= 2 else end, "Ext Join", res))
        elif o.name == "remove":
            if o.acq or o.evset:     # release_rpc_object found the task not joined: stop(); join()
                items.append((o.evset[0] if o.evset else o.acq[0], "Ext Stop", "ONone"))
                if len(o.acq) >= 2:
                    items.append((o.acq[-1], "Ext Join", None))   # its outcome is swallowed: unobservable
            items.append((end, "Ext Release", res))
    items.sort(key=lambda it: it[0])
    return [(lab, out) for _, lab, out in items], blocked


def coq_case(labels, run_count, done, blocked):
    tr = clist(["(%s, %s)" % (lab, "None" if out is None else "Some (%s)" % out) for lab, out in labels])
    return "(%s, %s, (%d%%nat, %s, %s))" % (cZ(V0), tr, run_count, cbool(done), cbool(blocked))


# ------------------------------------------------------------------------------------------------
# the property oracle (independent of the model; real-time order of calls / returns only)
# ------------------------------------------------------------------------------------------------

def oracle(script, flat_ops_expected_blocked, res):
    """Returns None or (key, description)."""
    st = res["status"]
    o = res.get("obs")
    if st in ("hang", "abort", "crash", "error") or o is None or o.get("trace") is None:
        return "harness:" + st, "schedule did not finish (%s): %s" % (st, str(res.get("trace") or res.get("info") or "")[:400])
    ops, internal = parse(o)
    if st == "deadlock":
        pend = [x for x in ops if x.ret is None]
        if not (flat_ops_expected_blocked and pend and pend[-1].name == "join"):
            return "deadlock", "the run dead-locked inside %s" % (pend[-1].name if pend else "?")
    elif flat_ops_expected_blocked:
        return "join-returned-early", "join() returned although the task was never started nor stopped"
    pos_of = {}
    for pos, k, d in internal:
        pos_of.setdefault(k, []).append(pos)
    begins = pos_of.get("T_begin", [])
    ends = pos_of.get("T_end", [])
    exits = pos_of.get("T_exit", [])
    INF = 10 ** 9
    t_end = ends[0] if ends else INF
    t_exit = exits[0] if exits else INF
    # the step in which the end of run() is recorded: first _state_cond acquisition by the task thread after T_end
    fin = [pos for pos, k, d in internal if k == "acq" and pos > t_end]
    t_fin = fin[0] if fin else t_exit
    run_end = o.get("run_end")
    # --- run() invocation count ---
    if o["run_count"] > 1 or len(begins) > 1:
        return "run-twice", "run() was invoked %d times" % o["run_count"]
    for x in ops:
        if x.res is not None and x.res[0] == "weird":
            return "weird:" + x.name, "%s returned %r" % (x.name, x.res[1])
    starts = [x for x in ops if x.name in ("start", "enter")]
    stoplike = [x for x in ops if x.name in ("stop", "exit", "remove")]
    ok_starts = [x for x in starts if x.res == ["none"]]
    if len(ok_starts) > 1:
        return "two-starts", "start() succeeded twice (operations %s)" % [x.idx for x in ok_starts]
    for x in starts:
        if x.res is None:
            continue
        if x.res not in (["none"], ["exc", "QMI_UsageException"]):
            return "start-error", "start() raised %s" % x.res[1]
        earlier_start = any(y.idx < x.idx for y in starts)
        earlier_stop = any(y.idx < x.idx for y in stoplike)
        should = not earlier_start and not earlier_stop
        if should and x.res != ["none"]:
            return "start-refused", "first start() (no stop before it) was refused: %s" % x.res[1]
        if not should and x.res == ["none"]:
            return ("start-after-stop" if earlier_stop and not any(y.idx < x.idx and y.res == ["none"] for y in starts)
                    else "second-start"), "start() succeeded although %s came first" % (
                        "a stop()" if earlier_stop else "another start()")
    if begins:
        if not ok_starts:
            return "run-without-start", "run() was invoked although no start() succeeded"
        if begins[0] < ok_starts[0].call:
            return "run-before-start", "run() was entered before start() was called"
    # --- stop / set: return None ---
    for x in ops:
        if x.name in ("stop", "set", "remove") and x.res is not None and x.res != ["none"]:
            return x.name + "-raised", "%s raised %s" % (x.name, x.res)
    # --- join / exit ---
    for x in ops:
        if x.name in ("join", "exit") and x.res is not None:
            if t_exit > x.ret:
                return "join-early", "%s returned before the task thread had exited" % x.name
            if begins and t_end > x.ret:
                return "join-before-run-end", "%s returned before run() had finished" % x.name
            if ok_starts and not begins:
                return "join-run-lost", "%s returned, start() had succeeded, but run() was never invoked" % x.name
            want = ["exc", "QMI_TaskRunException"] if (begins and run_end == "exc") else ["none"]
            if x.res != want:
                return ("join-no-raise" if want[0] == "exc" else "join-raised"), \
                    "%s gave %s; run() %s, so it must give %s" % (
                        x.name, x.res, ("ended with kind " + str(run_end)) if begins else "was never invoked", want)
    # --- is_running ---
    for x in ops:
        if x.name == "isrun" and x.res is not None:
            if x.res[0] != "bool":
                return "isrun-raised", "is_running raised %s" % (x.res,)
            b = x.res[1]
            if b and not any(y.call < x.ret for y in ok_starts):
                return "isrun-true-unstarted", "is_running() is True although no start() had succeeded"
            if b and t_fin < x.call:
                return "isrun-true-after-finish", "is_running() is True after the end of run() was recorded"
            if not b and any(y.ret < x.call for y in ok_starts) and t_end > x.ret:
                return "isrun-false-while-running", "is_running() is False between a successful start() and the end of run()"
    # --- settings hand-over ---
    # A post is an EVENT: two posts may carry equal values, and a post may equal what the task already holds; each
    # still counts ("posted since the previous update").  Values are compared by CONTENT (that is all a client can
    # observe); the identity tag carried by the value objects is used to name posts in messages and to pick among
    # equal-content posts, never to raise an alarm on its own (delivering an equal value is not a difference).
    posts = [x for x in ops if x.name == "set" and x.res is not None]          # sequential: ordered by idx
    rank_of_tag = {x.idx: i + 1 for i, x in enumerate(posts)}

    def show(k):
        return "#%d (content %r)" % (k, posts[k - 1].arg)
    upd_calls = pos_of.get("T_upd_call", [])
    upds = [(pos, d) for pos, k, d in internal if k == "T_upd"]
    last_true = 0      # 1-based rank (in posts) of the post delivered by the latest update that returned True
    delivered = []     # ranks delivered by the updates that returned True (most favourable reading)
    for n, (uret, d) in enumerate(upds):
        ucall = upd_calls[n]
        r, val, tag = d[0], d[1], (d[2] if len(d) > 2 else None)
        sure = max([i + 1 for i, x in enumerate(posts) if x.ret < ucall], default=0)
        maybe = max([i + 1 for i, x in enumerate(posts) if x.call < uret], default=0)
        if r is True:
            same = [i + 1 for i, x in enumerate(posts) if x.arg == val]
            if val == -1 or val is None or not same:
                return "update-invented", "update_settings() returned True with settings (content %r, tag %r) that are not a whole posted value" % (val, tag)
            cands = [k for k in same if last_true < k <= maybe]
            if not cands:
                if min(same) > maybe:
                    return "update-future", "update_settings() delivered content %r before it was posted" % (val,)
                return "update-stale", "update_settings() returned True with content %r (tag %r): no post of that value since the post " \
                                       "delivered before (%s)" % (val, tag, show(last_true) if last_true else "none")
            k = rank_of_tag.get(tag) if rank_of_tag.get(tag) in cands else max(cands)
            if k < sure and max(cands) >= sure:
                k = max(cands)
            if k < sure:
                return "update-stale", "update_settings() delivered post %s although post %s, the most recent one, had been made before" % (
                    show(k), show(sure))
            last_true = k
            delivered.append(k)
        elif r is False:
            if sure > last_true:
                return "update-missed", "update_settings() returned False although post %s was made since the previous update" % show(sure)
        else:
            return "update-weird", "update_settings() returned %r" % (r,)
    # --- get_settings / get_pending_settings: whole values, newest pending ---
    for x in ops:
        if x.name == "get" and x.res is not None:
            if x.res[0] != "val" or x.res[1] == -1 or not (
                    x.res[1] == V0 or any(y.arg == x.res[1] and y.call < x.ret for y in posts)):
                return "get-weird", "get_settings() gave %s: neither the initial settings nor a whole posted value" % (x.res,)
        if x.name == "getp" and x.res is not None:
            if x.res[0] != "opt" or x.res[1] == -1:
                return "getp-weird", "get_pending_settings() gave %s" % (x.res,)
            before = [y for y in posts if y.idx < x.idx]
            v, tag = x.res[1], (x.res[2] if len(x.res) > 2 else None)
            if v is None:
                # None is right only if the newest post (or a newer one) was delivered by some update: an update that
                # returned True with an OLDER post took place before this post and cannot have consumed it
                pending_upd = len(upd_calls) > len(upds)
                if before and not pending_upd:
                    r = rank_of_tag[before[-1].idx]
                    all_delivered = []
                    lt = 0
                    for (uret, d) in upds:          # most favourable reading of every True update in the whole log
                        if d[0] is True:
                            c2 = [i + 1 for i, y in enumerate(posts) if y.arg == d[1] and i + 1 > lt]
                            if c2:
                                lt = max(c2)
                                all_delivered.append(lt)
                    if not any(k >= r for k in all_delivered):
                        return "getp-lost", "get_pending_settings() gave None although post %s was made and never delivered to the task" % show(r)
            elif not before or before[-1].arg != v:
                return "getp-stale", "get_pending_settings() gave content %r (tag %r); the newest post is %s" % (
                    v, tag, show(rank_of_tag[before[-1].idx]) if before else None)
    # --- stop first: never run ---
    if stoplike and not any(y.idx < stoplike[0].idx for y in starts) and st == "ok" and (begins or o["run_count"]):
        return "run-after-stop", "run() was invoked although stop() came before any start()"
    # --- release ---
    for x in ops:
        if x.name == "remove" and x.res is not None and t_exit > x.ret:
            return "release-not-joined", "the task was removed from the context while its thread was still alive"
    return None


# ------------------------------------------------------------------------------------------------
# generators
# ------------------------------------------------------------------------------------------------

def gen_script(rng):
    body = []
    for _ in range(rng.choice([0, 1, 1, 2, 2, 3, 4])):
        k = rng.choices(["U", "P", "S", "Z", "L"], weights=[5, 2, 3, 2, 1.5])[0]
        if k in ("U", "P"):
            body.append([k])
        elif k in ("S", "Z"):
            body.append([k, rng.choice([0.5, 1.0, 2.0])])
        else:
            body.append(["L", rng.choice([2, 3, 5]), rng.choice([0.5, 1.0])])
    return {"body": body, "end": rng.choices(END_KINDS, weights=[4, 2, 0.7, 0.8, 0.5, 0.3, 1.7, 0.4])[0]}


def gen_ops(rng, blocked=False):
    """Operation sequences whose join()s terminate (a start or a stop has been issued before every join);
    blocked=True: a join on a task never started nor stopped, as the last operation."""
    ctr = [0]

    def post():
        # a SMALL pool with repeats that includes the task's initial settings value (0): equal values are posted
        # again and again (as distinct objects), and values equal to what the task holds at that moment
        ctr[0] += 1
        return ["set", rng.choice([0, 0, 1, 1, 2])]

    def simple():
        k = rng.choices(["set", "get", "getp", "isrun", "sleep"], weights=[4, 1.5, 1.5, 2.5, 2])[0]
        if k == "set":
            return post()
        if k == "sleep":
            return ["sleep", rng.choice([0.25, 0.75, 1.5, 3.0])]
        return [k]

    if blocked:
        return [simple() for _ in range(rng.randint(0, 3))] + [["join"]]
    ops = []
    live = False      # a start or stop has been issued: the thread will exit
    n = rng.randint(2, 9)
    shape = rng.choices(["plain", "with", "stopfirst"], weights=[6, 2, 2])[0]
    if shape == "stopfirst":
        for _ in range(rng.randint(0, 2)):
            ops.append(simple())
        ops.append(["stop"])
        live = True
    if shape == "with":
        for _ in range(rng.randint(0, 2)):
            ops.append(rng.choice([simple(), simple(), ["start"], ["stop"]]))
        inner = []
        for _ in range(rng.randint(0, 4)):
            inner.append(rng.choice([simple(), simple(), simple(), ["start"], ["stop"], ["join"]]))
        ops.append(["with", inner])
        live = True
    while len(ops) < n:
        k = rng.choices(["simple", "start", "stop", "join"], weights=[6, 2.5, 1.5, 2 if live else 0])[0]
        if k == "simple":
            ops.append(simple())
        else:
            ops.append([k])
            if k in ("start", "stop"):
                live = True
    tail = rng.choices(["join", "stopjoin", "remove", "none", "joinremove"], weights=[2, 3, 3, 1, 2])[0]
    if tail == "join" and live:
        ops.append(["join"])
    elif tail == "stopjoin":
        ops += [["stop"], ["join"]]
    elif tail == "remove":
        ops.append(["remove"])
    elif tail == "joinremove":
        ops += [["stop"], ["join"], ["isrun"], ["remove"]]
    return ops


DFS_SCENARIOS = [
    ({"body": [["U"]], "end": "ok"}, [["set", 1], ["start"], ["set", 2], ["isrun"], ["join"]]),
    ({"body": [["S", 1.0]], "end": "ok"}, [["start"], ["stop"], ["isrun"], ["join"]]),
    ({"body": [], "end": "exc"}, [["start"], ["isrun"], ["join"]]),
    ({"body": [["U"], ["P"]], "end": "stopexc"}, [["start"], ["set", 1], ["stop"], ["join"]]),
    ({"body": [["U"]], "end": "ok"}, [["stop"], ["start"], ["join"], ["isrun"]]),
    ({"body": [["U"], ["U"]], "end": "exc"}, [["with", [["set", 1], ["isrun"], ["getp"]]], ["start"]]),
    ({"body": [["L", 3, 0.5]], "end": "ok"}, [["start"], ["set", 1], ["get"], ["start"], ["remove"]]),
]


# explored with line-level scheduling points (every source line of the functions in TRACED)
DFS_LINE_SCENARIOS = [
    ({"body": [["U"], ["U"]], "end": "ok"}, [["set", 1], ["start"], ["set", 2], ["getp"], ["join"]]),
    ({"body": [["P"], ["U"]], "end": "exc"}, [["start"], ["set", 1], ["stop"], ["isrun"], ["join"]]),
]


def equal_value_bucket():
    """Posts whose value EQUALS what the task holds at that moment (content 0 = the initial settings), in every
    state in which set_settings is accepted, with and without an update in between:
      (a) post B, then post A while the task still holds A: the newest post is A (pending and next update);
      (b) nothing pending, post a value equal to the one held: it is pending and the next update returns True."""
    one = {"body": [["U"], ["U"]], "end": "ok"}
    slow = {"body": [["Z", 1.0], ["U"], ["Z", 1.0], ["U"], ["Z", 1.0], ["U"]], "end": "ok"}
    out = [
        # READY_TO_RUN (before start)
        (one, [["set", 1], ["set", 0], ["getp"], ["start"], ["join"], ["get"], ["getp"]]),
        (one, [["set", 0], ["getp"], ["start"], ["join"], ["get"], ["getp"]]),
        # RUNNING, no update in between: the task holds the initial value until t = 1.0
        (slow, [["start"], ["set", 1], ["set", 0], ["getp"], ["sleep", 1.5], ["getp"], ["get"], ["join"]]),
        (slow, [["start"], ["set", 0], ["getp"], ["sleep", 1.5], ["getp"], ["get"], ["join"]]),
        # RUNNING, with an update in between: the task picks up 1 at t = 1.0; then B = 2, A = 1
        (slow, [["start"], ["set", 1], ["sleep", 1.5], ["get"], ["set", 2], ["set", 1], ["getp"], ["sleep", 1.0], ["get"],
                ["getp"], ["join"]]),
        (slow, [["start"], ["set", 1], ["sleep", 1.5], ["get"], ["set", 1], ["getp"], ["sleep", 1.0], ["getp"], ["join"]]),
        # TASK_STOPPED_BEFORE_START
        (one, [["stop"], ["set", 1], ["set", 0], ["getp"], ["join"], ["set", 2], ["set", 0], ["getp"]]),
        (one, [["stop"], ["set", 0], ["getp"], ["join"], ["getp"]]),
    ]
    # run() finished (completed / failed), before and after join: the task holds 2
    for end in ("ok", "exc"):
        fin = {"body": [["U"]], "end": end}
        out.append((fin, [["set", 2], ["start"], ["sleep", 0.5], ["isrun"], ["set", 1], ["set", 2], ["getp"], ["join"],
                          ["set", 1], ["set", 2], ["getp"]]))
        out.append((fin, [["set", 2], ["start"], ["sleep", 0.5], ["isrun"], ["set", 2], ["getp"], ["join"], ["getp"]]))
    return out


def flat_names(ops):
    out = []
    for o in ops:
        if o[0] == "with":
            out += ["enter"] + flat_names(o[1]) + ["exit"]
        else:
            out.append(o[0])
    return out


# ------------------------------------------------------------------------------------------------
# task constructor raising: make_task must raise QMI_TaskInitException and leave nothing behind
# ------------------------------------------------------------------------------------------------

def oracle_initfail(res):
    st = res["status"]
    o = res.get("obs")
    if st == "deadlock":
        return "init-deadlock", "make_task never returned after the task constructor raised (dead-lock)"
    if st != "ok" or o is None or o.get("trace") is None:
        return "harness:" + st, "schedule did not finish (%s): %s" % (st, str(res.get("trace") or res.get("info") or "")[:400])
    ops, internal = parse(o)
    mk = [x for x in ops if x.name == "make"]
    if not mk or mk[0].res != ["exc", "QMI_TaskInitException"]:
        return "init-wrong-result", "make_task gave %s although the task constructor raised" % (mk[0].res if mk else None,)
    exits = [pos for pos, k, d in internal if k == "T_exit"]
    if not exits or exits[0] > mk[0].ret:
        return "init-thread-left", "make_task raised but the task thread had not exited (it was not joined)"
    if o.get("left_alive"):
        return "init-threads-left", "threads left behind after the failed make_task: %s" % (o["left_alive"],)
    if o.get("run_count_w"):
        return "init-run", "run() was invoked although the task constructor raised"
    if o.get("reuse") != "ok":
        return "init-name-left", "after the failed make_task a task of the same name cannot be made and run: %s" % (o.get("reuse"),)
    return None


# ------------------------------------------------------------------------------------------------
# QMI_LoopTask: missed-period policies under virtual time
# ------------------------------------------------------------------------------------------------
TICK = 16.0     # ticks per (virtual) second; all generated times are multiples of 1/16 s: exact in floats


def scenario_loop(s, policy, period, t_init, tstop, durs, lines=False):
    """A real QMI_LoopTask subclass whose loop_iteration takes durs[i] ticks of virtual time (and raises
    QMI_TaskStopException once the script is exhausted); stop() is issued at absolute tick tstop (None: never).
    Recorded: (clock, run()'s local next_time) at the entry of every loop_iteration and in loop_finalize."""
    import sys
    import qmi.core.task as T
    import qmi.core.context as C
    from qmi.core.exceptions import QMI_TaskStopException
    logging.disable(logging.CRITICAL)
    obs = {"t0": None, "its": [], "fin": [], "join": None, "stop": None}
    s.obs = obs

    def nt():
        fr = sys._getframe(2)          # QMI_LoopTask.run, the caller of loop_iteration / loop_finalize
        return fr.f_locals.get("next_time") if fr.f_code.co_name == "run" else None

    class LoopScript(T.QMI_LoopTask):
        def __init__(self, runner, name, **kw):
            super().__init__(runner, name, **kw)
            self._i = 0

        def loop_prepare(self):
            obs["t0"] = s.clock

        def loop_iteration(self):
            obs["its"].append([s.clock, nt()])
            i = self._i
            self._i += 1
            if i >= len(durs):
                raise QMI_TaskStopException()
            if durs[i] > 0:
                dsched.FAKE_TIME.sleep(durs[i] / TICK)

        def loop_finalize(self):
            obs["fin"].append([s.clock, nt()])

    bound_virtual_time(s)
    ctx = C.QMI_Context("c10loop")
    ctx.start()
    if lines:
        dsched.enable_line_yields([T.QMI_LoopTask.run, T._TaskThread.stop_task])
    if t_init:
        dsched.FAKE_TIME.sleep(t_init / TICK)
    pol = getattr(T.QMI_LoopTaskMissedLoopPolicy, policy)
    p = ctx.make_task("lt", LoopScript, loop_period=period / TICK, policy=pol)
    p.start()
    if tstop is not None:
        dsched.FAKE_TIME.sleep(tstop / TICK - s.clock)
        try:
            obs["stop"] = ["none"] if p.stop() is None else ["weird"]
        except Exception as e:  # noqa
            obs["stop"] = ["exc", type(e).__name__]
    try:
        obs["join"] = ["none"] if p.join() is None else ["weird"]
    except Exception as e:  # noqa
        obs["join"] = ["exc", type(e).__name__]
    obs["end_clock"] = s.clock
    ctx.stop()
    return obs


def ticks(x):
    if x is None:
        return None
    v = x * TICK
    r = int(round(v))
    return r if abs(v - r) < 1e-9 else None


def loop_obs_ticks(o):
    its = [[ticks(a), ticks(b)] for a, b in o["its"]]
    fin = [[ticks(a), ticks(b)] for a, b in o["fin"]]
    return its, fin, ticks(o["t0"])


def oracle_loop(policy, p, t_init, tstop, durs, res):
    """C10's loop-task statements on the observations (no model): next_time in the future at every entry;
    on time -> wakes exactly at next_time and advances it by one period; late -> IMMEDIATE re-bases to
    now+period, SKIP moves to the first grid point after now, TERMINATE ends the loop; loop_finalize runs
    exactly once; join returns."""
    st = res["status"]
    o = res.get("obs")
    if st == "deadlock":
        return "loop-deadlock", "the loop task never ended (dead-lock)"
    if st != "ok" or o is None:
        return "harness:" + st, "schedule did not finish (%s): %s" % (st, str(res.get("trace") or res.get("info") or "")[:400])
    its, fin, t0 = loop_obs_ticks(o)
    if o["join"] != ["none"]:
        return "loop-join", "join() gave %s" % (o["join"],)
    if len(fin) != 1:
        return "loop-finalize", "loop_finalize ran %d times" % len(fin)
    if t0 is None or any(a is None or b is None for a, b in its + fin):
        return "loop-weird-time", "a recorded time is not a whole number of ticks / next_time not readable: %s" % (o["its"][:4],)
    for i, (now, nx) in enumerate(its):
        if not nx > now:
            return "loop-next-not-future", "iteration %d starts at %d with next_time %d (not in the future)" % (i, now, nx)
        if i >= len(durs):
            if i + 1 < len(its):
                return "loop-after-script-end", "an iteration ran after the scripted stop exception"
            continue
        end = now + durs[i]
        nxt = its[i + 1] if i + 1 < len(its) else None
        stopped_by = tstop is not None and tstop < max(end, nx if nx > end else end)
        if nx - end > 0:      # on time
            if nxt is not None and nxt != [nx, nx + p]:
                return "loop-drift", "on-time iteration %d (next_time %d): the next one starts at %d with next_time %d, expected %d / %d" % (
                    i, nx, nxt[0], nxt[1], nx, nx + p)
            if nxt is None and not stopped_by and fin[0][0] != nx and i + 1 <= len(durs):
                return "loop-ended-early", "the loop ended after on-time iteration %d without a stop request" % i
        else:                 # a missed period
            after = nxt if nxt is not None else fin[0]
            n2 = after[1]
            if policy == "TERMINATE":
                if nxt is not None:
                    return "loop-terminate-continues", "policy TERMINATE: iteration %d missed its period but iteration %d ran" % (i, i + 1)
                if n2 != nx:
                    return "loop-terminate-next", "policy TERMINATE changed next_time (%d -> %d)" % (nx, n2)
            else:
                if nxt is not None and nxt[0] != end:
                    return "loop-late-start", "after late iteration %d the next one starts at %d, not at once (%d)" % (i, nxt[0], end)
                if policy == "IMMEDIATE" and n2 != end + p:
                    return "loop-immediate", "policy IMMEDIATE: next_time %d after a missed period at %d, expected now+period = %d" % (n2, end, end + p)
                if policy == "SKIP" and not (n2 > end and n2 - p <= end and (n2 - nx) % p == 0 and n2 > nx):
                    return "loop-skip", "policy SKIP: next_time %d -> %d after a missed period at %d (period %d): not the first grid point after now" % (
                        nx, n2, end, p)
    if fin[0][0] < (its[-1][0] if its else t0):
        return "loop-finalize-early", "loop_finalize ran before the last iteration"
    return None


def coq_lcase(policy, p, t0, tstop, durs, its, fin):
    return "(%s, %s, %s, %s, %s, (%s, (%s, %s)))" % (
        policy, cZ(p), cZ(t0), "None" if tstop is None else "(Some %s)" % cZ(tstop), clist([cZ(d) for d in durs]),
        clist(["(%s, %s)" % (cZ(a), cZ(b)) for a, b in its]), cZ(fin[0]), cZ(fin[1]))


def gen_loop(rng):
    policy = rng.choice(["IMMEDIATE", "SKIP", "TERMINATE"])
    p = rng.choice([2, 4, 8, 8, 16, 6, 10])
    t_init = rng.choice([0, 0, 2, 6, 32])
    n = rng.randint(1, 8)
    durs = []
    for _ in range(n):
        k = rng.choices(["short", "zero", "exact", "late", "verylate", "multiple"], weights=[5, 1, 1.5, 3, 2, 1.5])[0]
        durs.append({"short": 2 * rng.randint(0, max(0, p // 2 - 1)), "zero": 0, "exact": p,
                     "late": p + 2 * rng.randint(0, p // 2), "verylate": 2 * rng.randint(p, 3 * p),
                     "multiple": p * rng.randint(1, 4)}[k])
    total = sum(durs) + p * n
    tstop = None if rng.random() < 0.4 else t_init + 2 * rng.randint(0, max(1, total // 2)) + 1   # odd: never ties
    return policy, p, t_init, tstop, durs


# ------------------------------------------------------------------------------------------------
# the check
# ------------------------------------------------------------------------------------------------

def handle(ck, script, ops, blocked, res, sched_desc, terms, metas, init_fail=None):
    res.pop("events", None)
    ck.count("status:" + res["status"])
    names = flat_names(ops)
    lines = len(sched_desc) > 2 and bool(sched_desc[2])
    rep = sched_desc[3] if len(sched_desc) > 3 else "tuple"
    replay = {"kind": "life", "script": script, "ops": ops, "blocked": blocked, "window": sched_desc[0], "lines": lines,
              "rep": rep,
              "init_fail": init_fail, "schedule": res.get("choices"), "status": res["status"]}
    if init_fail:
        ck.count("ctor_raises:%s/%s" % tuple(init_fail))
        bad = oracle_initfail(res)
        ck.note_case(("initfail", init_fail, tuple(res.get("choices") or ())), True)
    else:
        ck.count("end:" + script["end"])
        for nm in set(names):
            ck.count("op:" + nm)
        bad = oracle(script, blocked, res)
        ck.note_case((script, ops, tuple(res.get("choices") or ())), "start" in names or "enter" in names)
    if bad:
        o = res.get("obs") or {}
        replay["events"] = (o.get("trace") or [])[:400]
        ck.report("oracle:" + bad[0], "C10 fails on the implementation: " + bad[1], replay)
        return
    o = res["obs"]
    labels, blk = to_labels(o)
    done = any(lab == "Int TExit" for lab, _ in labels)
    ck.count("run_count:%d" % o["run_count_w"])
    if o["run_count_w"] and not init_fail:
        ck.count("run_end:%s" % o["run_end"])
    ck.count("trace_len:%s" % ("<20" if len(labels) < 20 else "20-39" if len(labels) < 40 else "40+"))
    for lab, out in labels:
        if lab == "Int TUpdate":
            ck.count("update:" + ("true" if out.startswith("OUpd true") else "false"))
    o.pop("trace", None)
    terms.append(coq_case(labels, o["run_count_w"], done, blk))
    metas.append((replay, labels, o["run_count_w"], done, blk))


def retry_if_hung(res, job):
    """A child killed by the wall-clock watchdog (machine under load) or lost is re-run once, alone, with a
    long watchdog; schedules are deterministic (seeded / replayed), so the re-run is the same schedule."""
    if res.get("status") in ("hang", "crash"):
        prefix = res.get("prefix")
        res = dsched.run_forked([job], nproc=1, wall_timeout=240.0)[0]
        if prefix is not None:
            res["prefix"] = prefix
    return res


def run_chunked(ck, jobs, deadline, chunk=800):
    """Run jobs in chunks (the parent stays small, so forking stays cheap); stop launching new chunks after
    the deadline.  Yields (index, result)."""
    for k in range(0, len(jobs), chunk):
        if time.time() > deadline:
            ck.coverage["time_capped"] = ck.coverage.get("time_capped", 0) + (len(jobs) - k)
            return
        part = jobs[k:k + chunk]
        results = dsched.run_forked(part, nproc=16, wall_timeout=30.0)
        for j, res in enumerate(results):
            yield k + j, retry_if_hung(res, part[j])


def run(ck):
    ck.theory_dir = THEORY
    ck.build_theory(THEORY)
    ck.trusted = [
        "Coq 8.16.1 kernel (vm_compute evaluates the models on the recorded interleavings / loop runs)",
        "model theories/C10/Model.v: QMI_TaskRunner constructor / _TaskThread / runner methods / update_settings transcribed "
        "by hand as an LTS over an abstract value type, tied to /repo by trace acceptance of real schedules in this run",
        "model theories/C10/ModelLoop.v: QMI_LoopTask.run period arithmetic over integer ticks, tied by running real "
        "QMI_LoopTask subclasses under virtual time (run()'s local next_time is read from its frame)",
        "dsched deterministic scheduler, its cooperative Lock/RLock/Condition/Event/Thread, virtual clock and line-level "
        "scheduling points (define what a schedule is)",
        "harness c10.py: scripted task classes, logging deque subclass for the settings slot (same maxlen), settings "
        "property, wrapper logging the return of _TaskThread.run, placement of each operation at its linearisation event",
    ]
    ck.assumptions = [
        "each model label is atomic in the implementation: regions under _state_cond, Event.set / is_set / wait, single "
        "deque operations (GIL), and the statement 'self.settings = fifo.pop()' taken as one step; checked at "
        "synchronisation granularity everywhere and at source-line granularity (dsched.enable_line_yields on %s) in a share "
        "of the schedules — not at bytecode granularity" % ", ".join(TRACED),
        "the runner's RPC methods are executed one at a time by its RPC worker (QMI's RPC layer; C03)",
        "task scripts terminate; join() on a task that is never started nor stopped blocks by documentation (model: "
        "disabled step) and is exercised only as an expected dead-lock",
        "loop task: time values are dyadic (multiples of 1/16 s), so the code's float arithmetic is exact and int() of the "
        "non-negative quotient is Z.div; stop requests never coincide with a wake-up instant",
        "wait_for_condition (C11), get_status and what run() computes are outside the model",
    ]
    import qmi.core.task, qmi.core.context, qmi.core.rpc, qmi.core.messaging, qmi.core.pubsub  # noqa (before fork)
    rng = ck.rng
    quick = ck.tier == "quick"
    n_random = 2400 if quick else 9000
    n_pct = 700 if quick else 3000
    n_blocked = 24 if quick else 100
    n_loop = 360 if quick else 3000
    bucket_seeds = 4 if quick else 16
    line_share = 0.3
    dfs_runs = 450 if quick else 1300
    dfs_bound = 1 if quick else 2
    # wall-clock caps for the schedule phase (the Coq evaluation of the recorded cases follows)
    deadline = ck.t0 + (70 if quick else 230)
    terms, metas = [], []

    # ---- fixed bucket: the exception class raised by run() / by the task constructor is an input -------------
    jobs, descr = [], []
    bucket_ops = [[["start"], ["isrun"], ["join"], ["isrun"]],
                  [["set", 1], ["start"], ["sleep", 0.75], ["isrun"], ["stop"], ["join"], ["isrun"], ["remove"]],
                  [["with", [["isrun"], ["sleep", 0.75], ["isrun"]]], ["isrun"]]]
    for end in END_KINDS:
        for ops in bucket_ops:
            for k in range(bucket_seeds):
                script = {"body": [["U"]] if k % 2 else [], "end": end}
                lines = k % 2 == 1
                jobs.append((scenario, (script, ops, "ops", lines), dict(strategy="random", seed=rng.randrange(1 << 30))))
                descr.append((script, ops, False, ("ops", "bucket", lines), None))
    # ---- fixed bucket: posts equal to the value the task holds, in every state, three value representations ----
    for script, ops in equal_value_bucket():
        for rep in REPS:
            for k in range(2 if quick else 6):
                lines = k % 2 == 1
                jobs.append((scenario, (script, ops, "ops", lines, None, rep),
                             dict(strategy="random", seed=rng.randrange(1 << 30))))
                descr.append((script, ops, False, ("ops", "bucket-equal", lines, rep), None))
    for kind in END_KINDS[1:]:
        for place in ("pre", "post"):
            for k in range(bucket_seeds):
                lines = k % 2 == 1
                script = {"body": [], "end": "ok"}
                jobs.append((scenario, (script, [], "all", lines, [kind, place]),
                             dict(strategy="random", seed=rng.randrange(1 << 30))))
                descr.append((script, [], False, ("all", "bucket", lines), [kind, place]))
    # ---- random / PCT schedules of random scripts x random operation sequences ---------------------------------
    for i in range(n_random + n_pct):
        script, ops = gen_script(rng), gen_ops(rng)
        strat = "random" if i < n_random else "pct"
        window = rng.choice(["all", "ops", "ops"])
        lines = rng.random() < line_share
        rep = rng.choice(REPS)
        kw = dict(strategy=strat, seed=rng.randrange(1 << 30))
        if strat == "random":
            kw["switch_prob"] = rng.choice([0.1, 0.35, 0.6])
        jobs.append((scenario, (script, ops, window, lines, None, rep), kw))
        descr.append((script, ops, False, (window, strat, lines, rep), None))
    for i in range(n_blocked):
        script, ops = gen_script(rng), gen_ops(rng, blocked=True)
        jobs.append((scenario, (script, ops, "ops"), dict(strategy="random", seed=rng.randrange(1 << 30))))
        descr.append((script, ops, True, ("ops", "random", False), None))
    for idx, res in run_chunked(ck, jobs, deadline):
        script, ops, blocked, sd, init_fail = descr[idx]
        ck.count("strategy:" + sd[1])
        ck.count("line_yields:%s" % ("on" if sd[2] else "off"))
        ck.count("value_rep:%s" % (sd[3] if len(sd) > 3 else "tuple"))
        handle(ck, script, ops, blocked, res, sd, terms, metas, init_fail)
    # ---- loop task ----------------------------------------------------------------------------------------------
    lterms, lmetas = [], []
    ljobs, ldescr = [], []
    fixed_loops = [(pol, 8, 0, ts, durs) for pol in ("IMMEDIATE", "SKIP", "TERMINATE")
                   for ts, durs in ((None, [2, 30, 4, 20, 0]), (None, [8, 16, 24, 2]), (43, [2, 30, 4, 20, 0]), (None, [0, 0, 40]))]
    for i in range(len(fixed_loops) + n_loop):
        policy, p, t_init, tstop, durs = fixed_loops[i] if i < len(fixed_loops) else gen_loop(rng)
        lines = i % 4 == 3
        ljobs.append((scenario_loop, (policy, p, t_init, tstop, durs, lines), dict(strategy="random", seed=rng.randrange(1 << 30))))
        ldescr.append((policy, p, t_init, tstop, durs, lines))
    for idx, res in run_chunked(ck, ljobs, deadline + 15):
        policy, p, t_init, tstop, durs, lines = ldescr[idx]
        res.pop("events", None)
        ck.count("loop:" + policy)
        replay = {"kind": "loop", "policy": policy, "period": p, "t_init": t_init, "tstop": tstop, "durs": durs,
                  "lines": lines, "schedule": res.get("choices"), "status": res["status"]}
        bad = oracle_loop(policy, p, t_init, tstop, durs, res)
        ck.note_case(("loop", policy, p, t_init, tstop, tuple(durs)), any(d >= p for d in durs))
        if bad:
            replay["observed"] = res.get("obs")
            ck.report("oracle:" + bad[0], "C10 (loop task) fails on the implementation: " + bad[1], replay)
            continue
        its, fin, t0 = loop_obs_ticks(res["obs"])
        nlate = sum(1 for k, (now, nx) in enumerate(its) if k < len(durs) and nx - (now + durs[k]) <= 0)
        ck.count("loop_missed_periods:%s" % (nlate if nlate < 3 else "3+"))
        ck.count("loop_stop:%s" % ("external" if tstop is not None else "none"))
        lterms.append(coq_lcase(policy, p, t0, tstop, durs, its, fin[0]))
        lmetas.append((replay, its, fin[0], t0))
    # ---- systematic: all schedules with a bounded number of preemptions on short scenarios ----------------------
    # the task constructor raises: all schedules of make_task with at most one preemption
    for init_fail in (["exc", "pre"], ["sysexit", "post"]):
        script = {"body": [], "end": "ok"}
        for res in dsched.explore_dfs(scenario, (script, [], "ops", False, init_fail), preemption_bound=1,
                                      max_runs=dfs_runs, nproc=16, wall_timeout=30.0):
            if res["status"] == "_summary":
                ck.coverage.setdefault("dfs", []).append({"ops": ["make_task, constructor raises %s" % init_fail[0]],
                                                          "runs": res["runs"], "bound": 1,
                                                          "exhausted_within_preemption_bound": res["exhausted"]})
                continue
            ck.count("strategy:dfs")
            res = retry_if_hung(res, (scenario, (script, [], "ops", False, init_fail),
                                      dict(strategy="replay", schedule=list(res.get("prefix") or []))))
            handle(ck, script, [], False, res, ("ops", "dfs", False), terms, metas, init_fail)
    for (script, ops), lines in [(x, True) for x in DFS_LINE_SCENARIOS] + [(x, False) for x in DFS_SCENARIOS]:
        if time.time() > deadline + 20:
            ck.coverage["time_capped"] = ck.coverage.get("time_capped", 0) + 1
            break
        bound = 1 if lines else dfs_bound
        for res in dsched.explore_dfs(scenario, (script, ops, "ops", lines), preemption_bound=bound,
                                      max_runs=max(dfs_runs, 900) if lines else dfs_runs, nproc=16, wall_timeout=30.0):
            if res["status"] == "_summary":
                ck.coverage.setdefault("dfs", []).append({"ops": flat_names(ops), "end": script["end"], "runs": res["runs"],
                                                          "exhausted_within_preemption_bound": res["exhausted"],
                                                          "bound": bound, "line_level": lines})
                continue
            ck.count("strategy:dfs-lines" if lines else "strategy:dfs")
            res = retry_if_hung(res, (scenario, (script, ops, "ops", lines),
                                      dict(strategy="replay", schedule=list(res.get("prefix") or []))))
            handle(ck, script, ops, False, res, ("ops", "dfs", lines), terms, metas)
    for m in metas[:2] + metas[-1:]:
        ck.sample({"script": m[0]["script"], "ops": m[0]["ops"], "init_fail": m[0]["init_fail"],
                   "schedule_len": len(m[0]["schedule"] or []),
                   "interleaving": ["%s -> %s" % (a, b) for a, b in m[1]], "run_count": m[2], "thread_exited": m[3]}, 3)
    for m in lmetas[:1]:
        ck.sample({"loop": {k: m[0][k] for k in ("policy", "period", "t_init", "tstop", "durs")},
                   "iterations (clock, next_time) in ticks": m[1], "finalize": m[2]}, 4)
    bad = ck.run_model("C10.Corr", "check_case", terms, "case", shard=150)
    ck.coverage["correspondence_disagreements"] = len(bad)
    for i in bad[:4]:
        replay, labels, rc, done, blk = metas[i]
        mo = ck.model_eval("C10.Corr", "model_out %s" % coq_case(labels, rc, done, blk))
        replay = dict(replay, interleaving=["%s -> %s" % (a, b) for a, b in labels], impl_run_count=rc,
                      impl_thread_exited=done, model_out=mo[-1500:],
                      broken="correspondence C10.Corr.check_case (trace acceptance)")
        ck.report("corr:" + ("-".join(flat_names(replay["ops"])) or "make")[:60],
                  "a real interleaving is not accepted by the Coq model, or a result / run() count differs "
                  "(the property oracle passed on it)", replay, found_input=False)
    lbad = ck.run_model("C10.Corr", "check_lcase", lterms, "lcase", shard=300)
    ck.coverage["loop_correspondence_disagreements"] = len(lbad)
    for i in lbad[:3]:
        replay, its, fin, t0 = lmetas[i]
        mo = ck.model_eval("C10.Corr", "lmodel_out %s" % coq_lcase(replay["policy"], replay["period"], t0, replay["tstop"],
                                                                  replay["durs"], its, fin))
        ck.report("corr:loop:" + replay["policy"], "a real QMI_LoopTask run differs from ModelLoop.loop_run (the loop oracle "
                  "passed on it)", dict(replay, impl_iterations=its, impl_finalize=fin, model_out=mo[-1200:],
                                        broken="correspondence C10.Corr.check_lcase"), found_input=False)
    return ck.finish("fixed bucket (every exception class for run() and for the task constructor x 3 operation sequences); "
                     "seeded random and PCT schedules of random task scripts x random proxy-operation sequences (plain, "
                     "with-form, stop-first, remove; ~30%% with line-level scheduling points); expected-blocked joins; loop "
                     "tasks with scripted iteration durations under virtual time; stateless DFS with <= %d preemption(s) on "
                     "%d short scenarios; non-trivial = contains a start / a missed period; distinct by (script, ops, schedule)"
                     % (dfs_bound, len(DFS_SCENARIOS)))


def replay(rep):
    c = rep["case"]
    import qmi.core.task, qmi.core.context, qmi.core.rpc, qmi.core.messaging, qmi.core.pubsub  # noqa
    kw = dict(strategy="replay", schedule=list(c.get("schedule") or []))
    if c.get("kind") == "loop":
        res = dsched.run_forked([(scenario_loop, (c["policy"], c["period"], c["t_init"], c["tstop"], c["durs"],
                                                  c.get("lines", False)), kw)], nproc=1, wall_timeout=60.0)[0]
        print("status:", res["status"])
        if res.get("obs"):
            its, fin, t0 = loop_obs_ticks(res["obs"])
            print("t0:", t0, " iterations (clock, next_time):", its, " finalize:", fin, " join:", res["obs"]["join"])
        bad = oracle_loop(c["policy"], c["period"], c["t_init"], c["tstop"], c["durs"], res)
        print("oracle:", bad or "property holds on this run")
        return 1 if bad else 0
    res = dsched.run_forked([(scenario, (c["script"], c["ops"], c.get("window", "ops"), c.get("lines", False),
                                         c.get("init_fail"), c.get("rep", "tuple")), kw)], nproc=1, wall_timeout=60.0)[0]
    print("status:", res["status"])
    o = res.get("obs") or {}
    if o.get("trace") is not None:
        labels, blk = to_labels(o)
        print("run() invocations:", o["run_count"], " run ended:", o["run_end"], " blocked in join:", blk)
        for a, b in labels:
            print("   %-28s -> %s" % (a, b))
    bad = oracle_initfail(res) if c.get("init_fail") else oracle(c["script"], c.get("blocked", False), res)
    print("oracle:", bad or "property holds on this interleaving")
    return 1 if bad else 0
