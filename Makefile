# /verif top-level: `make setup` builds every Coq theory from files on disk (offline, full .vo build).
PY=/venv/bin/python
setup:
	$(PY) -c "import sys; sys.path.insert(0,'$(CURDIR)/harness'); import common; sys.exit(common.build_all())"
clean:
	find coq -name '*.vo' -o -name '*.vok' -o -name '*.vos' -o -name '*.glob' -o -name '.*.aux' | xargs rm -f
	rm -rf coq/cases coq/gen
.PHONY: setup clean
