# /verif top-level: `make setup` builds every Coq theory from files on disk (offline).
PY=/venv/bin/python
setup:
	$(PY) -c "import sys; sys.path.insert(0,'harness'); import common; common.ensure_makefile()"
	timeout 3000 $(MAKE) -C coq -j16
clean:
	-$(MAKE) -C coq clean
	rm -rf coq/cases coq/gen coq/Makefile coq/Makefile.conf
.PHONY: setup clean
