(* C03 uses the trace-acceptance correspondence of the shared RPC pipeline model: in particular the
   model's execution log must equal the order in which the real method bodies were entered. *)
Require Export QV.C01.Corr.
