(* C03 — calls on one object run one at a time, in the order they were issued.
   Statements are about every state reachable by [run] of the shared RPC pipeline model
   (theories/C01/Model.v) from [init], for every request table [info] in which a calling thread
   lives in one context, any number of callers and calls, local and remote, blocking or not,
   under every interleaving with removal / stop / disconnect steps.  Requests are numbered in
   issue order, so "<" on request numbers IS issue order.  [log] is the execution log (the request
   whose method body is entered is appended; the model executes one request at a time — that the
   real worker does so too is part of the correspondence: enter/exit records never nest). *)
Require Import QV.C01.Model QV.C01.ProofsBasic QV.C01.ProofsOrder QV.C03.ProofsSerial.
From Coq Require Import Sorted.

(* per calling thread, requests are executed in the order in which they were issued *)
Theorem C03_program_order : forall fx info,
  (forall a b, caller (info a) = caller (info b) -> remote (info a) = remote (info b)) ->
  forall ls s k, run fx info init ls = Some s ->
  StronglySorted lt (filter (fun r => Nat.eqb (caller (info r)) k) (log s)).
Proof. intros fx info Hc ls s k H. exact (program_order fx info Hc ls s k H). Qed.
Print Assumptions C03_program_order.

(* the same, stated for two requests: if b runs after a and both come from one thread, a was issued first *)
Theorem C03_issue_order_respected : forall fx info,
  (forall a b, caller (info a) = caller (info b) -> remote (info a) = remote (info b)) ->
  forall ls s a b l1 l2 l3, run fx info init ls = Some s ->
  caller (info a) = caller (info b) -> log s = l1 ++ a :: l2 ++ b :: l3 -> a < b.
Proof. intros fx info Hc. exact (issue_order_respected fx info Hc). Qed.
Print Assumptions C03_issue_order_respected.

(* no request is executed twice *)
Theorem C03_executed_once : forall fx info,
  (forall a b, caller (info a) = caller (info b) -> remote (info a) = remote (info b)) ->
  forall ls s, run fx info init ls = Some s -> NoDup (log s).
Proof. intros fx info Hc. exact (executed_once fx info Hc). Qed.
Print Assumptions C03_executed_once.

(* the pipeline invariant behind it: per caller, everything still on its way to the object is in
   issue order behind what has been executed *)
Theorem C03_pipeline_ordered : forall fx info,
  (forall a b, caller (info a) = caller (info b) -> remote (info a) = remote (info b)) ->
  forall ls s, run fx info init ls = Some s -> OrdInv info s.
Proof. intros fx info Hc. exact (reachable_ord fx info Hc). Qed.
Print Assumptions C03_pipeline_ordered.

(* Non-vacuity: two threads (one local, one remote), interleaved non-blocking calls. *)
Example C03_example :
  let info := fun r => match r with
                       | 0 => mkInfo false 0 true true (OValue 0) | 1 => mkInfo true 1 true true (OValue 1)
                       | 2 => mkInfo false 0 true true (OValue 2) | _ => mkInfo true 1 true true (OValue 3) end in
  option_map log (run true info init
    [LIssue 0 true; LIssue 1 true; LHandoff 1 true; LIssue 2 true; LIssue 3 true; LSockSend 1 true; LPop; LExec;
     LNetC2S 1 true; LReply true; LHandoff 3 true; LPop; LExec; LReply true; LPop; LExec; LSockSend 3 true;
     LNetC2S 3 true; LReply true; LPop; LExec]) = Some [0; 2; 1; 3].
Proof. vm_compute. reflexivity. Qed.

(* ---- one at a time ---- *)

(* between two method bodies (LExec) of ANY run - any number of callers, contexts, removal / stop /
   disconnect steps interleaved - the reply step of the first body and the pop step of the next
   request have happened: two bodies never overlap *)
Theorem C03_serial : forall fx info ls s' l1 l2 l3,
  run fx info init ls = Some s' -> ls = l1 ++ LExec :: l2 ++ LExec :: l3 ->
  In LPop l2 /\ exists ok, In (LReply ok) l2.
Proof. exact serial. Qed.
Print Assumptions C03_serial.

(* in every reachable state the worker holds at most one request (popped and not yet run, or run and
   not yet answered) *)
Theorem C03_worker_holds_one : forall fx info ls s',
  run fx info init ls = Some s' -> cur s' = None \/ replying s' = None.
Proof. exact worker_holds_one. Qed.
Print Assumptions C03_worker_holds_one.

(* the body that runs is the popped request's, and nothing but a body extends the execution log *)
Theorem C03_exec_runs_popped : forall fx info s l s' r,
  step fx info s l = Some s' -> cur s = Some r -> replying s = None ->
  (l = LExec -> log s' = log s ++ [r]) /\ (l <> LExec -> log s' = log s).
Proof. exact exec_runs_popped. Qed.
Print Assumptions C03_exec_runs_popped.

(* Non-vacuity of C03_serial: the run of C03_example has the shape l1 ++ LExec :: l2 ++ LExec :: l3,
   and a worker that runs a second body before answering the first is refused by the model. *)
Example C03_serial_refuses_overlap :
  let info := fun r => mkInfo false r true true (OValue r) in
  run true info init [LIssue 0 true; LIssue 1 true; LPop; LExec; LPop] = None /\
  run true info init [LIssue 0 true; LIssue 1 true; LPop; LExec; LExec] = None /\
  option_map log (run true info init [LIssue 0 true; LIssue 1 true; LPop; LExec; LReply true; LPop; LExec])
    = Some [0; 1].
Proof. vm_compute. auto. Qed.
