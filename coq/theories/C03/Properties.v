(* C03 — calls on one object run one at a time, in the order they were issued.
   Statements are about every state reachable by [run] of the shared RPC pipeline model
   (theories/C01/Model.v) from [init], for every request table [info] in which a calling thread
   lives in one context, any number of callers and calls, local and remote, blocking or not,
   under every interleaving with removal / stop / disconnect steps.  Requests are numbered in
   issue order, so "<" on request numbers IS issue order.  [log] is the execution log (the request
   whose method body is entered is appended; the model executes one request at a time — that the
   real worker does so too is part of the correspondence: enter/exit records never nest). *)
Require Import QV.C01.Model QV.C01.ProofsBasic QV.C01.ProofsOrder.
From Coq Require Import Sorted.

(* per calling thread, requests are executed in the order in which they were issued *)
Theorem C03_program_order : forall fx info,
  (forall a b, caller (info a) = caller (info b) -> remote (info a) = remote (info b)) ->
  forall ls s k, run fx info init ls = Some s ->
  StronglySorted lt (filter (fun r => Nat.eqb (caller (info r)) k) (log s)).
Proof. intros fx info Hc ls s k H. exact (program_order fx info Hc ls s k H). Qed.
Print Assumptions C03_program_order.

(* the same, stated for two requests: if b runs after a and both come from one thread, a was issued first *)
Theorem C03_issue_order_respected : forall fx info,
  (forall a b, caller (info a) = caller (info b) -> remote (info a) = remote (info b)) ->
  forall ls s a b l1 l2 l3, run fx info init ls = Some s ->
  caller (info a) = caller (info b) -> log s = l1 ++ a :: l2 ++ b :: l3 -> a < b.
Proof. intros fx info Hc. exact (issue_order_respected fx info Hc). Qed.
Print Assumptions C03_issue_order_respected.

(* no request is executed twice *)
Theorem C03_executed_once : forall fx info,
  (forall a b, caller (info a) = caller (info b) -> remote (info a) = remote (info b)) ->
  forall ls s, run fx info init ls = Some s -> NoDup (log s).
Proof. intros fx info Hc. exact (executed_once fx info Hc). Qed.
Print Assumptions C03_executed_once.

(* the pipeline invariant behind it: per caller, everything still on its way to the object is in
   issue order behind what has been executed *)
Theorem C03_pipeline_ordered : forall fx info,
  (forall a b, caller (info a) = caller (info b) -> remote (info a) = remote (info b)) ->
  forall ls s, run fx info init ls = Some s -> OrdInv info s.
Proof. intros fx info Hc. exact (reachable_ord fx info Hc). Qed.
Print Assumptions C03_pipeline_ordered.

(* Non-vacuity: two threads (one local, one remote), interleaved non-blocking calls. *)
Example C03_example :
  let info := fun r => match r with
                       | 0 => mkInfo false 0 true true (OValue 0) | 1 => mkInfo true 1 true true (OValue 1)
                       | 2 => mkInfo false 0 true true (OValue 2) | _ => mkInfo true 1 true true (OValue 3) end in
  option_map log (run true info init
    [LIssue 0 true; LIssue 1 true; LHandoff 1 true; LIssue 2 true; LIssue 3 true; LSockSend 1 true; LPop; LExec;
     LNetC2S 1 true; LReply true; LHandoff 3 true; LPop; LExec; LReply true; LPop; LExec; LSockSend 3 true;
     LNetC2S 3 true; LReply true; LPop; LExec]) = Some [0; 2; 1; 3].
Proof. vm_compute. reflexivity. Qed.
