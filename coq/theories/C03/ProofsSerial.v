(* C03 — "one at a time": in every run of the RPC pipeline model the worker's steps follow the cycle
   take a request (LPop) -> run its method body (LExec) -> hand the reply over (LReply), so two method
   bodies are always separated by the completion of the first; no other step of the system (callers,
   socket threads, removal, stop, disconnects) touches what the worker holds. *)
Require Import QV.C01.Model QV.C01.ProofsBasic.

Inductive wphase := WIdle | WHas (r : nat) | WRep (r : nat).

(* the worker-side automaton, driven by the labels of a run (all other labels leave it alone) *)
Definition wstep (w : wphase) (l : label) (popped : option nat) : option wphase :=
  match l, w with
  | LPop, WIdle => match popped with Some r => Some (WHas r) | None => None end
  | LPop, _ => None
  | LExec, WHas r => Some (WRep r)
  | LExec, _ => None
  | LReply _, WRep _ => Some WIdle
  | LReply _, _ => None
  | LReject _, WIdle => Some WIdle
  | LReject _, _ => None
  | LWorkerExit, WIdle => Some WIdle
  | LWorkerExit, _ => None
  | _, _ => Some w
  end.

(* what the worker holds in a state *)
Definition wmatch (w : wphase) (s : state) : Prop :=
  match w with
  | WIdle => cur s = None /\ replying s = None
  | WHas r => cur s = Some r /\ replying s = None
  | WRep r => cur s = None /\ exists o, replying s = Some (r, o)
  end.

Section Serial.
  Variable fx : bool.
  Variable info : nat -> rinfo.

  Lemma step_serial s l s' w :
    step fx info s l = Some s' -> wmatch w s ->
    exists w', wstep w l (hd_error (fifo s)) = Some w' /\ wmatch w' s' /\
               (l = LExec -> exists r, w = WHas r /\ w' = WRep r /\ log s' = log s ++ [r]) /\
               (l <> LExec -> log s' = log s).
  Proof.
    intros H Hm.
    step_cases H; destruct w as [|r0|r0]; cbn [wmatch] in Hm;
      try (destruct Hm as [Hc [o Ho]]); try (destruct Hm as [Hc Hr]);
      cbn [cur replying log fifo with_out with_handoff with_sockq with_lost with_c2s with_pend with_fifo with_cur
           with_replying with_srvq with_s2c with_log with_nxt with_obj with_srv with_cli fail] in *;
      try congruence;
      try (eexists; split; [reflexivity|]; cbn [wmatch];
           cbn [cur replying log fifo with_out with_handoff with_sockq with_lost with_c2s with_pend with_fifo with_cur
                with_replying with_srvq with_s2c with_log with_nxt with_obj with_srv with_cli fail];
           repeat split; eauto; try congruence; try discriminate).
    all: match goal with
         | H1 : cur ?st = Some ?a, H2 : cur ?st = Some ?b |- _ =>
             assert (a = b) by congruence; subst
         end; eauto.
  Qed.

  (* the automaton run along a run of the system *)
  Fixpoint wtrace (s : state) (w : wphase) (ls : list label) : option wphase :=
    match ls with
    | [] => Some w
    | l :: r => match step fx info s l, wstep w l (hd_error (fifo s)) with
                | Some s', Some w' => wtrace s' w' r
                | _, _ => None
                end
    end.

  Lemma run_serial ls : forall s s' w,
    run fx info s ls = Some s' -> wmatch w s -> exists w', wtrace s w ls = Some w' /\ wmatch w' s'.
  Proof.
    induction ls as [|l ls IH]; intros s s' w Hrun Hm; cbn [run wtrace] in *.
    - inversion Hrun; subst. eauto.
    - destruct (step fx info s l) as [s1|] eqn:E; [|discriminate].
      destruct (step_serial s l s1 w E Hm) as (w1 & Hw & Hm1 & _). rewrite Hw. eauto.
  Qed.

  (* what must lie between a worker phase and a later method body *)
  Definition between (w : wphase) (l2 : list label) : Prop :=
    match w with
    | WHas _ => True
    | WIdle => In LPop l2
    | WRep _ => In LPop l2 /\ exists ok, In (LReply ok) l2
    end.

  Lemma wtrace_between l3 l2 : forall s w w',
    wtrace s w (l2 ++ LExec :: l3) = Some w' -> between w l2.
  Proof.
    induction l2 as [|l l2 IH]; intros s w w' H; cbn [app wtrace] in H.
    - destruct (step fx info s LExec); [|discriminate]. destruct w; cbn in H; try discriminate. exact I.
    - destruct (step fx info s l) as [s1|]; [|discriminate].
      destruct (wstep w l (hd_error (fifo s))) as [w1|] eqn:E; [|discriminate].
      specialize (IH s1 w1 w' H).
      destruct w as [|r|r]; [| exact I |].
      + (* idle *) destruct l; cbn in E; try (destruct (hd_error (fifo s))); try discriminate;
          inversion E; subst; cbn in IH |- *; auto.
      + (* replying *) destruct l; cbn in E; try discriminate; inversion E; subst; cbn in IH |- *;
          try (destruct IH as [IH1 [ok' IH2]]; split; [right; exact IH1 | exists ok'; right; exact IH2]).
        split; [right; exact IH | eexists; left; reflexivity].
  Qed.

  (* one at a time: between two method bodies of ANY run the first one's reply step and the next
     request's pop step have happened *)
  Theorem serial ls s' l1 l2 l3 :
    run fx info init ls = Some s' -> ls = l1 ++ LExec :: l2 ++ LExec :: l3 ->
    In LPop l2 /\ exists ok, In (LReply ok) l2.
  Proof.
    intros Hrun ->.
    assert (Hm0 : wmatch WIdle init) by (cbn; auto).
    destruct (run_serial _ _ _ _ Hrun Hm0) as (w' & Hw & _).
    clear Hrun Hm0. revert Hw. generalize init, WIdle.
    induction l1 as [|l l1 IH]; intros s w Hw; cbn [app wtrace] in Hw.
    - destruct (step fx info s LExec) as [s1|]; [|discriminate].
      destruct w as [|r|r]; cbn in Hw; try discriminate.
      exact (wtrace_between l3 l2 s1 (WRep r) w' Hw).
    - destruct (step fx info s l) as [s1|]; [|discriminate].
      destruct (wstep w l (hd_error (fifo s))) as [w1|]; [|discriminate]. eauto.
  Qed.

  (* at every moment the worker holds at most one request: popped and not yet run, or run and not yet
     answered, never both *)
  Theorem worker_holds_one ls s' :
    run fx info init ls = Some s' -> cur s' = None \/ replying s' = None.
  Proof.
    intros Hrun. assert (Hm0 : wmatch WIdle init) by (cbn; auto).
    destruct (run_serial _ _ _ _ Hrun Hm0) as (w' & _ & Hm).
    destruct w'; cbn in Hm; destruct Hm; auto.
  Qed.

  (* a method body runs exactly the request the worker popped, and only a body extends the log *)
  Theorem exec_runs_popped s l s' r :
    step fx info s l = Some s' -> cur s = Some r -> replying s = None ->
    (l = LExec -> log s' = log s ++ [r]) /\ (l <> LExec -> log s' = log s).
  Proof.
    intros H Hc Hr. destruct (step_serial s l s' (WHas r) H (conj Hc Hr)) as (w' & _ & _ & He & Hn).
    split; [|exact Hn]. intros El. destruct (He El) as (r1 & E1 & _ & Hl). inversion E1; subst. exact Hl.
  Qed.
End Serial.
