(* C15 / SCPI — executable model, no proofs.
   Transcribes /repo/qmi/core/scpi_protocol.py: ScpiProtocol.write, ask (discard=False),
   read_binary_data.  The transport is (a) for read_binary_data a byte stream with
   read(n) = exactly n bytes or QMI_TimeoutException consuming nothing, (b) for ask a
   read_until that returns whatever message the transport delivers (message-based transports such
   as QMI_UsbTmcTransport ignore the terminator) or times out. *)
Require Export QV.C15.ModelBase.

Definition is_digit (b : N) : bool := (48 <=? b) && (b <=? 57).
(* bytes.isdigit(): non-empty and all ASCII digits *)
Definition isdigit (l : list N) : bool := negb (length l =? 0)%nat && forallb is_digit l.
(* int(b) for a digit string *)
Definition parse_dec (l : list N) : N := fold_left (fun acc d => acc * 10 + (d - 48)) l 0.

(* read_binary_data over an abstract transport state S with rd n = transport.read(n): Some (exactly n
   bytes, new state) or None (QMI_TimeoutException).  Returns the outcome and the transport state. *)
Section Block.
  Variable S : Type.
  Variable rd : N -> S -> option (list N * S).

  Definition read_block_g (term_flag : bool) (term : list N) (s : S) : res (list N) * S :=
    match rd 2 s with
    | None => (Err ETimeout, s)
    | Some (header, s1) =>
        match header with
        | [h0; h1] =>
            if negb (h0 =? 35) then (Err EInstr, s1)
            else if negb (is_digit h1) then (Err EInstr, s1)
            else
              let nd := h1 - 48 in
              if nd =? 0 then (Err EInstr, s1)
              else match rd nd s1 with
              | None => (Err ETimeout, s1)
              | Some (header2, s2) =>
                  if negb (isdigit header2) then (Err EInstr, s2)
                  else
                    let nbytes := parse_dec header2 in
                    match rd nbytes s2 with
                    | None => (Err ETimeout, s2)
                    | Some (data, s3) =>
                        if term_flag then
                          match rd (len term) s3 with
                          | None => (Err ETimeout, s3)
                          | Some (tail, s4) =>
                              if bytes_eqb tail term then (Ok data, s4) else (Err EInstr, s4)
                          end
                        else (Ok data, s3)
                    end
              end
        | _ => (Err EOutOfFuel, s1)    (* unreachable: read(2) returns two bytes *)
        end
    end.
End Block.

(* the transport as one byte stream *)
Definition read_block : bool -> list N -> list N -> res (list N) * list N := read_block_g (list N) take.

(* the transport as a read buffer plus the transfers the device has yet to deliver, in order; read(n)
   receives further transfers until n bytes are buffered (what every QMI_Transport.read does) *)
Definition cstate := (list N * list (list N))%type.
Fixpoint cfill (n : N) (buf : list N) (pend : list (list N)) : cstate :=
  match pend with
  | [] => (buf, [])
  | c :: r => if len buf <? n then cfill n (buf ++ c) r else (buf, pend)
  end.
Definition ctake (n : N) (st : cstate) : option (list N * cstate) :=
  let '(b, p) := cfill n (fst st) (snd st) in
  if len b <? n then None else Some (firstn (N.to_nat n) b, (skipn (N.to_nat n) b, p)).
Definition cflat (st : cstate) : list N := fst st ++ concat (snd st).
Definition read_block_chunked (flag : bool) (term : list N) (transfers : list (list N)) : res (list N) * cstate :=
  read_block_g cstate ctake flag term ([], transfers).

(* ScpiProtocol.write: cmd.encode("ascii") + terminator, one transport.write *)
Definition scpi_write (cmd cterm : list N) : res (list (list N)) :=
  if negb (forallb (fun c => c <? 128) cmd) then Err EUniEnc else Ok [cmd ++ cterm].

(* ask: cmd is the list of code points of the python str; reply = what read_until returned *)
Inductive reply := RTimeout | RMsg (b : list N).

Definition ask (cmd cterm rterm : list N) (r : reply) : list (list N) * res (list N) :=
  if negb (forallb (fun c => c <? 128) cmd) then ([], Err EUniEnc)     (* cmd.encode("ascii") *)
  else
    let w := [cmd ++ cterm] in
    match r with
    | RTimeout => (w, Err ETimeout)
    | RMsg resp =>
        if negb (endswith resp rterm) then (w, Err EInstr)
        else
          (* response[:-len(terminator)]  (python: [: -0] is the empty slice) *)
          let body := if (length rterm =? 0)%nat then [] else firstn (length resp - length rterm) resp in
          if negb (forallb (fun c => c <? 128) body) then (w, Err EUniDec)
          else (w, Ok body)
    end.

(* ---- reference device: IEEE 488.2 definite length arbitrary block ------------------------ *)
(* n written with exactly nd decimal digits (zero padded) *)
Fixpoint print_pad (nd : nat) (n : N) : list N :=
  match nd with
  | O => []
  | S k => print_pad k (n / 10) ++ [48 + n mod 10]
  end.

Definition encode_block (nd : nat) (data : list N) : list N :=
  [35; 48 + N.of_nat nd] ++ print_pad nd (len data) ++ data.
