(* C15 / NKT Photonics Interbus — executable model, no proofs.
   Transcribes /repo/qmi/instruments/nkt_photonics/nkt_photonics_interbus_protocol.py:
     _crc_ccitt, _encode_interbus_message, _decode_interbus_message,
     NKTPhotonicsInterbusProtocol._request_response (with _send_message/_read_message inlined).
   Bytes are N.  bytes.replace is modelled literally (left-to-right, non-overlapping). *)
Require Export QV.C15.ModelBase.

(* ---- _crc_ccitt --------------------------------------------------------------------- *)
Definition crc_round (crc : N) : N :=
  let xorflag := N.testbit crc 15 in              (* (crc & 0x8000) != 0 *)
  let crc' := N.land (N.shiftl crc 1) 65535 in    (* (crc << 1) & 0xffff *)
  if xorflag then N.lxor crc' 4129 else crc'.     (* crc ^= 0x1021 *)

Definition crc_ccitt (crc c : N) : N :=
  let x := N.lxor crc (N.shiftl c 8) in
  crc_round (crc_round (crc_round (crc_round (crc_round (crc_round (crc_round (crc_round x))))))).

Definition crc_of (l : list N) : N := fold_left crc_ccitt l 0.

(* ---- bytes.replace ------------------------------------------------------------------ *)
(* b.replace(bytes([v]), new): every byte v becomes new *)
Definition replace1 (v : N) (new : list N) (l : list N) : list N :=
  flat_map (fun b => if b =? v then new else [b]) l.

(* b.replace(bytes([a, b]), bytes([new])): scan left to right, non-overlapping *)
Fixpoint replace2 (a b new : N) (l : list N) : list N :=
  match l with
  | x :: r =>
      match r with
      | y :: r' => if (x =? a) && (y =? b) then new :: replace2 a b new r'
                   else x :: replace2 a b new r
      | [] => l
      end
  | [] => []
  end.

(* for value in [0x5e, 0x0d, 0x0a]: replace(bytes([value]), bytes([0x5e, value + 0x40])) *)
Definition escape (l : list N) : list N :=
  replace1 10 [94; 74] (replace1 13 [94; 77] (replace1 94 [94; 158] l)).

(* for value in [0x0a, 0x0d, 0x5e]: replace(bytes([0x5e, value + 0x40]), bytes([value])) *)
Definition unescape (l : list N) : list N :=
  replace2 94 158 94 (replace2 94 77 13 (replace2 94 74 10 l)).

(* ---- messages ----------------------------------------------------------------------- *)
Record msg := mkmsg { m_dest : N; m_src : N; m_type : N; m_reg : N; m_data : list N }.

Definition msg_eqb (a b : msg) : bool :=
  (m_dest a =? m_dest b) && (m_src a =? m_src b) && (m_type a =? m_type b) &&
  (m_reg a =? m_reg b) && bytes_eqb (m_data a) (m_data b).

(* message_type is a MessageType member (0..9); register_number must fit a byte for bytearray([...]) *)
Definition ib_payload (m : msg) : list N :=
  let p := [m_dest m; m_src m; m_type m; m_reg m] ++ m_data m in
  let crc := crc_of p in
  p ++ [crc / 256; crc mod 256].

Definition ib_encode (m : msg) : res (list N) :=
  if negb ((1 <=? m_dest m) && (m_dest m <=? 160)) then Err EValue
  else if negb ((161 <=? m_src m) && (m_src m <=? 255)) then Err EValue
  else if negb (len (m_data m) <=? 240) then Err EValue
  else if negb (m_reg m <? 256) then Err EValue
  else Ok ([13] ++ escape (ib_payload m) ++ [10]).

(* types = the values of the live MessageType enum (read from the code on every run) *)
Definition ib_decode (types : list N) (e : list N) : res msg :=
  if len e <? 8 then Err EValue
  else match e with
  | [] => Err EValue
  | sot :: r =>
      if negb ((sot =? 13) && (last e 0 =? 10)) then Err EValue
      else
        let u := unescape (removelast r) in           (* encoded_message[1:-1], unescaped *)
        if len u <? 6 then Err EValue
        else if negb (crc_of u =? 0) then Err EValue
        else match firstn (length u - 2) u with
             | d :: s :: t :: g :: data =>
                 if existsb (N.eqb t) types then Ok (mkmsg d s t g data) else Err EValue   (* MessageType(t) *)
             | _ => Err EValue
             end
  end.

(* ---- _request_response -------------------------------------------------------------- *)
(* what transport.read_until(b"\n") does on successive calls *)
Inductive rd := RdTimeout | RdBytes (b : list N).

(* Tuning constants the property does not fix are PARAMETERS, read from the live class on every run:
   maxr = NKTPhotonicsInterbusProtocol.MAX_RETRY_COUNT, base = HOST_BASE_ADDRESS. *)

(* the while-loop; one scripted read per iteration; writes accumulate in order *)
Fixpoint rr_loop (types : list N) (maxr : nat) (req : list N) (dst src : N) (fc : nat) (script : list rd)
                 (wr : list (list N)) : list (list N) * res msg :=
  match script with
  | [] => (wr, Err EExhausted)
  | ev :: rest =>
      let bad (e : err) :=
        if (maxr <? S fc)%nat then (wr, Err e)
        else rr_loop types maxr req dst src (S fc) rest (wr ++ [req]) in
      match ev with
      | RdTimeout => bad ETimeout
      | RdBytes b =>
          match ib_decode types b with
          | Err _ => bad EInstr                       (* ValueError -> QMI_InstrumentException *)
          | Ok m =>
              if (m_src m =? dst) && (m_dest m =? src) then (wr, Ok m)
              else if (maxr <? S fc)%nat then (wr, Err EInstr)
              else rr_loop types maxr req dst src (S fc) rest wr
          end
      end
  end.

Definition next_toggle (t : N) : N := N.land (t + 1) 1.

(* returns (new _source_toggle, writes, outcome) *)
Definition request_response (types : list N) (maxr : nat) (base : N) (toggle dst mt reg : N) (data : list N)
                            (script : list rd) : N * list (list N) * res msg :=
  let t := next_toggle toggle in
  let src := base + t in
  match ib_encode (mkmsg dst src mt reg data) with
  | Err e => (t, [], Err e)
  | Ok req => let '(w, r) := rr_loop types maxr req dst src 0 script [req] in (t, w, r)
  end.

(* ---- reference device side ("conforming device"): byte-wise escape spec ---------------- *)
Definition esc_byte (b : N) : list N :=
  if (b =? 10) || (b =? 13) || (b =? 94) then [94; b + 64] else [b].
Definition escape_spec (l : list N) : list N := flat_map esc_byte l.

(* read_until(b"\n") on a byte stream: cut after the first 0x0A *)
Fixpoint cut_nl (s : list N) : option (list N * list N) :=
  match s with
  | [] => None
  | x :: r => if x =? 10 then Some ([x], r)
              else match cut_nl r with Some (a, b) => Some (x :: a, b) | None => None end
  end.
