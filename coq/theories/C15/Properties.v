(* C15 — property theorems only.  Each is closed by [exact] of a lemma of Proofs*.v and followed by
   Print Assumptions.  The statements are about the executable definitions of Model*.v, i.e. about
   the very functions harness/c15.py evaluates against the real QMI code on every run. *)
Require Import QV.C15.ModelBase QV.C15.ModelIB QV.C15.ModelUsbtmc QV.C15.ModelT2 QV.C15.ModelScpi QV.C15.ModelApt QV.C15.ModelAptFields.
Require Import QV.C15.ProofsIB QV.C15.ProofsIBLin QV.C15.ProofsUsbtmc QV.C15.ProofsT2 QV.C15.ProofsScpi QV.C15.ProofsApt QV.C15.ProofsAptFields.
Open Scope N_scope.

(* ============================== NKT Interbus ========================================== *)

(* Parameters.  Everything the property does not fix is a parameter of the model, read from the code
   under test on every run and universally quantified here: types = values of the MessageType enum,
   maxr = MAX_RETRY_COUNT, base = HOST_BASE_ADDRESS (Interbus); max_transfer_size mts (USBTMC);
   ho_check = whether ask compares the id of HEADER_ONLY replies (APT, probed). *)

(* decode (encode m) = m for every valid message: any register byte, any data of length <= 240
   including 0x0A 0x0D 0x5E, also when those values occur in the CRC bytes; for every set of
   message types that contains the message's type *)
Theorem C15_ib_roundtrip : forall types m, valid_msg m -> In (m_type m) types ->
  exists f, ib_encode m = Ok f /\ ib_decode types f = Ok m.
Proof. exact ib_roundtrip. Qed.
Print Assumptions C15_ib_roundtrip.

(* framing: SOT, then a body free of 0x0A/0x0D, then EOT *)
Theorem C15_ib_framing : forall m, valid_msg m ->
  exists body, ib_encode m = Ok (13 :: body ++ [10]) /\ Forall (fun b => b <> 10 /\ b <> 13) body.
Proof. exact ib_framing. Qed.
Print Assumptions C15_ib_framing.

(* ... so read_until(b"\n") on the wire cuts exactly at EOT, whatever follows *)
Theorem C15_ib_framing_cut : forall m rest, valid_msg m ->
  exists f, ib_encode m = Ok f /\ cut_nl (f ++ rest) = Some (f, rest).
Proof. exact ib_cut. Qed.
Print Assumptions C15_ib_framing_cut.

(* the three sequential bytes.replace passes equal the byte-wise escape, and the three unescape
   passes invert it, for every byte string *)
Theorem C15_ib_escape_spec : forall l, escape l = escape_spec l.
Proof. exact escape_is_spec. Qed.
Print Assumptions C15_ib_escape_spec.
Theorem C15_ib_escape_inverse : forall l, unescape (escape l) = l.
Proof. exact unescape_escape. Qed.
Print Assumptions C15_ib_escape_inverse.

(* CRC of body ++ big-endian CRC is 0, for every body (unbounded; the step from the 16-bit register
   state is a sweep over all 65 536 states, crc_append_sweep_ok) *)
Theorem C15_ib_crc_append : forall p, crc_of (p ++ [crc_of p / 256; crc_of p mod 256]) = 0.
Proof. exact crc_append. Qed.
Print Assumptions C15_ib_crc_append.

(* a frame that is too short, lacks SOT or EOT, or whose CRC does not verify is a ValueError *)
Theorem C15_ib_reject : forall types e,
  (length e < 8)%nat \/ hd 0 e <> 13 \/ last e 0 <> 10 \/
  crc_of (unescape (removelast (tl e))) <> 0 \/ (length (unescape (removelast (tl e))) < 6)%nat ->
  ib_decode types e = Err EValue.
Proof. exact ib_reject. Qed.
Print Assumptions C15_ib_reject.
(* ... and so is a message type outside the MessageType enum *)
Theorem C15_ib_reject_type : forall types e body d s t g data c1 c2,
  e = 13 :: body ++ [10] -> unescape body = [d; s; t; g] ++ data ++ [c1; c2] -> ~ In t types ->
  ib_decode types e = Err EValue.
Proof. exact ib_reject_type. Qed.
Print Assumptions C15_ib_reject_type.

(* whatever is accepted has SOT/EOT, a verifying CRC, and exactly the returned fields *)
Theorem C15_ib_decode_sound : forall types e m, ib_decode types e = Ok m ->
  exists body c1 c2,
    e = 13 :: body ++ [10] /\ (8 <= length e)%nat /\ crc_of (unescape body) = 0 /\
    unescape body = [m_dest m; m_src m; m_type m; m_reg m] ++ m_data m ++ [c1; c2] /\ In (m_type m) types.
Proof. exact ib_decode_sound. Qed.
Print Assumptions C15_ib_decode_sound.

(* every single-byte corruption of a body whose CRC verifies is detected (CRC linearity over GF(2)
   + sweeps over the 255 byte differences and the 65 536 register states), for bodies of any length;
   on the wire: a frame whose unescaped body is such a corruption is a ValueError *)
Theorem C15_ib_single_byte : forall a x y b,
  x < 256 -> y < 256 -> x <> y -> crc_of (a ++ x :: b) = 0 -> crc_of (a ++ y :: b) <> 0.
Proof. exact crc_single_byte. Qed.
Print Assumptions C15_ib_single_byte.
Theorem C15_ib_single_byte_frame : forall types body a x y b,
  unescape body = a ++ y :: b -> crc_of (a ++ x :: b) = 0 -> x < 256 -> y < 256 -> x <> y ->
  ib_decode types (13 :: body ++ [10]) = Err EValue.
Proof. exact ib_single_byte. Qed.
Print Assumptions C15_ib_single_byte_frame.

(* _request_response, for EVERY retry bound maxr, host base address and message-type set: a returned
   response mirrors the request's addresses and is one of the frames actually read; for every script
   of reads (timeouts, junk, stale replies ...) *)
Theorem C15_ib_match : forall types maxr base toggle dst mt reg data script t w m,
  request_response types maxr base toggle dst mt reg data script = (t, w, Ok m) ->
  m_src m = dst /\ m_dest m = base + next_toggle toggle /\
  exists f, In (RdBytes f) script /\ ib_decode types f = Ok m.
Proof. exact rr_match. Qed.
Print Assumptions C15_ib_match.

(* bounded retries: the request is written once plus at most maxr times, always the same frame;
   nothing is written for an invalid request; the source toggle flips *)
Theorem C15_ib_retry_bound : forall types maxr base toggle dst mt reg data script t w r,
  request_response types maxr base toggle dst mt reg data script = (t, w, r) ->
  t = next_toggle toggle /\
  ((w = [] /\ r = Err EValue /\ ib_encode (mkmsg dst (base + next_toggle toggle) mt reg data) = Err EValue) \/
   exists req k, ib_encode (mkmsg dst (base + next_toggle toggle) mt reg data) = Ok req /\
                 w = req :: repeat req k /\ (k <= maxr)%nat).
Proof. exact rr_bounded. Qed.
Print Assumptions C15_ib_retry_bound.

(* at most maxr+1 reads are ever looked at, and they always suffice for a verdict *)
Theorem C15_ib_read_bound : forall types maxr base toggle dst mt reg data s1 s2,
  length s1 = S maxr ->
  request_response types maxr base toggle dst mt reg data (s1 ++ s2) =
    request_response types maxr base toggle dst mt reg data s1 /\
  snd (request_response types maxr base toggle dst mt reg data s1) <> Err EExhausted.
Proof. exact rr_reads. Qed.
Print Assumptions C15_ib_read_bound.

(* a device that answers correctly only on attempt k = |pre|+1, after |pre| timeouts / malformed /
   mis-addressed frames: the payload iff k <= maxr+1, otherwise an error (never wrong data) *)
Theorem C15_ib_attempt : forall types maxr base toggle dst mt reg data req good m pre post,
  ib_encode (mkmsg dst (base + next_toggle toggle) mt reg data) = Ok req ->
  ib_decode types good = Ok m -> m_src m = dst -> m_dest m = base + next_toggle toggle ->
  forallb (failing types dst (base + next_toggle toggle)) pre = true ->
  ((length pre <= maxr)%nat ->
     snd (request_response types maxr base toggle dst mt reg data (pre ++ RdBytes good :: post)) = Ok m) /\
  ((maxr < length pre)%nat ->
     exists e, snd (request_response types maxr base toggle dst mt reg data (pre ++ RdBytes good :: post)) = Err e
               /\ e <> EExhausted).
Proof. exact rr_attempt. Qed.
Print Assumptions C15_ib_attempt.

Theorem C15_ib_toggle : forall t, t < 2 -> next_toggle t = 1 - t /\ next_toggle (next_toggle t) = t.
Proof. exact next_toggle_alternates. Qed.
Print Assumptions C15_ib_toggle.

(* ============================== USBTMC ================================================= *)

(* write_raw: for every non-empty data, every max_transfer_size >= 1 (below 2^32) and every start
   tag, the reference device (MsgID 1, bTag = successor of the previous one and never 0, bTagInverse,
   little-endian TransferSize, reserved bytes 0, zero alignment bytes up to a multiple of 4, EOM on
   the last transfer only) reassembles exactly data; all transfers are 4-byte aligned *)
Theorem C15_usbtmc_out : forall data mts tag,
  (1 <= mts)%nat -> N.of_nat mts < 4294967296 -> data <> [] -> tag <= 255 ->
  exists ts t', write_raw data mts tag = Some (ts, t') /\ dev_recv tag ts = Some (data, t') /\
                1 <= t' <= 255 /\ Forall (fun tr => (length tr mod 4 = 0)%nat) ts.
Proof. exact write_raw_ok. Qed.
Print Assumptions C15_usbtmc_out.

Theorem C15_usbtmc_out_empty : forall mts tag, write_raw [] mts tag = Some ([], tag).
Proof. exact write_raw_empty. Qed.
Print Assumptions C15_usbtmc_out_empty.

(* for every max_transfer_size: no transfer exceeds header + max_transfer_size + 3 alignment bytes *)
Theorem C15_usbtmc_out_sizes : forall data mts tag ts t',
  write_raw data mts tag = Some (ts, t') -> Forall (fun tr => (length tr <= 12 + mts + 3)%nat) ts.
Proof. exact write_raw_sizes. Qed.
Print Assumptions C15_usbtmc_out_sizes.

(* the tag is always in 1..255, 255 is followed by 1 *)
Theorem C15_usbtmc_tag : forall t, 1 <= next_tag t <= 255.
Proof. exact next_tag_range. Qed.
Print Assumptions C15_usbtmc_tag.
Theorem C15_usbtmc_tag_wrap : next_tag 255 = 1 /\ forall t, t < 255 -> next_tag t = t + 1.
Proof. exact (conj next_tag_wrap next_tag_succ). Qed.
Print Assumptions C15_usbtmc_tag_wrap.

(* read_raw(-1): for every device message cut into any non-empty sequence of conforming Bulk-IN
   transfers (any chunk sizes including 0, any alignment bytes, EOM on the last), the value returned
   is the concatenation; one request per transfer with consecutive tags; later transfers untouched *)
Theorem C15_usbtmc_in : forall mts tag cs extra,
  cs <> [] -> Forall (fun c => len (chunk_data c) < 4294967296) cs ->
  read_raw (-1) mts tag (dev_script cs ++ extra) =
    mk_rd (req_seq tag mts (length cs)) (Nat.iter (length cs) next_tag tag)
          (Ok (concat (map chunk_data cs))).
Proof. exact read_raw_conforming. Qed.
Print Assumptions C15_usbtmc_in.

(* read_raw(num) with num > 0, any device (also one that sends more than asked): the host asks for
   min(max_transfer_size, bytes still wanted) per transfer, stops when it has num bytes or at EOM,
   returns the chunks exchanged up to then unmodified (NOT truncated to num), and never touches
   the transfers after that (they stay with the device; no abort is sent) *)
Theorem C15_usbtmc_in_limited_served : forall mts tag cs extra num,
  0 < num -> cs <> [] -> Forall (fun c => len (chunk_data c) < 4294967296) cs ->
  read_raw (Z.of_N num) mts tag (dev_script cs ++ extra) =
    mk_rd (reqs_of tag (served num mts cs))
          (Nat.iter (length (served num mts cs)) next_tag tag)
          (Ok (concat (map (fun wc => chunk_data (snd wc)) (served num mts cs)))).
Proof. exact read_raw_limited. Qed.
Print Assumptions C15_usbtmc_in_limited_served.

(* ... and with a conforming device (never more than the requested TransferSize per transfer): the
   value returned is exactly the first num bytes of the message (the whole message if it is
   shorter), however the device cuts it; every requested size is <= max_transfer_size and <= num *)
Theorem C15_usbtmc_in_limited : forall mts tag cs extra num,
  0 < num -> cs <> [] -> Forall (fun c => len (chunk_data c) < 4294967296) cs ->
  Forall (fun wc => len (chunk_data (snd wc)) <= fst wc) (served num mts cs) ->
  rd_res (read_raw (Z.of_N num) mts tag (dev_script cs ++ extra)) =
    Ok (firstn (N.to_nat num) (concat (map chunk_data cs))) /\
  rd_reqs (read_raw (Z.of_N num) mts tag (dev_script cs ++ extra)) = reqs_of tag (served num mts cs) /\
  Forall (fun wc => fst wc = N.min mts (fst wc) /\ fst wc <= num) (served num mts cs).
Proof. exact read_raw_limited_conforming. Qed.
Print Assumptions C15_usbtmc_in_limited.

(* vendor quirk: an Advantest/ADCMT device (idVendor 0x1334) gets max_transfer_size 63; every
   message is still reassembled exactly and no transfer exceeds 12 + 63 + alignment bytes *)
Theorem C15_usbtmc_out_advantest : forall id_product data tag,
  data <> [] -> tag <= 255 ->
  exists ts t', write_raw_quirk 4916 id_product data tag = Some (ts, t') /\
                dev_recv tag ts = Some (data, t') /\ Forall (fun tr => (length tr <= 12 + 63 + 3)%nat) ts.
Proof. exact write_raw_advantest. Qed.
Print Assumptions C15_usbtmc_out_advantest.

(* ============================== PicoQuant T2 ============================================ *)

Theorem C15_t2_split : forall a ovf b,
  t2_decode ovf (a ++ b) =
    let '(o1, e1) := t2_decode ovf a in let '(o2, e2) := t2_decode o1 b in (o2, e1 ++ e2).
Proof. exact t2_decode_app. Qed.
Print Assumptions C15_t2_split.

(* any batching (including empty batches) = decoding the whole stream at once *)
Theorem C15_t2_batches : forall bs ovf,
  t2_decode ovf (concat bs) = let '(o, es) := t2_batches ovf bs in (o, concat es).
Proof. exact t2_batches_concat. Qed.
Print Assumptions C15_t2_batches.

(* each non-overflow record yields exactly one event: type = bits 31..25, timestamp =
   (ovf + sum of earlier overflow increments) * 2^25 + tag, arithmetic mod 2^64 *)
Theorem C15_t2_timestamp : forall pre r post ovf, ovf < W64 -> is_ovf r = false ->
  snd (t2_decode ovf (pre ++ r :: post)) =
    snd (t2_decode ovf pre) ++
    (rec_type r, (((ovf + ovf_sum pre) mod W64) * PERIOD + rec_tag r) mod W64) ::
    snd (t2_decode ((ovf + ovf_sum pre) mod W64) post).
Proof. exact t2_event. Qed.
Print Assumptions C15_t2_timestamp.

Theorem C15_t2_overflow_silent : forall pre r post ovf, ovf < W64 -> is_ovf r = true ->
  snd (t2_decode ovf (pre ++ r :: post)) =
    snd (t2_decode ovf pre) ++ snd (t2_decode ((ovf + ovf_sum pre + rec_tag r) mod W64) post).
Proof. exact t2_overflow. Qed.
Print Assumptions C15_t2_overflow_silent.

Theorem C15_t2_counter : forall pre ovf, ovf < W64 -> fst (t2_decode ovf pre) = (ovf + ovf_sum pre) mod W64.
Proof. exact t2_counter. Qed.
Print Assumptions C15_t2_counter.

Theorem C15_t2_count : forall recs ovf,
  length (snd (t2_decode ovf recs)) = length (filter (fun r => negb (is_ovf r)) recs).
Proof. exact t2_count. Qed.
Print Assumptions C15_t2_count.

Theorem C15_t2_fields : forall r, r < 4294967296 ->
  rec_type r = r / PERIOD /\ rec_type r < 128 /\ rec_tag r = r mod PERIOD /\ r = rec_type r * PERIOD + rec_tag r.
Proof. exact rec_fields. Qed.
Print Assumptions C15_t2_fields.

(* physical meaning across the uint64 wrap: for ANY true overflow count T (beyond 2^39, where
   T*2^25 leaves uint64, and beyond 2^64, where the counter itself wraps) the decoder holding
   T mod 2^64 emits the true events one for one, in order, same type, timestamp = true time mod
   2^64, and its counter stays congruent: nothing is lost or duplicated at the wrap *)
Theorem C15_t2_refines_true : forall recs T,
  t2_decode (T mod W64) recs = (fst (t2_true T recs) mod W64, map wrap_ev (snd (t2_true T recs))).
Proof. exact t2_refines_true. Qed.
Print Assumptions C15_t2_refines_true.
Theorem C15_t2_no_loss_at_wrap : forall recs T,
  length (snd (t2_decode (T mod W64) recs)) = length (snd (t2_true T recs)) /\
  map fst (snd (t2_decode (T mod W64) recs)) = map fst (snd (t2_true T recs)).
Proof. exact t2_no_loss. Qed.
Print Assumptions C15_t2_no_loss_at_wrap.
(* while all true times are below 2^64 the timestamps ARE the true times *)
Theorem C15_t2_exact_below_wrap : forall recs T,
  Forall (fun e => snd e < W64) (snd (t2_true T recs)) ->
  snd (t2_decode (T mod W64) recs) = snd (t2_true T recs).
Proof. exact t2_exact. Qed.
Print Assumptions C15_t2_exact_below_wrap.

(* ============================== SCPI ==================================================== *)

Theorem C15_scpi_dec_codec : forall nd n, n < 10 ^ N.of_nat nd -> parse_dec (print_pad nd n) = n.
Proof. exact parse_print. Qed.
Print Assumptions C15_scpi_dec_codec.

(* all data (below 10^nd bytes), all digit counts 1..9 incl. zero-padded, any terminator, any
   following bytes: the block is returned unchanged and exactly its bytes are consumed *)
Theorem C15_scpi_block_roundtrip : forall flag term nd data rest,
  (1 <= nd <= 9)%nat -> len data < 10 ^ N.of_nat nd ->
  read_block flag term (encode_block nd data ++ (if flag then term else []) ++ rest) = (Ok data, rest).
Proof. exact read_block_roundtrip. Qed.
Print Assumptions C15_scpi_block_roundtrip.

(* data is only ever returned from a well-formed block *)
Theorem C15_scpi_block_sound : forall flag term s data rest,
  read_block flag term s = (Ok data, rest) ->
  exists nd digits,
    s = [35; 48 + nd] ++ digits ++ data ++ (if flag then term else []) ++ rest /\
    1 <= nd <= 9 /\ len digits = nd /\ forallb is_digit digits = true /\ len data = parse_dec digits.
Proof. exact read_block_sound. Qed.
Print Assumptions C15_scpi_block_sound.

Theorem C15_scpi_block_reject_hash : forall flag term h0 h1 s,
  h0 <> 35 -> fst (read_block flag term (h0 :: h1 :: s)) = Err EInstr.
Proof. exact read_block_bad_hash. Qed.
Print Assumptions C15_scpi_block_reject_hash.
Theorem C15_scpi_block_reject_count : forall flag term h1 s,
  is_digit h1 = false \/ h1 = 48 -> fst (read_block flag term (35 :: h1 :: s)) = Err EInstr.
Proof. exact read_block_bad_count. Qed.
Print Assumptions C15_scpi_block_reject_count.
Theorem C15_scpi_block_reject_length : forall flag term nd digits s,
  1 <= nd <= 9 -> len digits = nd -> forallb is_digit digits = false ->
  fst (read_block flag term ([35; 48 + nd] ++ digits ++ s)) = Err EInstr.
Proof. exact read_block_bad_length. Qed.
Print Assumptions C15_scpi_block_reject_length.
Theorem C15_scpi_block_reject_tail : forall term nd data tail rest,
  (1 <= nd <= 9)%nat -> len data < 10 ^ N.of_nat nd -> len tail = len term -> tail <> term ->
  fst (read_block true term (encode_block nd data ++ tail ++ rest)) = Err EInstr.
Proof. exact read_block_bad_tail. Qed.
Print Assumptions C15_scpi_block_reject_tail.

Theorem C15_scpi_ask_writes : forall cmd ct rt r, ascii cmd = true -> fst (ask cmd ct rt r) = [cmd ++ ct].
Proof. exact ask_writes. Qed.
Print Assumptions C15_scpi_ask_writes.
Theorem C15_scpi_ask_ok : forall cmd ct rt body, ascii cmd = true -> rt <> [] -> ascii body = true ->
  ask cmd ct rt (RMsg (body ++ rt)) = ([cmd ++ ct], Ok body).
Proof. exact ask_ok. Qed.
Print Assumptions C15_scpi_ask_ok.
Theorem C15_scpi_ask_missing_terminator : forall cmd ct rt resp,
  ascii cmd = true -> (forall b, resp <> b ++ rt) -> ask cmd ct rt (RMsg resp) = ([cmd ++ ct], Err EInstr).
Proof. exact ask_missing_terminator. Qed.
Print Assumptions C15_scpi_ask_missing_terminator.

(* the reply delivered in ANY sequence of transfers (cuts anywhere: between '#' and the digit count,
   inside the length digits, inside data or terminator; empty transfers) reads exactly like the
   concatenation: same outcome (data or error class) and same unread bytes *)
Theorem C15_scpi_block_split : forall flag term transfers,
  read_block flag term (concat transfers) =
    (fst (read_block_chunked flag term transfers), cflat (snd (read_block_chunked flag term transfers))).
Proof. exact read_block_split. Qed.
Print Assumptions C15_scpi_block_split.
Theorem C15_scpi_block_split_roundtrip : forall (flag : bool) (term : list N) nd data rest transfers,
  (1 <= nd <= 9)%nat -> len data < 10 ^ N.of_nat nd ->
  concat transfers = encode_block nd data ++ (if flag then term else []) ++ rest ->
  fst (read_block_chunked flag term transfers) = Ok data /\
  cflat (snd (read_block_chunked flag term transfers)) = rest.
Proof. exact read_block_split_roundtrip. Qed.
Print Assumptions C15_scpi_block_split_roundtrip.

(* write / ask with a command that is not pure ASCII: UnicodeEncodeError, nothing is written *)
Theorem C15_scpi_write_ascii : forall cmd ct, ascii cmd = true -> scpi_write cmd ct = Ok [cmd ++ ct].
Proof. exact scpi_write_ascii. Qed.
Print Assumptions C15_scpi_write_ascii.
Theorem C15_scpi_write_nonascii : forall cmd ct, ascii cmd = false -> scpi_write cmd ct = Err EUniEnc.
Proof. exact scpi_write_nonascii. Qed.
Print Assumptions C15_scpi_write_nonascii.
Theorem C15_scpi_ask_nonascii : forall cmd ct rt r, ascii cmd = false -> ask cmd ct rt r = ([], Err EUniEnc).
Proof. exact ask_nonascii. Qed.
Print Assumptions C15_scpi_ask_nonascii.

(* ============================== Thorlabs APT ============================================ *)

Theorem C15_apt_header_params : forall id p1 p2 d s,
  id < 65536 -> p1 < 256 -> p2 < 256 -> d < 256 -> s < 256 ->
  unpack_params (hdr_params id p1 p2 d s) = Some (id, p1, p2, d, s).
Proof. exact hdr_params_roundtrip. Qed.
Print Assumptions C15_apt_header_params.
Theorem C15_apt_header_data : forall id n d s,
  id < 65536 -> n < 65536 -> d < 256 -> s < 256 -> unpack_data (hdr_data id n d s) = Some (id, n, d, s).
Proof. exact hdr_data_roundtrip. Qed.
Print Assumptions C15_apt_header_data.

Theorem C15_apt_write_data : forall dev host id payload,
  dev < 256 -> host < 256 -> id < 65536 -> len payload < 65536 ->
  exists h, write_data_command dev host id payload = h ++ payload /\ length h = 6%nat /\
            unpack_data h = Some (id, len payload, N.lor dev 128, host).
Proof. exact write_data_device. Qed.
Print Assumptions C15_apt_write_data.

Theorem C15_apt_ask_ok : forall hc expect sizeof src dst payload extra rest,
  expect < 65536 -> len (payload ++ extra) < 65536 -> len payload = sizeof -> dst < 256 -> src < 256 ->
  apt_ask hc false expect sizeof (hdr_data expect (len (payload ++ extra)) dst src ++ (payload ++ extra) ++ rest)
  = (Ok payload, rest).
Proof. exact apt_ask_ok. Qed.
Print Assumptions C15_apt_ask_ok.

(* a data reply with an unexpected message id is an error *)
Theorem C15_apt_ask_wrong_id : forall hc expect sizeof rid n dst src data rest,
  expect <> rid -> rid < 65536 -> len data = n -> n < 65536 ->
  apt_ask hc false expect sizeof (hdr_data rid n dst src ++ data ++ rest) = (Err EInstr, rest).
Proof. exact apt_ask_wrong_id. Qed.
Print Assumptions C15_apt_ask_wrong_id.

Theorem C15_apt_ask_sound : forall hc expect sizeof s out rest,
  apt_ask hc false expect sizeof s = (Ok out, rest) ->
  exists a b l0 l1 d sr data,
    s = [a; b; l0; l1; d; sr] ++ data ++ rest /\ dec16 a b = expect /\ len data = dec16 l0 l1 /\
    sizeof <= len data /\ out = firstn (N.to_nat sizeof) data.
Proof. exact apt_ask_sound. Qed.
Print Assumptions C15_apt_ask_sound.

(* HEADER_ONLY packet types: ask checks that six bytes arrive and nothing else; in particular the
   message id of the reply is NOT compared with the expected one *)
Theorem C15_apt_ask_header_only : forall expect sizeof s,
  apt_ask false true expect sizeof s =
    match take 6 s with None => (Err ETimeout, s) | Some (h, r) => (Ok h, r) end.
Proof. exact apt_ask_header_only_spec. Qed.
Print Assumptions C15_apt_ask_header_only.
Theorem C15_apt_ask_header_only_id_unchecked : forall e1 e2 z1 z2 s, apt_ask false true e1 z1 s = apt_ask false true e2 z2 s.
Proof. exact apt_ask_header_only_id_unchecked. Qed.
Print Assumptions C15_apt_ask_header_only_id_unchecked.
(* an implementation that does compare the id of HEADER_ONLY replies (ho_check = true; the property
   allows either): a matching header is returned unchanged, another id is an error *)
Theorem C15_apt_ask_header_only_checked : forall expect sizeof a b c d e f rest,
  apt_ask true true expect sizeof (a :: b :: c :: d :: e :: f :: rest) =
    if expect =? dec16 a b then (Ok [a; b; c; d; e; f], rest) else (Err EInstr, rest).
Proof. exact apt_ask_header_only_checked. Qed.
Print Assumptions C15_apt_ask_header_only_checked.
(* either way, what is returned for a HEADER_ONLY type is exactly the six bytes the device sent *)
Theorem C15_apt_ask_header_only_sound : forall hc expect sizeof s out rest,
  apt_ask hc true expect sizeof s = (Ok out, rest) -> s = out ++ rest /\ length out = 6%nat.
Proof. exact apt_ask_header_only_sound. Qed.
Print Assumptions C15_apt_ask_header_only_sound.

(* field by field, generic over every well-formed layout table (instantiated per packet class in
   coq/gen/C15AptLayouts.v from the ctypes _fields_): unpack (pack values) = values for all in-range
   values (unsigned, two's complement signed, chars, arrays), and the packet has exactly sizeof bytes *)
Theorem C15_apt_fields_roundtrip : forall L sizeof, layout_wf L sizeof = true -> forall vss rest,
  values_ok L vss ->
  unpack L (pack L vss ++ rest) = vss /\ len (pack L vss) = sizeof /\ sizeof < 65536.
Proof. exact fields_roundtrip. Qed.
Print Assumptions C15_apt_fields_roundtrip.
(* device -> driver: header with the expected id + packed fields: ask returns bytes that unpack to
   exactly those field values *)
Theorem C15_apt_ask_fields : forall hc L sizeof expect dst src vss rest,
  layout_wf L sizeof = true -> values_ok L vss -> expect < 65536 -> dst < 256 -> src < 256 ->
  exists bytes, apt_ask hc false expect sizeof (hdr_data expect sizeof dst src ++ pack L vss ++ rest) = (Ok bytes, rest) /\
                unpack L bytes = vss.
Proof. exact apt_ask_fields. Qed.
Print Assumptions C15_apt_ask_fields.
(* driver -> device *)
Theorem C15_apt_write_fields : forall L sizeof dev host id vss,
  layout_wf L sizeof = true -> values_ok L vss -> dev < 256 -> host < 256 -> id < 65536 ->
  exists h, write_data_command dev host id (pack L vss) = h ++ pack L vss /\
            unpack_data h = Some (id, sizeof, N.lor dev 128, host) /\ unpack L (pack L vss) = vss.
Proof. exact apt_write_fields. Qed.
Print Assumptions C15_apt_write_fields.

(* ============================== non-vacuity ============================================= *)
(* data made of the three reserved bytes, register number 0x5E *)
Definition ex_types : list N := [0; 1; 2; 3; 4; 5; 6; 7; 8; 9].
Example C15_ex_ib_valid : valid_msg (mkmsg 15 161 5 94 [94; 10; 13]) /\ In 5 ex_types.
Proof. unfold valid_msg. cbn. lia. Qed.
Example C15_ex_ib_encode :
  ib_encode (mkmsg 15 161 5 94 [94; 10; 13]) =
    Ok [13; 15; 161; 5; 94; 158; 94; 158; 94; 74; 94; 77; 161; 254; 10] /\
  ib_decode ex_types [13; 15; 161; 5; 94; 158; 94; 158; 94; 74; 94; 77; 161; 254; 10] = Ok (mkmsg 15 161 5 94 [94; 10; 13]).
Proof. vm_compute. split; reflexivity. Qed.
(* reserved byte inside the CRC: body 0F A1 05 30 00 has CRC 0x175E, sent as 17 5E 9E *)
Example C15_ex_ib_reserved_crc :
  ib_encode (mkmsg 15 161 5 48 [0]) = Ok [13; 15; 161; 5; 48; 0; 23; 94; 158; 10] /\
  ib_decode ex_types [13; 15; 161; 5; 48; 0; 23; 94; 158; 10] = Ok (mkmsg 15 161 5 48 [0]).
Proof. vm_compute. split; reflexivity. Qed.
(* a corrupted CRC byte is rejected *)
Example C15_ex_ib_reject :
  ib_decode ex_types [13; 15; 161; 5; 94; 158; 94; 158; 94; 74; 94; 77; 161; 255; 10] = Err EValue.
Proof. vm_compute. reflexivity. Qed.
Example C15_ex_ib_single_byte :
  crc_of ([15; 161; 5; 48] ++ 0 :: [23; 94]) = 0 /\ crc_of ([15; 161; 5; 48] ++ 1 :: [23; 94]) = 14128.
Proof. vm_compute. split; reflexivity. Qed.
Example C15_ex_ib_rr :
  let good := [13; 161; 15; 8; 97; 103; 97; 6; 211; 10] in
  request_response ex_types 10 161 1 15 4 97 [] [RdTimeout; RdBytes [13; 1; 2; 10]; RdBytes good] =
    (0, [[13; 15; 161; 4; 97; 238; 1; 10]; [13; 15; 161; 4; 97; 238; 1; 10]; [13; 15; 161; 4; 97; 238; 1; 10]],
     ib_decode ex_types good) /\ exists m, ib_decode ex_types good = Ok m.
Proof. vm_compute. split; [reflexivity|eexists; reflexivity]. Qed.

Example C15_ex_usbtmc_out :
  write_raw [104; 101; 108; 108; 111; 32; 119] 5 254 =
    Some ([[1; 255; 0; 0; 5; 0; 0; 0; 0; 0; 0; 0; 104; 101; 108; 108; 111; 0; 0; 0];
           [1; 1; 254; 0; 2; 0; 0; 0; 1; 0; 0; 0; 32; 119; 0; 0]], 1).
Proof. vm_compute. reflexivity. Qed.
Example C15_ex_usbtmc_in :
  rd_res (read_raw (-1) 4 255 (dev_script [([1; 2; 3], [0], 1, 254); ([], [], 2, 253); ([4], [9; 9; 9], 3, 252)]))
  = Ok [1; 2; 3; 4].
Proof. vm_compute. reflexivity. Qed.

(* overflow increment 3, counter near the 64-bit wrap of ovf * 2^25 *)
Example C15_ex_t2 :
  t2_batches 549755813887 [[33554437]; []; [4261412867; 2181038081]] =
    (549755813890, [[(1, 18446744073675997189)]; []; [(65, 67108865)]]).
Proof. vm_compute. reflexivity. Qed.

Example C15_ex_scpi_block :
  read_block true [10] (encode_block 3 [35; 48; 10] ++ [10] ++ [7]) = (Ok [35; 48; 10], [7]) /\
  encode_block 3 [35; 48; 10] = [35; 51; 48; 48; 51; 35; 48; 10] /\
  fst (read_block true [10] [35; 50; 48; 48; 51; 35; 48; 10; 10; 7]) = Err EInstr.
Proof. vm_compute. repeat split; reflexivity. Qed.
Example C15_ex_scpi_ask :
  ask [42; 73; 68; 78; 63] [10] [13; 10] (RMsg [65; 66; 13; 10]) = ([[42; 73; 68; 78; 63; 10]], Ok [65; 66]) /\
  ask [42; 73; 68; 78; 63] [10] [13; 10] (RMsg [65; 66; 10]) = ([[42; 73; 68; 78; 63; 10]], Err EInstr).
Proof. vm_compute. split; reflexivity. Qed.

Example C15_ex_apt :
  write_data_command 80 1 1107 [1; 0; 16; 39; 0; 0] = [83; 4; 6; 0; 208; 1; 1; 0; 16; 39; 0; 0] /\
  apt_ask false false 1169 14 ([145; 4; 14; 0; 129; 80] ++ [1; 0; 1; 2; 3; 4; 5; 6; 7; 8; 9; 10; 11; 12] ++ [99])
    = (Ok [1; 0; 1; 2; 3; 4; 5; 6; 7; 8; 9; 10; 11; 12], [99]) /\
  apt_ask false false 1169 14 ([146; 4; 14; 0; 129; 80] ++ [1; 0; 1; 2; 3; 4; 5; 6; 7; 8; 9; 10; 11; 12] ++ [99])
    = (Err EInstr, [99]).
Proof. vm_compute. repeat split; reflexivity. Qed.

(* ---- second round ---- *)
(* read_raw(5): device holds 1..9 and answers 3 + 2 (asked 4, then 2); third chunk never requested *)
Example C15_ex_usbtmc_in_limited :
  let cs := [([1; 2; 3], [0], 1, 254); ([4; 5], [], 2, 253); ([6; 7; 8; 9], [], 3, 252)] in
  served 5 4 cs = [(4, ([1; 2; 3], [0], 1, 254)); (2, ([4; 5], [], 2, 253))] /\
  read_raw 5 4 255 (dev_script cs) =
    mk_rd [[2; 1; 254; 0; 4; 0; 0; 0; 0; 0; 0; 0]; [2; 2; 253; 0; 2; 0; 0; 0; 0; 0; 0; 0]] 2 (Ok [1; 2; 3; 4; 5]).
Proof. vm_compute. split; reflexivity. Qed.
(* a device that ignores the requested size: everything it sent is returned, more than num *)
Example C15_ex_usbtmc_in_oversend :
  rd_res (read_raw 2 4 0 (dev_script [([1; 2; 3; 4; 5; 6], [], 1, 254)])) = Ok [1; 2; 3; 4; 5; 6].
Proof. vm_compute. reflexivity. Qed.
Example C15_ex_usbtmc_advantest :
  vendor_quirks 4916 0 = (63, true, false, false) /\ vendor_quirks 6833 1230 = (1048576, false, true, true) /\
  match write_raw_quirk 4916 0 (repeat 7 64) 0 with Some (ts, t) => (map (@length N) ts, t) | None => ([], 0) end
    = ([76; 16]%nat, 2).
Proof. vm_compute. repeat split; reflexivity. Qed.

(* true overflow count 2^64 - 1, then an overflow record of 2: the counter wraps to 1, the event
   before keeps type and order, timestamps are the true times mod 2^64 *)
Example C15_ex_t2_wrap :
  t2_true 18446744073709551615 [33554437; 4261412866; 33554438] =
    (18446744073709551617, [(1, 618970019642690137416007685); (1, 618970019642690137483116550)]) /\
  t2_decode (18446744073709551615 mod W64) [33554437; 4261412866; 33554438] =
    (1, [(1, 18446744073675997189); (1, 33554438)]).
Proof. vm_compute. split; reflexivity. Qed.

(* "#210ABCDEFGHIJ\n" delivered as "#" "2" "1" "0A" "" "BCDEFGHIJ\n": cuts inside the header digits *)
Example C15_ex_scpi_split :
  read_block_chunked true [10] [[35]; [50]; [49]; [48; 65]; []; [66; 67; 68; 69; 70; 71; 72; 73; 74; 10]] =
    (Ok [65; 66; 67; 68; 69; 70; 71; 72; 73; 74], ([], [])) /\
  read_block true [10] [35; 50; 49; 48; 65; 66; 67; 68; 69; 70; 71; 72; 73; 74; 10] =
    (Ok [65; 66; 67; 68; 69; 70; 71; 72; 73; 74], []).
Proof. vm_compute. split; reflexivity. Qed.
Example C15_ex_scpi_nonascii :
  scpi_write [77; 181] [10] = Err EUniEnc /\ ask [77; 181] [10] [10] (RMsg [49; 10]) = ([], Err EUniEnc).
Proof. vm_compute. split; reflexivity. Qed.

(* MOT_GET_USTATUSUPDATE layout; position -2, motor_current -1 *)
Example C15_ex_apt_fields :
  let L := [(FU 2, 1); (FS 4, 1); (FU 2, 1); (FS 2, 1); (FU 4, 1)]%nat in
  layout_wf L 14 = true /\
  pack L [[1]; [-2]; [3]; [-1]; [2147484672]]%Z = [1; 0; 254; 255; 255; 255; 3; 0; 255; 255; 0; 4; 0; 128] /\
  unpack L [1; 0; 254; 255; 255; 255; 3; 0; 255; 255; 0; 4; 0; 128] = [[1]; [-2]; [3]; [-1]; [2147484672]]%Z.
Proof. vm_compute. repeat split; reflexivity. Qed.
(* a MOT_MOVE_COMPLETED header (0x0464) is returned when MOT_MOVE_HOMED (0x0444) was expected *)
Example C15_ex_apt_header_only_unchecked :
  apt_ask false true 1092 6 [100; 4; 1; 0; 1; 80] = (Ok [100; 4; 1; 0; 1; 80], []) /\
  apt_ask true true 1092 6 [100; 4; 1; 0; 1; 80] = (Err EInstr, []).
Proof. vm_compute. split; reflexivity. Qed.

(* retry bound as a parameter: good reply on the 3rd read; bound 2 -> the payload, bound 1 -> an error *)
Example C15_ex_ib_attempt :
  let good := [13; 161; 15; 8; 97; 103; 97; 6; 211; 10] in
  snd (request_response ex_types 2 161 1 15 4 97 [] [RdTimeout; RdBytes [13; 1; 2; 10]; RdBytes good]) = ib_decode ex_types good /\
  snd (request_response ex_types 1 161 1 15 4 97 [] [RdTimeout; RdBytes [13; 1; 2; 10]; RdBytes good]) = Err EInstr.
Proof. vm_compute. split; reflexivity. Qed.
