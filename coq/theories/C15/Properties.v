(* placeholder; theorems follow *)
Require Import QV.C15.ModelBase.
