(* C15 — shared executable definitions for the five codec models (no proofs here). *)
From Coq Require Export List Arith ZArith NArith Bool Lia.
Export ListNotations.
Open Scope N_scope.

(* exception classes observed at the API, canonicalised by harness/c15.py *)
Inductive err :=
| EValue        (* ValueError *)
| EInstr        (* QMI_InstrumentException *)
| ETimeout      (* QMI_TimeoutException *)
| EStruct       (* struct.error *)
| EUniEnc       (* UnicodeEncodeError *)
| EUniDec       (* UnicodeDecodeError *)
| EExhausted    (* the harness' scripted endpoint ran out of replies (harness-private exception) *)
| EOutOfFuel.   (* model-only: never observed; excluded by the theorems *)

Inductive res (A : Type) := Ok (a : A) | Err (e : err).
Arguments Ok {A} a.
Arguments Err {A} e.

Definition err_eqb (a b : err) : bool :=
  match a, b with
  | EValue, EValue | EInstr, EInstr | ETimeout, ETimeout | EStruct, EStruct
  | EUniEnc, EUniEnc | EUniDec, EUniDec | EExhausted, EExhausted | EOutOfFuel, EOutOfFuel => true
  | _, _ => false
  end.

Definition res_eqb {A} (eqb : A -> A -> bool) (a b : res A) : bool :=
  match a, b with
  | Ok x, Ok y => eqb x y
  | Err e, Err f => err_eqb e f
  | _, _ => false
  end.

(* Correspondence on outcomes: the property fixes WHETHER a reply is turned into data or into an error,
   not the class or wording of the error.  Two errors correspond unless exactly one of them is the
   harness-private 'script exhausted' (which means the code went on reading, i.e. did not give up). *)
Definition err_sim (a b : err) : bool :=
  Bool.eqb (err_eqb a EExhausted) (err_eqb b EExhausted).
Definition res_sim {A} (eqb : A -> A -> bool) (a b : res A) : bool :=
  match a, b with
  | Ok x, Ok y => eqb x y
  | Err e, Err f => err_sim e f
  | _, _ => false
  end.

Definition byteb (b : N) : bool := b <? 256.
Definition len (l : list N) : N := N.of_nat (length l).

(* little-endian fixed-width integers (struct '<H', '<L') *)
Definition le16 (n : N) : list N := [n mod 256; (n / 256) mod 256].
Definition le32 (n : N) : list N :=
  [n mod 256; (n / 256) mod 256; (n / 65536) mod 256; (n / 16777216) mod 256].
Definition dec16 (b0 b1 : N) : N := b0 + 256 * b1.
Definition dec32 (b0 b1 b2 b3 : N) : N := b0 + 256 * b1 + 65536 * b2 + 16777216 * b3.

(* transport.read(n): exactly n bytes, or a timeout that consumes nothing (contract of C13) *)
Definition take (n : N) (s : list N) : option (list N * list N) :=
  if len s <? n then None else Some (firstn (N.to_nat n) s, skipn (N.to_nat n) s).

Fixpoint bytes_eqb (a b : list N) : bool :=
  match a, b with
  | [], [] => true
  | x :: a', y :: b' => (x =? y) && bytes_eqb a' b'
  | _, _ => false
  end.

(* bytes.endswith *)
Definition endswith (r t : list N) : bool :=
  (length t <=? length r)%nat && bytes_eqb (skipn (length r - length t) r) t.
