(* C15 / Thorlabs APT data packets field by field — executable model, no proofs.
   A packet class of /repo/qmi/instruments/thorlabs/apt_packets.py is a packed little-endian ctypes
   structure; its layout table (element type, element count per field) is regenerated from the
   class's ctypes _fields_ on every run by harness/translators/t_c15_apt.py into coq/gen/C15AptLayouts.v.
   pack   = bytes(structure with these field values)   (what write_data_command sends after the header)
   unpack = structure.from_buffer_copy(bytes), field by field   (what ask returns) *)
Require Export QV.C15.ModelBase.

Inductive fty :=
| FU (w : nat)      (* unsigned integer of w bytes: c_uint8 / c_uint16 / c_uint32 *)
| FS (w : nat)      (* two's complement signed integer of w bytes: c_int8 / c_int16 / c_int32 *)
| FC.               (* c_char: one raw byte *)
Definition field := (fty * nat)%type.        (* element type, number of elements (1 = scalar) *)
Definition layout := list field.

Definition width (ty : fty) : nat := match ty with FU w | FS w => w | FC => 1 end.
Definition pow8 (w : nat) : N := 2 ^ (8 * N.of_nat w).

Fixpoint le_bytes (w : nat) (n : N) : list N :=
  match w with O => [] | S k => n mod 256 :: le_bytes k (n / 256) end.
Fixpoint le_dec (bs : list N) : N :=
  match bs with [] => 0 | b :: r => b + 256 * le_dec r end.

Definition enc_elem (ty : fty) (v : Z) : list N :=
  match ty with
  | FU w => le_bytes w (Z.to_N v)
  | FS w => le_bytes w (Z.to_N (v mod Z.of_N (pow8 w)))
  | FC => [Z.to_N v]
  end.
Definition dec_elem (ty : fty) (bs : list N) : Z :=
  match ty with
  | FU _ | FC => Z.of_N (le_dec bs)
  | FS w => let u := le_dec bs in
            if u <? pow8 w / 2 then Z.of_N u else (Z.of_N u - Z.of_N (pow8 w))%Z
  end.
Definition elem_ok (ty : fty) (v : Z) : bool :=
  match ty with
  | FU w => (0 <=? v)%Z && (v <? Z.of_N (pow8 w))%Z
  | FS w => (- Z.of_N (pow8 w / 2) <=? v)%Z && (v <? Z.of_N (pow8 w / 2))%Z
  | FC => (0 <=? v)%Z && (v <? 256)%Z
  end.

Fixpoint pack (L : layout) (vss : list (list Z)) : list N :=
  match L, vss with
  | (ty, _) :: L', vs :: vss' => flat_map (enc_elem ty) vs ++ pack L' vss'
  | _, _ => []
  end.

Fixpoint unpack_elems (ty : fty) (n : nat) (bs : list N) : list Z * list N :=
  match n with
  | O => ([], bs)
  | S k => let '(vs, r) := unpack_elems ty k (skipn (width ty) bs) in
           (dec_elem ty (firstn (width ty) bs) :: vs, r)
  end.
Fixpoint unpack (L : layout) (bs : list N) : list (list Z) :=
  match L with
  | [] => []
  | (ty, n) :: L' => let '(vs, r) := unpack_elems ty n bs in vs :: unpack L' r
  end.

Fixpoint layout_size (L : layout) : nat :=
  match L with [] => 0 | (ty, n) :: L' => width ty * n + layout_size L' end.

Definition field_wf (f : field) : bool :=
  (1 <=? snd f)%nat &&
  match fst f with
  | FU w | FS w => (w =? 1)%nat || (w =? 2)%nat || (w =? 4)%nat
  | FC => true
  end.
(* every field is a 1/2/4-byte integer or chars, no empty arrays, the sizes add up to sizeof (no
   padding: _pack_ = 1) and the packet fits the 16-bit data_length of the header *)
Definition layout_wf (L : layout) (sizeof : N) : bool :=
  forallb field_wf L && (N.of_nat (layout_size L) =? sizeof) && (sizeof <? 65536).

(* ctypes returns a c_char array field as the bytes before the first NUL *)
Fixpoint until_nul (vs : list Z) : list Z :=
  match vs with [] => [] | v :: r => if (v =? 0)%Z then [] else v :: until_nul r end.
Fixpoint view (L : layout) (vss : list (list Z)) : list (list Z) :=
  match L, vss with
  | (FC, _) :: L', vs :: vss' => until_nul vs :: view L' vss'
  | _ :: L', vs :: vss' => vs :: view L' vss'
  | _, _ => []
  end.
