(* C15 / PicoQuant T2 — lemmas about ModelT2.v *)
From Coq Require Import ZArith NArith List Bool Lia ZifyBool ZifyNat ZifyN.
Require Import QV.C15.ModelBase QV.C15.ModelT2.
Import ListNotations.
Ltac Zify.zify_post_hook ::= Z.to_euclidean_division_equations.
Open Scope N_scope.

Lemma t2_decode_app a : forall ovf b,
  t2_decode ovf (a ++ b) =
    let '(o1, e1) := t2_decode ovf a in
    let '(o2, e2) := t2_decode o1 b in (o2, e1 ++ e2).
Proof.
  induction a as [|r a IH]; intros ovf b; cbn [app t2_decode].
  - destruct (t2_decode ovf b). reflexivity.
  - destruct (t2_step ovf r) as [o1 e1]. rewrite IH.
    destruct (t2_decode o1 a) as [o2 e2]. destruct (t2_decode o2 b) as [o3 e3].
    rewrite app_assoc. reflexivity.
Qed.

(* batching invariance: any way of cutting the stream gives the same events and counter *)
Lemma t2_batches_concat bs : forall ovf,
  t2_decode ovf (concat bs) =
    let '(o, es) := t2_batches ovf bs in (o, concat es).
Proof.
  induction bs as [|b bs IH]; intro ovf; cbn [concat t2_batches t2_decode]; [reflexivity|].
  rewrite t2_decode_app. destruct (t2_decode ovf b) as [o1 e1]. rewrite IH.
  destruct (t2_batches o1 bs) as [o2 es]. reflexivity.
Qed.

(* the counter after a prefix: start value plus the plain sum of increments, wrapped once *)
Lemma t2_counter pre : forall ovf, ovf < W64 ->
  fst (t2_decode ovf pre) = (ovf + ovf_sum pre) mod W64.
Proof.
  unfold W64. induction pre as [|r pre IH]; intros ovf H; cbn [t2_decode ovf_sum fst].
  - rewrite N.add_0_r. symmetry. apply N.mod_small. exact H.
  - unfold t2_step. destruct (is_ovf r).
    + specialize (IH ((ovf + rec_tag r) mod 18446744073709551616)).
      destruct (t2_decode _ pre) as [o2 e2]. cbn [fst] in *. rewrite IH by (apply N.mod_lt; discriminate).
      rewrite N.add_mod_idemp_l by discriminate. f_equal. lia.
    + specialize (IH ovf H). destruct (t2_decode ovf pre) as [o2 e2]. cbn [fst] in *. rewrite IH. f_equal.
Qed.

Lemma t2_event pre r post ovf : ovf < W64 -> is_ovf r = false ->
  snd (t2_decode ovf (pre ++ r :: post)) =
    snd (t2_decode ovf pre) ++
    (rec_type r, (((ovf + ovf_sum pre) mod W64) * PERIOD + rec_tag r) mod W64) ::
    snd (t2_decode ((ovf + ovf_sum pre) mod W64) post).
Proof.
  intros H Hr. rewrite t2_decode_app. pose proof (t2_counter pre ovf H) as C.
  destruct (t2_decode ovf pre) as [o1 e1]. cbn [fst snd] in *. subst o1.
  cbn [t2_decode]. unfold t2_step. rewrite Hr.
  destruct (t2_decode _ post) as [o2 e2]. reflexivity.
Qed.

Lemma t2_overflow pre r post ovf : ovf < W64 -> is_ovf r = true ->
  snd (t2_decode ovf (pre ++ r :: post)) =
    snd (t2_decode ovf pre) ++ snd (t2_decode ((ovf + ovf_sum pre + rec_tag r) mod W64) post).
Proof.
  intros H Hr. rewrite t2_decode_app. pose proof (t2_counter pre ovf H) as C.
  destruct (t2_decode ovf pre) as [o1 e1]. cbn [fst snd] in *. subst o1.
  cbn [t2_decode]. unfold t2_step. rewrite Hr.
  rewrite N.add_mod_idemp_l by discriminate.
  destruct (t2_decode _ post) as [o2 e2]. reflexivity.
Qed.

Lemma t2_count recs : forall ovf,
  length (snd (t2_decode ovf recs)) = length (filter (fun r => negb (is_ovf r)) recs).
Proof.
  induction recs as [|r recs IH]; intro ovf; cbn [t2_decode filter]; [reflexivity|].
  unfold t2_step. destruct (is_ovf r); cbn [negb].
  - specialize (IH ((ovf + rec_tag r) mod W64)). destruct (t2_decode _ recs). exact IH.
  - specialize (IH ovf). destruct (t2_decode ovf recs). cbn [snd app length] in *. congruence.
Qed.

Lemma rec_fields r : r < 4294967296 ->
  rec_type r = r / PERIOD /\ rec_type r < 128 /\ rec_tag r = r mod PERIOD /\ r = rec_type r * PERIOD + rec_tag r.
Proof.
  intro H. unfold rec_type, rec_tag, PERIOD. change 33554431 with (N.ones 25). rewrite N.land_ones.
  change (2 ^ 25) with 33554432. lia.
Qed.

(* ---------- relation to the physical meaning, across the uint64 wrap --------------------------- *)
(* Whatever the true overflow count T (also beyond 2^64, and beyond 2^39 where T*2^25 leaves
   uint64), the decoder started with T mod 2^64 emits exactly one event per true event, in order,
   same type, timestamp = true time mod 2^64; its counter stays T mod 2^64. *)
Lemma t2_refines_true recs : forall T,
  t2_decode (T mod W64) recs = (fst (t2_true T recs) mod W64, map wrap_ev (snd (t2_true T recs))).
Proof.
  unfold W64. induction recs as [|r recs IH]; intro T; cbn [t2_decode t2_true]; [reflexivity|].
  unfold t2_step. destruct (is_ovf r).
  - rewrite N.add_mod_idemp_l by discriminate. rewrite IH.
    destruct (t2_true (T + rec_tag r) recs) as [T' e]. reflexivity.
  - rewrite IH. destruct (t2_true T recs) as [T' e]. cbn [fst snd map app]. f_equal. f_equal.
    unfold wrap_ev. cbn [fst snd]. f_equal. unfold W64.
    rewrite <- (N.add_mod_idemp_l (T mod _ * PERIOD)) by discriminate.
    rewrite N.mul_mod_idemp_l by discriminate. rewrite N.add_mod_idemp_l by discriminate. reflexivity.
Qed.

Lemma t2_no_loss recs T :
  length (snd (t2_decode (T mod W64) recs)) = length (snd (t2_true T recs)) /\
  map fst (snd (t2_decode (T mod W64) recs)) = map fst (snd (t2_true T recs)).
Proof.
  rewrite t2_refines_true. cbn [snd]. rewrite map_length, map_map. split; reflexivity.
Qed.

(* while the true times fit in 64 bits the timestamps are the true times *)
Lemma t2_exact recs T :
  Forall (fun e => snd e < W64) (snd (t2_true T recs)) ->
  snd (t2_decode (T mod W64) recs) = snd (t2_true T recs).
Proof.
  intro F. rewrite t2_refines_true. cbn [snd]. induction F as [|[ty t] l H _ IH]; [reflexivity|].
  cbn [map]. rewrite IH. unfold wrap_ev. cbn [fst snd] in *. rewrite N.mod_small by exact H. reflexivity.
Qed.
