(* C15 / USBTMC — executable model, no proofs.
   Transcribes /repo/qmi/core/usbtmc.py: Instrument.pack_bulk_out_header,
   pack_dev_dep_msg_out_header, pack_dev_dep_msg_in_header (term_char None),
   unpack_dev_dep_resp_header, write_raw, read_raw (quirk flags off, no USB error).
   Bulk endpoints are a write log and a script of responses. *)
Require Export QV.C15.ModelBase.

(* self.last_btag = btag = (self.last_btag % 255) + 1 *)
Definition next_tag (t : N) : N := t mod 255 + 1.

(* struct.pack('BBBx', msgid, btag, ~btag & 0xFF); btag is in 1..255 so ~btag & 0xFF = 255 - btag *)
Definition bulk_out_header (msgid tag : N) : list N := [msgid; tag; 255 - tag; 0].

(* hdr + struct.pack("<LBxxx", transfer_size, eom) *)
Definition out_header (tag size : N) (eom : bool) : list N :=
  bulk_out_header 1 tag ++ le32 size ++ [if eom then 1 else 0; 0; 0; 0].

(* hdr + struct.pack("<LBBxx", transfer_size, 0, 0)   (term_char is None) *)
Definition in_request (tag size : N) : list N :=
  bulk_out_header 2 tag ++ le32 size ++ [0; 0; 0; 0].

Definition padding (size : N) : list N := repeat 0 (N.to_nat ((4 - size mod 4) mod 4)).

(* write_raw's while loop.  fuel = number of iterations allowed; each consumes >= 1 byte when
   mts >= 1.  eom is the (sticky) python variable. Returns transfers written and last_btag. *)
Fixpoint wr_loop (fuel : nat) (data : list N) (mts : nat) (tag : N) (eom : bool)
  : option (list (list N) * N) :=
  match data with
  | [] => Some ([], tag)                                   (* while num > 0 *)
  | _ :: _ =>
      match fuel with
      | O => None
      | S f =>
          let eom' := if (length data <=? mts)%nat then true else eom in
          let block := firstn mts data in
          let size := len block in
          let t := next_tag tag in
          let req := out_header t size eom' ++ block ++ padding size in
          match wr_loop f (skipn (length block) data) mts t eom' with
          | Some (ts, t') => Some (req :: ts, t')
          | None => None
          end
      end
  end.

Definition write_raw (data : list N) (mts : nat) (tag : N) : option (list (list N) * N) :=
  wr_loop (length data) data mts tag false.

(* ---- read_raw ------------------------------------------------------------------------ *)
(* python slice data[12 : transfer_size + 12] *)
Definition resp_data (resp : list N) (tsize : N) : list N :=
  let body := skipn 12 resp in
  if len body <? tsize then body else firstn (N.to_nat tsize) body.

Record rd_out := mk_rd { rd_reqs : list (list N); rd_tag : N; rd_res : res (list N) }.

(* one loop iteration per scripted response.  num : Z as in python (-1 = everything). *)
Fixpoint rd_loop (script : list (list N)) (num : Z) (read_len : N) (tag : N)
                 (reqs : list (list N)) (acc : list N) : rd_out :=
  let t := next_tag tag in
  let reqs' := reqs ++ [in_request t read_len] in
  match script with
  | [] => mk_rd reqs' t (Err EExhausted)
  | resp :: rest =>
      match resp with
      | _ :: _ :: _ :: _ :: b4 :: b5 :: b6 :: b7 :: attr :: _ :: _ :: _ :: _ =>
          let tsize := dec32 b4 b5 b6 b7 in
          let data := resp_data resp tsize in
          let eom := if tsize <=? len data then N.odd attr else false in
          let acc' := acc ++ data in
          if (0 <? num)%Z then
            let num' := (num - Z.of_N (len data))%Z in
            if (num' <=? 0)%Z then mk_rd reqs' t (Ok acc')
            else
              let read_len' := if (num' <? Z.of_N read_len)%Z then Z.to_N num' else read_len in
              if eom then mk_rd reqs' t (Ok acc') else rd_loop rest num' read_len' t reqs' acc'
          else
            if eom then mk_rd reqs' t (Ok acc') else rd_loop rest num read_len t reqs' acc'
      | _ => mk_rd reqs' t (Err EStruct)               (* struct.unpack_from: buffer too small *)
      end
  end.

Definition read_raw (num : Z) (mts : N) (tag : N) (script : list (list N)) : rd_out :=
  let read_len := if ((0 <? num) && (num <? Z.of_N mts))%Z then Z.to_N num else mts in
  rd_loop script num read_len tag [] [].

(* ---- reference device ("conforming device" of USBTMC 1.0 section 3.2/3.3) ---------------- *)
(* Receives Bulk-OUT transfers; checks MsgID=1, bTag != 0, bTag = successor of the previous one,
   bTagInverse, reserved bytes 0, total length = 12 + size + alignment with zero alignment bytes,
   EOM exactly on the last transfer; returns the reassembled message and the last tag. *)
Definition dev_parse_out (prev : N) (tr : list N) : option (list N * bool * N) :=
  match tr with
  | mid :: tg :: inv :: z :: b4 :: b5 :: b6 :: b7 :: at_ :: r1 :: r2 :: r3 :: body =>
      let size := dec32 b4 b5 b6 b7 in
      if (mid =? 1) && negb (tg =? 0) && (tg <? 256) && (tg =? (if prev =? 255 then 1 else prev + 1))
         && (inv + tg =? 255) && (z =? 0) && (at_ <? 2) && (r1 =? 0) && (r2 =? 0) && (r3 =? 0)
         && (len body =? size + (4 - size mod 4) mod 4)
         && forallb (N.eqb 0) (skipn (N.to_nat size) body)
      then Some (firstn (N.to_nat size) body, N.odd at_, tg) else None
  | _ => None
  end.

Fixpoint dev_recv (prev : N) (trs : list (list N)) : option (list N * N) :=
  match trs with
  | [] => None
  | tr :: rest =>
      match dev_parse_out prev tr with
      | None => None
      | Some (d, eom, tg) =>
          match rest with
          | [] => if eom then Some (d, tg) else None
          | _ :: _ => if eom then None else
                        match dev_recv tg rest with Some (d', t') => Some (d ++ d', t') | None => None end
          end
      end
  end.

(* a conforming Bulk-IN response: header (MsgID 2, any tag bytes), LE size, EOM bit, payload, padding *)
Definition in_response (tag inv : N) (chunk : list N) (eom : bool) (pad : list N) : list N :=
  [2; tag; inv; 0] ++ le32 (len chunk) ++ [if eom then 1 else 0; 0; 0; 0] ++ chunk ++ pad.

(* the device's side of a read: chunks (payload, alignment bytes, tag byte, inverse byte) sent as
   successive Bulk-IN transfers, EOM on the last one *)
Definition chunk := (list N * list N * N * N)%type.
Definition chunk_data (c : chunk) : list N := fst (fst (fst c)).
Fixpoint dev_script (cs : list chunk) : list (list N) :=
  match cs with
  | [] => []
  | (c, p, t, i) :: rest =>
      in_response t i c (match rest with [] => true | _ => false end) p :: dev_script rest
  end.

(* the requests read_raw is expected to write: one per transfer, consecutive tags *)
Fixpoint req_seq (tag rl : N) (n : nat) : list (list N) :=
  match n with
  | O => []
  | S k => in_request (next_tag tag) rl :: req_seq (next_tag tag) rl k
  end.

(* read_raw(num) with num > 0 (caller limits the size).  The exchanges that take place between a
   host limited to num bytes and a device holding the chunks cs: the host asks for
   min(max_transfer_size, bytes still wanted) and stops as soon as it has num bytes (or at EOM). *)
Fixpoint served (num mts : N) (cs : list chunk) : list (N * chunk) :=
  match cs with
  | [] => []
  | c :: rest =>
      (N.min mts num, c) ::
      (if num <=? len (chunk_data c) then [] else served (num - len (chunk_data c)) mts rest)
  end.

Fixpoint reqs_of (tag : N) (l : list (N * chunk)) : list (list N) :=
  match l with
  | [] => []
  | (w, _) :: r => in_request (next_tag tag) w :: reqs_of (next_tag tag) r
  end.

(* ---- vendor quirks (Instrument._handle_vendor_quirks), as far as they concern write_raw ------- *)
(* returns (max_transfer_size, advantest_quirk, rigol_quirk, rigol_quirk_ieee_block) *)
Definition vendor_quirks (id_vendor id_product : N) : N * bool * bool * bool :=
  let adv := id_vendor =? 4916 in                                         (* 0x1334 Advantest/ADCMT *)
  let rigol := (id_vendor =? 6833) && ((id_product =? 1230) || (id_product =? 1416)) in   (* 0x1ab1; 0x04ce, 0x0588 *)
  (if adv then 63 else 1048576, adv, rigol, rigol && (id_product =? 1230)).

Definition write_raw_quirk (id_vendor id_product : N) (data : list N) (tag : N) :=
  let '(mts, _, _, _) := vendor_quirks id_vendor id_product in write_raw data (N.to_nat mts) tag.
