(* C15 correspondence: one case constructor per driven entry point; every constructor carries the
   inputs and the result observed on the real QMI code (harness/c15.py). *)
Require Export QV.Lib.Corr QV.C15.ModelBase QV.C15.ModelIB QV.C15.ModelUsbtmc QV.C15.ModelT2
               QV.C15.ModelScpi QV.C15.ModelApt QV.C15.ModelAptFields.

Definition bl_eqb := list_eqb bytes_eqb.
Definition ev_eqb (a b : N * N) : bool := (fst a =? fst b) && (snd a =? snd b).

Inductive case :=
(* Interbus *)
| CIbEnc (dst src mt reg : N) (data : list N) (obs : res (list N))
| CIbDec (types : list N) (frame : list N) (obs : res msg)
| CIbRR (types : list N) (maxr : nat) (base : N) (toggle dst mt reg : N) (data : list N) (script : list rd)
        (obs_toggle : N) (obs_writes : list (list N)) (obs : res msg)
(* USBTMC *)
| CUsbW (data : list N) (mts : nat) (tag : N) (obs_transfers : list (list N)) (obs_tag : N)
| CUsbR (num : Z) (mts tag : N) (script : list (list N))
        (obs_reqs : list (list N)) (obs_tag : N) (obs : res (list N))
(* PicoQuant T2 *)
| CT2 (ovf : N) (batches : list (list N)) (obs_ovf : N) (obs : list (list (N * N)))
(* SCPI *)
| CScpiBlock (flag : bool) (term stream : list N) (obs : res (list N)) (obs_rest : list N)
| CScpiAsk (cmd cterm rterm : list N) (r : reply) (obs_writes : list (list N)) (obs : res (list N))
(* APT *)
| CAptParam (dev host id p1 p2 : N) (obs : list N)
| CAptData (dev host id : N) (payload : list N) (obs : list N)
| CAptAsk (ho_check : bool) (header_only : bool) (id sizeof : N) (stream : list N) (obs : res (list N)) (obs_rest : list N)
(* second round *)
(* write_raw after _handle_vendor_quirks: the live max_transfer_size (obs_mts) is a parameter *)
| CUsbQuirkW (vendor product : N) (data : list N) (tag : N) (obs_mts : N) (obs_adv obs_rigol obs_ieee : bool)
             (obs_transfers : list (list N)) (obs_tag : N)
| CScpiBlockCh (flag : bool) (term : list N) (transfers : list (list N)) (obs : res (list N)) (obs_rest : list N)
| CScpiWrite (cmd cterm : list N) (obs : res (list (list N)))
| CAptFields (L : layout) (bytes : list N) (obs : list (list Z))      (* from_buffer_copy, field by field *)
| CAptPack (L : layout) (vss : list (list Z)) (obs : list N).          (* bytes(structure) *)

Definition zl_eqb := list_eqb (list_eqb Z.eqb).

(* how many bytes have been consumed when an error is raised is not fixed by the property: the unread
   rest is compared only when data is returned *)
Definition rest_sim {A} (r : res A) (rest orest : list N) : bool :=
  match r with Ok _ => bytes_eqb rest orest | Err _ => true end.

Definition check_case (c : case) : bool :=
  match c with
  | CIbEnc d s t g data obs => res_sim bytes_eqb (ib_encode (mkmsg d s t g data)) obs
  | CIbDec ty f obs => res_sim msg_eqb (ib_decode ty f) obs
  | CIbRR ty maxr base tg d t g data script otg ow obs =>
      let '(mt, mw, mr) := request_response ty maxr base tg d t g data script in
      (mt =? otg) && bl_eqb mw ow && res_sim msg_eqb mr obs
  | CUsbW data mts tag otr otag =>
      match write_raw data mts tag with
      | Some (tr, t) => bl_eqb tr otr && (t =? otag)
      | None => false
      end
  | CUsbR num mts tag script oreqs otag obs =>
      let o := read_raw num mts tag script in
      bl_eqb (rd_reqs o) oreqs && (rd_tag o =? otag) && res_sim bytes_eqb (rd_res o) obs
  | CT2 ovf bs oovf obs =>
      let '(o, es) := t2_batches ovf bs in (o =? oovf) && list_eqb (list_eqb ev_eqb) es obs
  | CScpiBlock flag term s obs orest =>
      let '(r, rest) := read_block flag term s in res_sim bytes_eqb r obs && rest_sim r rest orest
  | CScpiAsk cmd ct rt r ow obs =>
      let '(w, x) := ask cmd ct rt r in bl_eqb w ow && res_sim bytes_eqb x obs
  | CAptParam dev host id p1 p2 obs => bytes_eqb (write_param_command dev host id p1 p2) obs
  | CAptData dev host id payload obs => bytes_eqb (write_data_command dev host id payload) obs
  | CAptAsk hc ho id sz s obs orest =>
      let '(r, rest) := apt_ask hc ho id sz s in res_sim bytes_eqb r obs && rest_sim r rest orest
  | CUsbQuirkW v p data tag omts oadv orig oieee otr otag =>
      match write_raw data (N.to_nat omts) tag with
      | Some (tr, t) => bl_eqb tr otr && (t =? otag)
      | None => false
      end
  | CScpiBlockCh flag term trs obs orest =>
      let '(r, st) := read_block_chunked flag term trs in res_sim bytes_eqb r obs && rest_sim r (cflat st) orest
  | CScpiWrite cmd ct obs => res_sim bl_eqb (scpi_write cmd ct) obs
  | CAptFields L bytes obs => zl_eqb (view L (unpack L bytes)) obs
  | CAptPack L vss obs => bytes_eqb (pack L vss) obs
  end.

(* informational (not part of the verdict): does the model's table of vendor quirks still describe
   the live _handle_vendor_quirks?  The quirk values are tuning the property does not fix. *)
Definition quirk_agrees (c : case) : bool :=
  match c with
  | CUsbQuirkW v p _ _ omts oadv orig oieee _ _ =>
      let '(mts, adv, rig, ieee) := vendor_quirks v p in
      (mts =? omts) && Bool.eqb adv oadv && Bool.eqb rig orig && Bool.eqb ieee oieee
  | _ => true
  end.

(* the model's side of a case, for replay printing *)
Inductive mout :=
| MBytes (r : res (list N)) | MMsg (r : res msg) | MRR (t : N) (w : list (list N)) (r : res msg)
| MUsbW (o : option (list (list N) * N)) | MUsbR (o : rd_out) | MT2 (o : N * list (list (N * N)))
| MBlock (o : res (list N) * list N) | MAsk (o : list (list N) * res (list N)) | MRaw (b : list N)
| MQuirk (q : N * bool * bool * bool) (o : option (list (list N) * N)) | MWrite (o : res (list (list N)))
| MFields (o : list (list Z)).

Definition model_out (c : case) : mout :=
  match c with
  | CIbEnc d s t g data _ => MBytes (ib_encode (mkmsg d s t g data))
  | CIbDec ty f _ => MMsg (ib_decode ty f)
  | CIbRR ty maxr base tg d t g data script _ _ _ =>
      let '(mt, mw, mr) := request_response ty maxr base tg d t g data script in MRR mt mw mr
  | CUsbW data mts tag _ _ => MUsbW (write_raw data mts tag)
  | CUsbR num mts tag script _ _ _ => MUsbR (read_raw num mts tag script)
  | CT2 ovf bs _ _ => MT2 (t2_batches ovf bs)
  | CScpiBlock flag term s _ _ => MBlock (read_block flag term s)
  | CScpiAsk cmd ct rt r _ _ => MAsk (ask cmd ct rt r)
  | CAptParam dev host id p1 p2 _ => MRaw (write_param_command dev host id p1 p2)
  | CAptData dev host id payload _ => MRaw (write_data_command dev host id payload)
  | CAptAsk hc ho id sz s _ _ => MBlock (apt_ask hc ho id sz s)
  | CUsbQuirkW v p data tag omts _ _ _ _ _ => MQuirk (vendor_quirks v p) (write_raw data (N.to_nat omts) tag)
  | CScpiBlockCh flag term trs _ _ =>
      let '(r, st) := read_block_chunked flag term trs in MBlock (r, cflat st)
  | CScpiWrite cmd ct _ => MWrite (scpi_write cmd ct)
  | CAptFields L bytes _ => MFields (view L (unpack L bytes))
  | CAptPack L vss _ => MRaw (pack L vss)
  end.
