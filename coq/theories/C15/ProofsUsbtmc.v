(* C15 / USBTMC — lemmas about ModelUsbtmc.v *)
From Coq Require Import ZArith NArith List Bool Lia ZifyBool ZifyNat ZifyN.
Require Import QV.C15.ModelBase QV.C15.ModelUsbtmc.
Import ListNotations.
Ltac Zify.zify_post_hook ::= Z.to_euclidean_division_equations.
Open Scope N_scope.

Lemma next_tag_range t : 1 <= next_tag t <= 255.
Proof. unfold next_tag. lia. Qed.
Lemma next_tag_wrap : next_tag 255 = 1.
Proof. reflexivity. Qed.
Lemma next_tag_succ t : t < 255 -> next_tag t = t + 1.
Proof. unfold next_tag. lia. Qed.

Lemma dec32_le32 n : n < 4294967296 ->
  dec32 (n mod 256) ((n / 256) mod 256) ((n / 65536) mod 256) ((n / 16777216) mod 256) = n.
Proof. unfold dec32. lia. Qed.

Lemma forallb_repeat0 k : forallb (N.eqb 0) (repeat 0 k) = true.
Proof. induction k; [reflexivity|]. cbn [repeat forallb]. rewrite IHk. reflexivity. Qed.

Lemma len_app a b : len (a ++ b) = len a + len b.
Proof. unfold len. rewrite app_length. lia. Qed.

Lemma len_padding s : len (padding s) = (4 - s mod 4) mod 4.
Proof. unfold len, padding. rewrite repeat_length. lia. Qed.

Lemma to_nat_len l : N.to_nat (len l) = length l.
Proof. unfold len. lia. Qed.

(* the reference device accepts one transfer produced by write_raw's loop body *)
Lemma dev_parse_out_ok prev block eom :
  prev <= 255 -> len block < 4294967296 ->
  dev_parse_out prev (out_header (next_tag prev) (len block) eom ++ block ++ padding (len block))
  = Some (block, eom, next_tag prev).
Proof.
  intros Hp Hb. unfold out_header, bulk_out_header, le32. cbn [app]. unfold dev_parse_out.
  rewrite (dec32_le32 _ Hb).
  set (t := next_tag prev). assert (Ht : 1 <= t <= 255) by apply next_tag_range.
  assert (Hs : t = if prev =? 255 then 1 else prev + 1).
  { subst t. destruct (prev =? 255) eqn:E; [apply N.eqb_eq in E; subst; reflexivity|].
    apply next_tag_succ. lia. }
  rewrite <- Hs. rewrite len_app, len_padding. rewrite to_nat_len.
  rewrite skipn_app, skipn_all, Nat.sub_diag. cbn [skipn app]. unfold padding at 1. rewrite forallb_repeat0.
  rewrite firstn_app, firstn_all, Nat.sub_diag. cbn [firstn]. rewrite app_nil_r.
  replace (1 =? 1) with true by reflexivity. replace (0 =? 0) with true by reflexivity.
  replace (negb (t =? 0)) with true by lia. replace (t <? 256) with true by lia.
  rewrite N.eqb_refl. replace (255 - t + t =? 255) with true by lia. rewrite N.eqb_refl.
  destruct eom; reflexivity.
Qed.

Lemma dev_recv_nonempty prev ts r : dev_recv prev ts = Some r -> ts <> [].
Proof. intros H ->. discriminate. Qed.

Lemma wr_loop_nil f mts t e : wr_loop f [] mts t e = Some ([], t).
Proof. destruct f; reflexivity. Qed.

Lemma wr_loop_ok (mts : nat) : (1 <= mts)%nat -> N.of_nat mts < 4294967296 ->
  forall fuel data tag,
  (length data <= fuel)%nat -> data <> [] -> tag <= 255 ->
  exists ts t', wr_loop fuel data mts tag false = Some (ts, t') /\
                dev_recv tag ts = Some (data, t') /\ 1 <= t' <= 255 /\
                Forall (fun tr => (length tr mod 4 = 0)%nat) ts.
Proof.
  intros Hm Hm32. induction fuel as [|f IH]; intros data tag Hl Hne Ht.
  - destruct data; [contradiction|cbn in Hl; lia].
  - destruct data as [|x data']; [contradiction|]. set (data := x :: data') in *.
    cbn [wr_loop]. fold data.
    set (block := firstn mts data). set (t := next_tag tag).
    assert (Htr : 1 <= t <= 255) by apply next_tag_range.
    assert (Hbl : (length block = Nat.min mts (length data))%nat) by apply firstn_length.
    assert (Hb32 : len block < 4294967296) by (unfold len; lia).
    assert (Hal : forall e, (length (out_header t (len block) e ++ block ++ padding (len block)) mod 4 = 0)%nat).
    { intro e. rewrite !app_length. unfold padding. rewrite repeat_length. unfold out_header, bulk_out_header, le32.
      cbn [length app]. unfold len. lia. }
    destruct (length data <=? mts)%nat eqn:E.
    + apply Nat.leb_le in E.
      assert (B : block = data) by (apply firstn_all2; exact E).
      assert (S0 : skipn (length block) data = []) by (rewrite B; apply skipn_all).
      rewrite S0, wr_loop_nil.
      eexists; eexists; split; [reflexivity|]. split; [|split; [exact Htr|constructor; [apply Hal|constructor]]].
      cbn [dev_recv]. unfold t. rewrite (dev_parse_out_ok tag block true Ht Hb32). rewrite B. reflexivity.
    + apply Nat.leb_gt in E.
      assert (Lb : length block = mts) by lia. rewrite Lb.
      assert (Hr : skipn mts data <> []).
      { intro Z. apply (f_equal (@length N)) in Z. rewrite skipn_length in Z. cbn [length] in Z. lia. }
      assert (Hrl : (length (skipn mts data) <= f)%nat).
      { rewrite skipn_length. subst data. cbn [length] in *. lia. }
      destruct (IH (skipn mts data) t Hrl Hr ltac:(lia)) as (ts & t' & W & D & T' & A).
      rewrite W. eexists; eexists; split; [reflexivity|]. split; [|split; [exact T'|constructor; [apply Hal|exact A]]].
      cbn [dev_recv]. unfold t. rewrite (dev_parse_out_ok tag block false Ht Hb32). fold t.
      pose proof (dev_recv_nonempty _ _ _ D) as Hts. destruct ts as [|tr ts]; [contradiction|].
      rewrite D. unfold block. rewrite firstn_skipn. reflexivity.
Qed.

Lemma write_raw_ok data mts tag :
  (1 <= mts)%nat -> N.of_nat mts < 4294967296 -> data <> [] -> tag <= 255 ->
  exists ts t', write_raw data mts tag = Some (ts, t') /\ dev_recv tag ts = Some (data, t') /\
                1 <= t' <= 255 /\ Forall (fun tr => (length tr mod 4 = 0)%nat) ts.
Proof. intros. apply wr_loop_ok; auto. Qed.

Lemma write_raw_empty mts tag : write_raw [] mts tag = Some ([], tag).
Proof. reflexivity. Qed.

(* ---------- read_raw -------------------------------------------------------------------- *)
Lemma rd_loop_step t i c e p rest rl tag reqs acc : len c < 4294967296 ->
  rd_loop (in_response t i c e p :: rest) (-1) rl tag reqs acc =
    if e then mk_rd (reqs ++ [in_request (next_tag tag) rl]) (next_tag tag) (Ok (acc ++ c))
    else rd_loop rest (-1) rl (next_tag tag) (reqs ++ [in_request (next_tag tag) rl]) (acc ++ c).
Proof.
  intro H. unfold in_response, le32. cbn [app rd_loop]. rewrite (dec32_le32 _ H).
  unfold resp_data. cbn [skipn]. rewrite len_app. replace (len c + len p <? len c) with false by lia.
  rewrite to_nat_len, firstn_app, firstn_all, Nat.sub_diag. cbn [firstn]. rewrite app_nil_r.
  replace (len c <=? len c) with true by lia. replace (0 <? -1)%Z with false by reflexivity.
  destruct e; reflexivity.
Qed.

Lemma iter_shift {A} (f : A -> A) n x : Nat.iter n f (f x) = Nat.iter (S n) f x.
Proof. induction n as [|n IH]; [reflexivity|]. change (Nat.iter (S n) f (f x)) with (f (Nat.iter n f (f x))). rewrite IH. reflexivity. Qed.

Lemma rd_loop_conforming rl extra : forall cs tag reqs acc,
  cs <> [] -> Forall (fun c => len (chunk_data c) < 4294967296) cs ->
  rd_loop (dev_script cs ++ extra) (-1) rl tag reqs acc =
    mk_rd (reqs ++ req_seq tag rl (length cs)) (Nat.iter (length cs) next_tag tag)
          (Ok (acc ++ concat (map chunk_data cs))).
Proof.
  induction cs as [|[[[c p] t] i] cs IH]; intros tag reqs acc NE F; [contradiction|].
  inversion F as [|? ? Hc F']; subst. cbn [chunk_data fst] in Hc.
  cbn [dev_script app]. rewrite rd_loop_step by exact Hc.
  destruct cs as [|c2 cs].
  - cbn [length req_seq map concat Nat.iter nat_rect chunk_data fst]. rewrite app_nil_r. reflexivity.
  - rewrite IH by (try discriminate; exact F').
    set (rest := c2 :: cs). cbn [length req_seq map concat chunk_data fst].
    rewrite <- !app_assoc. cbn [app]. rewrite iter_shift. reflexivity.
Qed.

Lemma read_raw_conforming mts tag cs extra :
  cs <> [] -> Forall (fun c => len (chunk_data c) < 4294967296) cs ->
  read_raw (-1) mts tag (dev_script cs ++ extra) =
    mk_rd (req_seq tag mts (length cs)) (Nat.iter (length cs) next_tag tag)
          (Ok (concat (map chunk_data cs))).
Proof. intros NE F. unfold read_raw. cbn [Z.ltb Z.compare andb]. apply (rd_loop_conforming mts extra cs tag [] [] NE F). Qed.

(* ---------- read_raw with a size limit (num > 0) ------------------------------------------- *)
Lemma rd_loop_step_pos t i c e p rest rl tag reqs acc (num : N) : len c < 4294967296 -> 0 < num ->
  rd_loop (in_response t i c e p :: rest) (Z.of_N num) rl tag reqs acc =
    if num <=? len c then mk_rd (reqs ++ [in_request (next_tag tag) rl]) (next_tag tag) (Ok (acc ++ c))
    else if e then mk_rd (reqs ++ [in_request (next_tag tag) rl]) (next_tag tag) (Ok (acc ++ c))
    else rd_loop rest (Z.of_N (num - len c)) (N.min rl (num - len c)) (next_tag tag)
                 (reqs ++ [in_request (next_tag tag) rl]) (acc ++ c).
Proof.
  intros H Hn. unfold in_response, le32. cbn [app rd_loop]. rewrite (dec32_le32 _ H).
  unfold resp_data. cbn [skipn]. rewrite len_app. replace (len c + len p <? len c) with false by lia.
  rewrite to_nat_len, firstn_app, firstn_all, Nat.sub_diag. cbn [firstn]. rewrite app_nil_r.
  replace (len c <=? len c) with true by lia. replace (0 <? Z.of_N num)%Z with true by lia.
  destruct (num <=? len c) eqn:E.
  - replace (Z.of_N num - Z.of_N (len c) <=? 0)%Z with true by lia. reflexivity.
  - replace (Z.of_N num - Z.of_N (len c) <=? 0)%Z with false by lia.
    replace (Z.of_N num - Z.of_N (len c))%Z with (Z.of_N (num - len c)) by lia.
    replace (if (Z.of_N (num - len c) <? Z.of_N rl)%Z then Z.to_N (Z.of_N (num - len c)) else rl)
      with (N.min rl (num - len c)) by (destruct (Z.of_N (num - len c) <? Z.of_N rl)%Z eqn:F; lia).
    destruct e; reflexivity.
Qed.

Lemma rd_loop_limited mts extra : forall cs tag reqs acc num,
  0 < num -> cs <> [] -> Forall (fun c => len (chunk_data c) < 4294967296) cs ->
  rd_loop (dev_script cs ++ extra) (Z.of_N num) (N.min mts num) tag reqs acc =
    mk_rd (reqs ++ reqs_of tag (served num mts cs))
          (Nat.iter (length (served num mts cs)) next_tag tag)
          (Ok (acc ++ concat (map (fun wc => chunk_data (snd wc)) (served num mts cs)))).
Proof.
  induction cs as [|[[[c p] t] i] cs IH]; intros tag reqs acc num Hn NE F; [contradiction|].
  inversion F as [|? ? Hc F']; subst. cbn [chunk_data fst] in Hc.
  cbn [dev_script app served chunk_data fst]. rewrite rd_loop_step_pos by assumption.
  destruct (num <=? len c) eqn:E.
  - cbn [reqs_of length map concat Nat.iter nat_rect snd chunk_data fst]. rewrite app_nil_r. reflexivity.
  - destruct cs as [|c2 cs].
    + cbn [served reqs_of length map concat Nat.iter nat_rect snd chunk_data fst]. rewrite app_nil_r. reflexivity.
    + replace (N.min (N.min mts num) (num - len c)) with (N.min mts (num - len c)) by lia.
      rewrite IH by (try discriminate; try exact F'; lia).
      set (rest := c2 :: cs). cbn [reqs_of length map concat snd chunk_data fst].
      rewrite <- !app_assoc. cbn [app]. rewrite iter_shift. reflexivity.
Qed.

(* a device that never sends more than the requested TransferSize: the exchanged chunks are exactly
   the first num bytes of the message (all of it when it is shorter) *)
Lemma served_prefix mts : forall cs num,
  Forall (fun wc => len (chunk_data (snd wc)) <= fst wc) (served num mts cs) ->
  concat (map (fun wc => chunk_data (snd wc)) (served num mts cs)) =
    firstn (N.to_nat num) (concat (map chunk_data cs)).
Proof.
  induction cs as [|c cs IH]; intros num F; cbn [served map concat]; [rewrite firstn_nil; reflexivity|].
  cbn [served] in F. inversion F as [|? ? Hc F']; subst. cbn [fst snd] in Hc.
  destruct (num <=? len (chunk_data c)) eqn:E.
  - cbn [map concat snd]. rewrite app_nil_r.
    assert (L : N.to_nat num = length (chunk_data c)) by (unfold len in *; lia).
    rewrite L, firstn_app, firstn_all, Nat.sub_diag. cbn [firstn]. rewrite app_nil_r. reflexivity.
  - cbn [map concat snd]. rewrite (IH _ F').
    replace (N.to_nat num) with (length (chunk_data c) + N.to_nat (num - len (chunk_data c)))%nat
      by (unfold len in *; lia).
    rewrite firstn_app_2. reflexivity.
Qed.

Lemma read_raw_limited mts tag cs extra num :
  0 < num -> cs <> [] -> Forall (fun c => len (chunk_data c) < 4294967296) cs ->
  read_raw (Z.of_N num) mts tag (dev_script cs ++ extra) =
    mk_rd (reqs_of tag (served num mts cs))
          (Nat.iter (length (served num mts cs)) next_tag tag)
          (Ok (concat (map (fun wc => chunk_data (snd wc)) (served num mts cs)))).
Proof.
  intros Hn NE F. unfold read_raw.
  replace (if ((0 <? Z.of_N num) && (Z.of_N num <? Z.of_N mts))%Z then Z.to_N (Z.of_N num) else mts)
    with (N.min mts num) by (destruct ((0 <? Z.of_N num) && (Z.of_N num <? Z.of_N mts))%Z eqn:G; lia).
  apply (rd_loop_limited mts extra cs tag [] [] num Hn NE F).
Qed.

Lemma read_raw_limited_conforming mts tag cs extra num :
  0 < num -> cs <> [] -> Forall (fun c => len (chunk_data c) < 4294967296) cs ->
  Forall (fun wc => len (chunk_data (snd wc)) <= fst wc) (served num mts cs) ->
  rd_res (read_raw (Z.of_N num) mts tag (dev_script cs ++ extra)) =
    Ok (firstn (N.to_nat num) (concat (map chunk_data cs))) /\
  rd_reqs (read_raw (Z.of_N num) mts tag (dev_script cs ++ extra)) = reqs_of tag (served num mts cs) /\
  Forall (fun wc => fst wc = N.min mts (fst wc) /\ fst wc <= num) (served num mts cs).
Proof.
  intros Hn NE F C. rewrite read_raw_limited by assumption. cbn [rd_res rd_reqs].
  rewrite served_prefix by exact C. split; [reflexivity|]. split; [reflexivity|].
  clear C F NE. revert num Hn. induction cs as [|c cs IH]; intros num Hn; cbn [served]; [constructor|].
  constructor; [cbn [fst]; lia|]. destruct (num <=? len (chunk_data c)) eqn:E; [constructor|].
  eapply Forall_impl; [|apply IH; lia]. intros [w x] [A B]. cbn [fst] in *. split; [exact A|lia].
Qed.

(* ---------- vendor quirk: Advantest/ADCMT limits transfers to 63 bytes -------------------------- *)
Lemma wr_loop_sizes (mts : nat) : forall fuel data tag e ts t',
  wr_loop fuel data mts tag e = Some (ts, t') -> Forall (fun tr => (length tr <= 12 + mts + 3)%nat) ts.
Proof.
  induction fuel as [|f IH]; intros data tag e ts t' H.
  - destruct data; cbn [wr_loop] in H; [injection H as <- _; constructor|discriminate].
  - destruct data as [|x data']; cbn [wr_loop] in H; [injection H as <- _; constructor|].
    destruct (wr_loop f _ mts _ _) as [[ts0 t0]|] eqn:W; [|discriminate]. injection H as <- <-.
    constructor; [|eapply IH; exact W].
    cbn [length]. rewrite app_length. unfold padding. rewrite repeat_length.
    set (b := firstn mts (x :: data')). assert (length b <= mts)%nat by apply firstn_le_length.
    assert ((4 - len b mod 4) mod 4 < 4) by (apply N.mod_lt; discriminate). lia.
Qed.

Lemma write_raw_advantest id_product data tag :
  data <> [] -> tag <= 255 ->
  exists ts t', write_raw_quirk 4916 id_product data tag = Some (ts, t') /\
                dev_recv tag ts = Some (data, t') /\ Forall (fun tr => (length tr <= 12 + 63 + 3)%nat) ts.
Proof.
  intros NE Ht. unfold write_raw_quirk, vendor_quirks. change (4916 =? 4916) with true. cbv iota beta.
  change (N.to_nat 63) with 63%nat.
  assert (H63 : N.of_nat 63 < 4294967296) by reflexivity.
  destruct (write_raw_ok data 63 tag ltac:(lia) H63 NE Ht) as (ts & t' & W & D & _ & _).
  exists ts, t'. split; [exact W|]. split; [exact D|]. exact (wr_loop_sizes 63 _ _ _ _ _ _ W).
Qed.

(* for EVERY max_transfer_size (the live value is a parameter of the correspondence): no transfer
   carries more than max_transfer_size payload bytes (12 header + mts + at most 3 alignment bytes) *)
Lemma write_raw_sizes data mts tag ts t' :
  write_raw data mts tag = Some (ts, t') -> Forall (fun tr => (length tr <= 12 + mts + 3)%nat) ts.
Proof. unfold write_raw. apply wr_loop_sizes. Qed.
