(* C15 / Interbus — CRC linearity and detection of every single-byte corruption of a valid body *)
From Coq Require Import ZArith NArith List Bool Lia ZifyBool ZifyNat ZifyN.
Require Import QV.C15.ModelBase QV.C15.ModelIB.
Import ListNotations.
Open Scope N_scope.

Lemma land_lxor_distr a b m : N.land (N.lxor a b) m = N.lxor (N.land a m) (N.land b m).
Proof.
  apply N.bits_inj. intro n. rewrite !N.land_spec, !N.lxor_spec, !N.land_spec.
  destruct (N.testbit a n), (N.testbit b n), (N.testbit m n); reflexivity.
Qed.

Lemma lxor_swap a b p : N.lxor (N.lxor a p) b = N.lxor (N.lxor a b) p.
Proof. rewrite !N.lxor_assoc. f_equal. apply N.lxor_comm. Qed.

Lemma crc_round_lxor a b : crc_round (N.lxor a b) = N.lxor (crc_round a) (crc_round b).
Proof.
  unfold crc_round. rewrite N.lxor_spec, N.shiftl_lxor, land_lxor_distr.
  set (A := N.land (N.shiftl a 1) 65535). set (B := N.land (N.shiftl b 1) 65535).
  destruct (N.testbit a 15), (N.testbit b 15); cbn [xorb].
  - rewrite <- N.lxor_assoc. rewrite (lxor_swap A B 4129). rewrite N.lxor_assoc, N.lxor_nilpotent, N.lxor_0_r.
    reflexivity.
  - symmetry. apply lxor_swap.
  - apply N.lxor_assoc.
  - reflexivity.
Qed.

Lemma crc_ccitt_lxor s d c e :
  crc_ccitt (N.lxor s d) (N.lxor c e) = N.lxor (crc_ccitt s c) (crc_ccitt d e).
Proof.
  unfold crc_ccitt. rewrite <- !crc_round_lxor. do 8 f_equal.
  rewrite N.shiftl_lxor. rewrite !N.lxor_assoc. f_equal.
  rewrite <- !N.lxor_assoc. f_equal. apply N.lxor_comm.
Qed.

Lemma crc_round_0 : crc_round 0 = 0. Proof. reflexivity. Qed.
Lemma crc_ccitt_00 : crc_ccitt 0 0 = 0. Proof. reflexivity. Qed.

(* flipping the data byte by e changes the new state by crc_ccitt 0 e *)
Lemma crc_ccitt_data s c e : crc_ccitt s (N.lxor c e) = N.lxor (crc_ccitt s c) (crc_ccitt 0 e).
Proof. rewrite <- (N.lxor_0_r s) at 1. apply crc_ccitt_lxor. Qed.
(* a state difference d propagates through any byte as crc_ccitt d 0 *)
Lemma crc_ccitt_state s d c : crc_ccitt (N.lxor s d) c = N.lxor (crc_ccitt s c) (crc_ccitt d 0).
Proof. rewrite <- (N.lxor_0_r c) at 1. apply crc_ccitt_lxor. Qed.

Require Import QV.C15.ProofsIB.

Definition L (d : N) : N := crc_ccitt d 0.

Lemma iter_shift' {A} (f : A -> A) n x : Nat.iter n f (f x) = Nat.iter (S n) f x.
Proof. induction n as [|n IH]; [reflexivity|]. change (Nat.iter (S n) f (f x)) with (f (Nat.iter n f (f x))). rewrite IH. reflexivity. Qed.

Lemma fold_lxor b : forall s d,
  fold_left crc_ccitt b (N.lxor s d) = N.lxor (fold_left crc_ccitt b s) (Nat.iter (length b) L d).
Proof.
  induction b as [|c b IH]; intros s d; cbn [fold_left length]; [reflexivity|].
  rewrite crc_ccitt_state, IH. fold (L d). rewrite iter_shift'. reflexivity.
Qed.

(* sweeps: a non-zero byte difference gives a non-zero state difference (255 cases); a zero data
   byte maps no non-zero 16-bit state to zero (65 536 cases) *)
Definition delta_pred (hi lo : N) : bool := (lo =? 0) || negb (crc_ccitt 0 lo =? 0).
Lemma delta_sweep : forallb (fun hi => forallb (fun lo => delta_pred hi lo) bytes256) bytes256 = true.
Proof. vm_compute. reflexivity. Qed.
Definition inj_pred (hi lo : N) : bool := (hi * 256 + lo =? 0) || negb (crc_ccitt (hi * 256 + lo) 0 =? 0).
Lemma inj_sweep : forallb (fun hi => forallb (fun lo => inj_pred hi lo) bytes256) bytes256 = true.
Proof. vm_compute. reflexivity. Qed.

Lemma delta_nonzero e : e < 256 -> e <> 0 -> crc_ccitt 0 e <> 0.
Proof.
  intros H NE. assert (Z : 0 < 256) by reflexivity.
  pose proof (sweep2_sound delta_pred delta_sweep 0 e Z H) as S. unfold delta_pred in S.
  apply orb_true_iff in S. destruct S as [S|S]; [apply N.eqb_eq in S; contradiction|].
  apply negb_true_iff, N.eqb_neq in S. exact S.
Qed.

Ltac Zify.zify_post_hook ::= Z.to_euclidean_division_equations.
Lemma L_nonzero d : d < 65536 -> d <> 0 -> L d <> 0.
Proof.
  intros H NE. assert (Hhi : d / 256 < 256) by lia. assert (Hlo : d mod 256 < 256) by lia.
  pose proof (sweep2_sound inj_pred inj_sweep _ _ Hhi Hlo) as S. unfold inj_pred in S.
  replace (d / 256 * 256 + d mod 256) with d in S by lia.
  apply orb_true_iff in S. destruct S as [S|S]; [apply N.eqb_eq in S; contradiction|].
  apply negb_true_iff, N.eqb_neq in S. exact S.
Qed.

Lemma Lk_nonzero k : forall d, d < 65536 -> d <> 0 -> Nat.iter k L d <> 0 /\ Nat.iter k L d < 65536.
Proof.
  induction k as [|k IH]; intros d H NE; [split; assumption|].
  change (Nat.iter (S k) L d) with (L (Nat.iter k L d)). destruct (IH d H NE) as [A B].
  split; [apply L_nonzero; assumption|apply crc_ccitt_lt].
Qed.

Lemma lxor_lt8 a b : a < 256 -> b < 256 -> N.lxor a b < 256.
Proof.
  intros Ha Hb. destruct (N.eq_dec (N.lxor a b) 0) as [E|E]; [rewrite E; reflexivity|].
  change 256 with (2 ^ 8). apply N.log2_lt_pow2; [lia|].
  eapply N.le_lt_trans; [apply N.log2_lxor|]. apply N.max_lub_lt.
  - destruct (N.eq_dec a 0) as [->|Na]; [reflexivity|]. apply N.log2_lt_pow2; [lia|exact Ha].
  - destruct (N.eq_dec b 0) as [->|Nb]; [reflexivity|]. apply N.log2_lt_pow2; [lia|exact Hb].
Qed.

(* every single-byte change of a body with verifying CRC makes the CRC fail *)
Lemma crc_single_byte a x y b :
  x < 256 -> y < 256 -> x <> y -> crc_of (a ++ x :: b) = 0 -> crc_of (a ++ y :: b) <> 0.
Proof.
  intros Hx Hy NE C. unfold crc_of in *. rewrite fold_left_app in *. cbn [fold_left] in *.
  set (s := fold_left crc_ccitt a 0) in *.
  set (e := N.lxor x y).
  assert (Ey : y = N.lxor x e).
  { subst e. rewrite <- N.lxor_assoc, N.lxor_nilpotent, N.lxor_0_l. reflexivity. }
  assert (He : e < 256) by (apply lxor_lt8; assumption).
  assert (Ne : e <> 0) by (intro Z; apply N.lxor_eq in Z; contradiction).
  rewrite Ey, crc_ccitt_data, fold_lxor, C, N.lxor_0_l.
  apply Lk_nonzero; [apply crc_ccitt_lt|apply delta_nonzero; assumption].
Qed.

Lemma ib_single_byte types body a x y b :
  unescape body = a ++ y :: b -> crc_of (a ++ x :: b) = 0 -> x < 256 -> y < 256 -> x <> y ->
  ib_decode types (13 :: body ++ [10]) = Err EValue.
Proof.
  intros U C Hx Hy NE. apply ib_reject. right. right. right. left.
  cbn [tl]. rewrite removelast_last, U. apply (crc_single_byte a x y b Hx Hy NE C).
Qed.
