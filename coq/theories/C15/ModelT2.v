(* C15 / PicoQuant T2 TTTR decoding — executable model, no proofs.
   Transcribes /repo/qmi/instruments/picoquant/support/_decoders.py: _T2EventDecoder.process_data
   for uint32 record arrays.  numpy's vectorised cumsum / masking / uint64 wrap-around is written
   as a left fold with explicit mod 2^64 (numpy itself is trusted and compared by the harness). *)
Require Export QV.C15.ModelBase.

Definition W64 : N := 18446744073709551616.      (* 2^64 *)
Definition PERIOD : N := 33554432.               (* 1 << 25 *)

Definition rec_type (r : N) : N := (r / PERIOD) mod 256.        (* (fifo_data >> 25).astype(uint8) *)
Definition rec_tag (r : N) : N := N.land r 33554431.            (* fifo_data & 0x01ffffff *)
Definition is_ovf (r : N) : bool := rec_type r =? 127.

(* one record: new overflow counter and the events emitted (type, timestamp) *)
Definition t2_step (ovf : N) (r : N) : N * list (N * N) :=
  if is_ovf r then ((ovf + rec_tag r) mod W64, [])
  else (ovf, [(rec_type r, (ovf * PERIOD + rec_tag r) mod W64)]).

(* process_data on one batch: returns the updated _overflow_counter and the event array *)
Fixpoint t2_decode (ovf : N) (recs : list N) : N * list (N * N) :=
  match recs with
  | [] => (ovf, [])
  | r :: rest =>
      let '(o1, e1) := t2_step ovf r in
      let '(o2, e2) := t2_decode o1 rest in (o2, e1 ++ e2)
  end.

(* a sequence of process_data calls on one decoder object *)
Fixpoint t2_batches (ovf : N) (bs : list (list N)) : N * list (list (N * N)) :=
  match bs with
  | [] => (ovf, [])
  | b :: rest =>
      let '(o1, e) := t2_decode ovf b in
      let '(o2, es) := t2_batches o1 rest in (o2, e :: es)
  end.

(* ghost: plain (unwrapped) sum of the overflow increments of a record list *)
Fixpoint ovf_sum (recs : list N) : N :=
  match recs with
  | [] => 0
  | r :: rest => (if is_ovf r then rec_tag r else 0) + ovf_sum rest
  end.

(* physical meaning (specification, no machine arithmetic): T = unbounded number of timer overflows
   so far; an event's true time is T * 2^25 + tag in units of the base resolution *)
Fixpoint t2_true (T : N) (recs : list N) : N * list (N * N) :=
  match recs with
  | [] => (T, [])
  | r :: rest =>
      if is_ovf r then t2_true (T + rec_tag r) rest
      else let '(T', e) := t2_true T rest in (T', (rec_type r, T * PERIOD + rec_tag r) :: e)
  end.
Definition wrap_ev (e : N * N) : N * N := (fst e, snd e mod W64).
