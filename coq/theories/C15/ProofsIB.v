(* C15 / Interbus — lemmas about ModelIB.v *)
From Coq Require Import ZArith NArith List Bool Lia ZifyBool ZifyNat ZifyN.
Require Import QV.C15.ModelBase QV.C15.ModelIB.
Import ListNotations.
Ltac Zify.zify_post_hook ::= Z.to_euclidean_division_equations.
Open Scope N_scope.

(* ---------- escaping: sequential replace passes = byte-wise specification ------------- *)
Lemma flat_map_flat_map {A B C} (f : B -> list C) (g : A -> list B) l :
  flat_map f (flat_map g l) = flat_map (fun x => flat_map f (g x)) l.
Proof. induction l as [|a l IH]; simpl; [reflexivity|]. rewrite flat_map_app. congruence. Qed.

Lemma eqb_false (a b : N) : a <> b -> (a =? b) = false.
Proof. apply N.eqb_neq. Qed.

Lemma escape_is_spec l : escape l = escape_spec l.
Proof.
  unfold escape, replace1, escape_spec. rewrite !flat_map_flat_map. apply flat_map_ext. intro b.
  unfold esc_byte.
  destruct (N.eq_dec b 94) as [->|N94]; [reflexivity|].
  destruct (N.eq_dec b 13) as [->|N13]; [reflexivity|].
  destruct (N.eq_dec b 10) as [->|N10]; [reflexivity|].
  rewrite (eqb_false _ _ N94), (eqb_false _ _ N13), (eqb_false _ _ N10).
  cbn [flat_map app orb]. rewrite (eqb_false _ _ N13). cbn [flat_map app]. rewrite (eqb_false _ _ N10).
  reflexivity.
Qed.

Lemma replace2_ne a b n x r : x <> a -> replace2 a b n (x :: r) = x :: replace2 a b n r.
Proof.
  intro H. destruct r as [|y r]; [reflexivity|]. cbn [replace2]. rewrite (eqb_false _ _ H). reflexivity.
Qed.
Lemma replace2_hit a b n r : replace2 a b n (a :: b :: r) = n :: replace2 a b n r.
Proof. cbn [replace2]. rewrite !N.eqb_refl. reflexivity. Qed.
Lemma replace2_miss a b n c r : c <> b -> replace2 a b n (a :: c :: r) = a :: replace2 a b n (c :: r).
Proof. intro H. cbn [replace2]. rewrite (eqb_false _ _ H), andb_false_r. reflexivity. Qed.

Definition tokB (b : N) : list N := if b =? 10 then [10] else esc_byte b.
Definition tokC (b : N) : list N := if (b =? 10) || (b =? 13) then [b] else esc_byte b.

Ltac split_byte a :=
  destruct (N.eq_dec a 10) as [->|?N10];
  [|destruct (N.eq_dec a 13) as [->|?N13];
    [|destruct (N.eq_dec a 94) as [->|?N94]]].

Ltac nored a :=
  repeat match goal with H : a <> _ |- _ => rewrite (eqb_false _ _ H) in *; clear H end.

Lemma pass1 l : replace2 94 74 10 (flat_map esc_byte l) = flat_map tokB l.
Proof.
  induction l as [|a l IH]; [reflexivity|]. cbn [flat_map]. split_byte a.
  - change (esc_byte 10) with [94;74]. change (tokB 10) with [10]. cbn [app].
    rewrite replace2_hit, IH. reflexivity.
  - change (esc_byte 13) with [94;77]. change (tokB 13) with [94;77]. cbn [app].
    rewrite replace2_miss by discriminate. rewrite replace2_ne by discriminate. rewrite IH. reflexivity.
  - change (esc_byte 94) with [94;158]. change (tokB 94) with [94;158]. cbn [app].
    rewrite replace2_miss by discriminate. rewrite replace2_ne by discriminate. rewrite IH. reflexivity.
  - assert (E : esc_byte a = [a]) by (unfold esc_byte; nored a; reflexivity).
    assert (E' : tokB a = [a]) by (unfold tokB; rewrite E, (eqb_false _ _ N10); reflexivity).
    rewrite E, E'. cbn [app]. rewrite replace2_ne by assumption. rewrite IH. reflexivity.
Qed.

Lemma pass2 l : replace2 94 77 13 (flat_map tokB l) = flat_map tokC l.
Proof.
  induction l as [|a l IH]; [reflexivity|]. cbn [flat_map]. split_byte a.
  - change (tokB 10) with [10]. change (tokC 10) with [10]. cbn [app].
    rewrite replace2_ne by discriminate. rewrite IH. reflexivity.
  - change (tokB 13) with [94;77]. change (tokC 13) with [13]. cbn [app].
    rewrite replace2_hit, IH. reflexivity.
  - change (tokB 94) with [94;158]. change (tokC 94) with [94;158]. cbn [app].
    rewrite replace2_miss by discriminate. rewrite replace2_ne by discriminate. rewrite IH. reflexivity.
  - assert (E : tokB a = [a]) by (unfold tokB, esc_byte; nored a; reflexivity).
    assert (E' : tokC a = [a]) by (unfold tokC, esc_byte; nored a; reflexivity).
    rewrite E, E'. cbn [app]. rewrite replace2_ne by assumption. rewrite IH. reflexivity.
Qed.

Lemma pass3 l : replace2 94 158 94 (flat_map tokC l) = l.
Proof.
  induction l as [|a l IH]; [reflexivity|]. cbn [flat_map]. split_byte a.
  - change (tokC 10) with [10]. cbn [app]. rewrite replace2_ne by discriminate. rewrite IH. reflexivity.
  - change (tokC 13) with [13]. cbn [app]. rewrite replace2_ne by discriminate. rewrite IH. reflexivity.
  - change (tokC 94) with [94;158]. cbn [app]. rewrite replace2_hit, IH. reflexivity.
  - assert (E' : tokC a = [a]) by (unfold tokC, esc_byte; nored a; reflexivity).
    rewrite E'. cbn [app]. rewrite replace2_ne by assumption. rewrite IH. reflexivity.
Qed.

Lemma unescape_escape l : unescape (escape l) = l.
Proof. rewrite escape_is_spec. unfold unescape, escape_spec. rewrite pass1, pass2, pass3. reflexivity. Qed.

Lemma escape_spec_no_reserved l : Forall (fun b => b <> 10 /\ b <> 13) (escape_spec l).
Proof.
  induction l as [|a l IH]; [constructor|]. cbn [escape_spec flat_map]. apply Forall_app. split; [|exact IH].
  unfold esc_byte. split_byte a; cbn.
  - repeat constructor; discriminate.
  - repeat constructor; discriminate.
  - repeat constructor; discriminate.
  - assert (E : (a =? 10) || (a =? 13) || (a =? 94) = false) by (nored a; reflexivity).
    rewrite E. repeat constructor; assumption.
Qed.

Lemma escape_no_reserved l : Forall (fun b => b <> 10 /\ b <> 13) (escape l).
Proof. rewrite escape_is_spec. apply escape_spec_no_reserved. Qed.

Lemma escape_length_ge l : (length l <= length (escape l))%nat.
Proof.
  rewrite escape_is_spec. induction l as [|a l IH]; [apply le_n|]. cbn [escape_spec flat_map].
  rewrite app_length. unfold esc_byte at 1. destruct ((a =? 10) || (a =? 13) || (a =? 94)); cbn [length]; fold (escape_spec l); lia.
Qed.

(* ---------- CRC ----------------------------------------------------------------------- *)
Lemma lxor_lt16 a b : a < 65536 -> b < 65536 -> N.lxor a b < 65536.
Proof.
  intros Ha Hb. destruct (N.eq_dec (N.lxor a b) 0) as [E|E]; [rewrite E; reflexivity|].
  change 65536 with (2 ^ 16). apply N.log2_lt_pow2; [lia|].
  eapply N.le_lt_trans; [apply N.log2_lxor|].
  apply N.max_lub_lt.
  - destruct (N.eq_dec a 0) as [->|Na]; [reflexivity|]. apply N.log2_lt_pow2; [lia|exact Ha].
  - destruct (N.eq_dec b 0) as [->|Nb]; [reflexivity|]. apply N.log2_lt_pow2; [lia|exact Hb].
Qed.

Lemma crc_round_lt x : crc_round x < 65536.
Proof.
  unfold crc_round. change 65535 with (N.ones 16). rewrite N.land_ones.
  assert (H : N.shiftl x 1 mod 2 ^ 16 < 65536) by (apply N.mod_lt; discriminate).
  destruct (N.testbit x 15); [apply lxor_lt16; [exact H|reflexivity]|exact H].
Qed.

Lemma crc_ccitt_lt c b : crc_ccitt c b < 65536.
Proof. unfold crc_ccitt. apply crc_round_lt. Qed.

(* from here on crc_ccitt is only used through its lemmas; keep the kernel from unfolding the 8
   nested rounds on symbolic arguments (exponential) *)
Global Strategy opaque [crc_ccitt crc_round].

Lemma crc_fold_lt l : forall init, init < 65536 -> fold_left crc_ccitt l init < 65536.
Proof. induction l as [|a l IH]; intros init H; [exact H|]. cbn [fold_left]. apply IH, crc_ccitt_lt. Qed.

Lemma crc_of_lt l : crc_of l < 65536.
Proof. apply crc_fold_lt. reflexivity. Qed.

Definition bytes256 : list N := map N.of_nat (seq 0 256).
Lemma in_bytes256 x : x < 256 -> In x bytes256.
Proof.
  intro H. unfold bytes256. apply in_map_iff. exists (N.to_nat x). split; [apply N2Nat.id|].
  apply in_seq. lia.
Qed.

Lemma sweep2_sound (P : N -> N -> bool) :
  forallb (fun hi => forallb (fun lo => P hi lo) bytes256) bytes256 = true ->
  forall hi lo, hi < 256 -> lo < 256 -> P hi lo = true.
Proof.
  intros S hi lo Hhi Hlo. rewrite forallb_forall in S. specialize (S hi (in_bytes256 _ Hhi)).
  rewrite forallb_forall in S. exact (S lo (in_bytes256 _ Hlo)).
Qed.

(* finite sweep over all 65 536 CRC states: appending the CRC big-endian drives the register to 0 *)
Definition crc_append_pred (hi lo : N) : bool := crc_ccitt (crc_ccitt (hi * 256 + lo) hi) lo =? 0.
Lemma crc_append_sweep_ok :
  forallb (fun hi => forallb (fun lo => crc_append_pred hi lo) bytes256) bytes256 = true.
Proof. vm_compute. reflexivity. Qed.

Lemma crc_append_state c : c < 65536 -> crc_ccitt (crc_ccitt c (c / 256)) (c mod 256) = 0.
Proof.
  intro H.
  assert (Hhi : c / 256 < 256) by lia. assert (Hlo : c mod 256 < 256) by lia.
  pose proof (sweep2_sound crc_append_pred crc_append_sweep_ok _ _ Hhi Hlo) as S.
  unfold crc_append_pred in S. apply N.eqb_eq in S.
  replace (c / 256 * 256 + c mod 256) with c in S by lia. exact S.
Qed.

Lemma crc_append p : crc_of (p ++ [crc_of p / 256; crc_of p mod 256]) = 0.
Proof.
  unfold crc_of at 1. rewrite fold_left_app. cbn [fold_left]. fold (crc_of p).
  apply crc_append_state, crc_of_lt.
Qed.

(* ---------- encode / decode ----------------------------------------------------------- *)
Definition valid_msg (m : msg) : Prop :=
  1 <= m_dest m <= 160 /\ 161 <= m_src m <= 255 /\ (length (m_data m) <= 240)%nat /\
  m_reg m < 256.

Lemma ib_encode_valid m : valid_msg m -> ib_encode m = Ok ([13] ++ escape (ib_payload m) ++ [10]).
Proof.
  intros (Hd & Hs & Hl & Hg). unfold ib_encode, len.
  replace ((1 <=? m_dest m) && (m_dest m <=? 160)) with true by lia.
  replace ((161 <=? m_src m) && (m_src m <=? 255)) with true by lia.
  replace (N.of_nat (length (m_data m)) <=? 240) with true by lia.
  replace (m_reg m <? 256) with true by lia. reflexivity.
Qed.

Lemma last_frame body : last (13 :: body ++ [10]) 0 = 10.
Proof. rewrite app_comm_cons. apply last_last. Qed.

(* decoding a frame 13 :: body ++ [10], with the list plumbing removed *)
Lemma ib_decode_frame types body :
  (6 <= length body)%nat ->
  ib_decode types (13 :: body ++ [10]) =
    let u := unescape body in
    if len u <? 6 then Err EValue
    else if negb (crc_of u =? 0) then Err EValue
    else match firstn (length u - 2) u with
         | d :: s :: t :: g :: data => if existsb (N.eqb t) types then Ok (mkmsg d s t g data) else Err EValue
         | _ => Err EValue
         end.
Proof.
  intro H. unfold ib_decode.
  assert (L : len (13 :: body ++ [10]) <? 8 = false).
  { unfold len. cbn [length]. rewrite app_length. cbn [length]. lia. }
  rewrite L. rewrite last_frame. rewrite removelast_last. reflexivity.
Qed.

Lemma ib_payload_shape m :
  ib_payload m = ([m_dest m; m_src m; m_type m; m_reg m] ++ m_data m) ++
                 [crc_of ([m_dest m; m_src m; m_type m; m_reg m] ++ m_data m) / 256;
                  crc_of ([m_dest m; m_src m; m_type m; m_reg m] ++ m_data m) mod 256].
Proof. reflexivity. Qed.

Lemma ib_roundtrip types m : valid_msg m -> In (m_type m) types ->
  exists f, ib_encode m = Ok f /\ ib_decode types f = Ok m.
Proof.
  intros V Ht. eexists. split; [apply ib_encode_valid, V|].
  cbn [app]. 
  assert (LP : (6 <= length (ib_payload m))%nat).
  { rewrite ib_payload_shape, app_length. cbn [length app]. lia. }
  rewrite (ib_decode_frame types) by (pose proof (escape_length_ge (ib_payload m)); lia).
  cbv zeta. rewrite unescape_escape.
  replace (len (ib_payload m) <? 6) with false by (unfold len; lia).
  rewrite ib_payload_shape at 1. rewrite crc_append. cbn [N.eqb negb].
  rewrite ib_payload_shape. set (p := [m_dest m; m_src m; m_type m; m_reg m] ++ m_data m).
  rewrite app_length. cbn [length]. replace (length p + 2 - 2)%nat with (length p + 0)%nat by lia.
  rewrite firstn_app_2. cbn [firstn]. rewrite app_nil_r. subst p. cbn [app].
  assert (X : existsb (N.eqb (m_type m)) types = true) by (apply existsb_exists; exists (m_type m); split; [exact Ht|apply N.eqb_refl]).
  rewrite X. destruct m; reflexivity.
Qed.

(* framing: SOT, body free of 0x0A/0x0D, EOT; hence read_until(b"\n") cuts exactly at EOT *)
Lemma ib_framing m : valid_msg m ->
  exists body, ib_encode m = Ok (13 :: body ++ [10]) /\ Forall (fun b => b <> 10 /\ b <> 13) body.
Proof.
  intro V. exists (escape (ib_payload m)). split; [apply ib_encode_valid, V|apply escape_no_reserved].
Qed.

Lemma cut_nl_body body rest :
  Forall (fun b => b <> 10 /\ b <> 13) body -> cut_nl (body ++ 10 :: rest) = Some (body ++ [10], rest).
Proof.
  induction 1 as [|x l [Hx _] _ IH]; cbn [app cut_nl]; [reflexivity|].
  rewrite (eqb_false _ _ Hx), IH. reflexivity.
Qed.

Lemma ib_cut m rest : valid_msg m ->
  exists f, ib_encode m = Ok f /\ cut_nl (f ++ rest) = Some (f, rest).
Proof.
  intro V. destruct (ib_framing m V) as (body & E & F). eexists. split; [exact E|].
  cbn [app cut_nl]. change (13 =? 10) with false. cbv iota.
  rewrite <- app_assoc. cbn [app]. rewrite (cut_nl_body _ _ F). reflexivity.
Qed.

(* every failure of the decoder is a ValueError *)
Lemma ib_decode_err types e : (exists m, ib_decode types e = Ok m) \/ ib_decode types e = Err EValue.
Proof.
  unfold ib_decode. destruct (len e <? 8); [right; reflexivity|].
  destruct e as [|sot r]; [right; reflexivity|].
  destruct (negb _); [right; reflexivity|]. cbv zeta.
  destruct (len _ <? 6); [right; reflexivity|].
  destruct (negb _); [right; reflexivity|].
  destruct (firstn _ _) as [|d [|s [|t [|g data]]]]; try (right; reflexivity).
  destruct (existsb (N.eqb t) types); [left; eexists; reflexivity|right; reflexivity].
Qed.

(* soundness: whatever is accepted has SOT/EOT, a verifying CRC and the returned fields *)
Lemma ib_decode_sound types e m : ib_decode types e = Ok m ->
  exists body c1 c2,
    e = 13 :: body ++ [10] /\ (8 <= length e)%nat /\
    crc_of (unescape body) = 0 /\
    unescape body = [m_dest m; m_src m; m_type m; m_reg m] ++ m_data m ++ [c1; c2] /\
    In (m_type m) types.
Proof.
  unfold ib_decode. destruct (len e <? 8) eqn:L; [discriminate|].
  destruct e as [|sot r]; [discriminate|].
  destruct (negb _) eqn:SE; [discriminate|]. cbv zeta.
  destruct (len _ <? 6) eqn:L6; [discriminate|].
  destruct (negb (crc_of _ =? 0)) eqn:C; [discriminate|].
  destruct (firstn _ _) as [|d [|s [|t [|g data]]]] eqn:F; try discriminate.
  destruct (existsb (N.eqb t) types) eqn:T; [|discriminate]. intro H. injection H as <-. cbn [m_dest m_src m_type m_reg m_data].
  assert (Hr : r <> []).
  { intro; subst r. unfold len in L. cbn in L. discriminate. }
  apply negb_false_iff, andb_true_iff in SE. destruct SE as [S1 S2].
  apply N.eqb_eq in S1. subst sot. apply N.eqb_eq in S2.
  assert (Hl : last (13 :: r) 0 = last r 0) by (destruct r; [contradiction|reflexivity]).
  rewrite Hl in S2.
  set (u := unescape (removelast r)) in *.
  assert (Hu : u = firstn (length u - 2) u ++ skipn (length u - 2) u) by (symmetry; apply firstn_skipn).
  assert (Hs : length (skipn (length u - 2) u) = 2%nat).
  { rewrite skipn_length. unfold len in L6. lia. }
  destruct (skipn (length u - 2) u) as [|c1 [|c2 [|? ?]]]; try discriminate Hs.
  exists (removelast r), c1, c2. repeat split.
  - rewrite <- S2. rewrite <- app_removelast_last by assumption. reflexivity.
  - unfold len in L. lia.
  - apply negb_false_iff, N.eqb_eq in C. exact C.
  - fold u. rewrite Hu at 1. rewrite F. reflexivity.
  - apply existsb_exists in T. destruct T as (x & Hx & E). apply N.eqb_eq in E. subst x. exact Hx.
Qed.

Lemma ib_reject types e :
  (length e < 8)%nat \/ hd 0 e <> 13 \/ last e 0 <> 10 \/
  crc_of (unescape (removelast (tl e))) <> 0 \/ (length (unescape (removelast (tl e))) < 6)%nat ->
  ib_decode types e = Err EValue.
Proof.
  intro H. destruct (ib_decode_err types e) as [[m Hm]|E]; [|exact E]. exfalso.
  destruct (ib_decode_sound types e m Hm) as (body & c1 & c2 & -> & L & C & U & _).
  cbn [hd tl] in H. rewrite last_frame, removelast_last in H.
  destruct H as [H|[H|[H|[H|H]]]]; try contradiction; try lia.
  rewrite U in H. cbn [length app] in H. rewrite app_length in H. cbn [length] in H. lia.
Qed.

(* a message type that is not a member of the MessageType enum is rejected too *)
Lemma ib_reject_type types e body d s t g data c1 c2 :
  e = 13 :: body ++ [10] -> unescape body = [d; s; t; g] ++ data ++ [c1; c2] -> ~ In t types ->
  ib_decode types e = Err EValue.
Proof.
  intros -> U NI. destruct (ib_decode_err types (13 :: body ++ [10])) as [[m Hm]|E]; [|exact E]. exfalso.
  destruct (ib_decode_sound _ _ _ Hm) as (body' & c1' & c2' & E & _ & _ & U' & T).
  injection E as E. apply app_inj_tail in E. destruct E as [<- _]. rewrite U in U'.
  injection U' as _ _ Et _. subst t. contradiction.
Qed.

(* ---------- _request_response (for EVERY retry bound maxr and host base address) --------- *)
Lemma rr_loop_ok types maxr req dst src script : forall fc wr w m,
  rr_loop types maxr req dst src fc script wr = (w, Ok m) ->
  m_src m = dst /\ m_dest m = src /\ exists f, In (RdBytes f) script /\ ib_decode types f = Ok m.
Proof.
  induction script as [|ev rest IH]; intros fc wr w m H; cbn [rr_loop] in H; [discriminate|].
  destruct ev as [|b].
  - destruct (maxr <? S fc)%nat; [discriminate|].
    destruct (IH _ _ _ _ H) as (A & B & f & I & D). repeat split; try assumption. exists f. split; [right; exact I|exact D].
  - destruct (ib_decode types b) as [m'|e] eqn:D.
    + destruct ((m_src m' =? dst) && (m_dest m' =? src)) eqn:M.
      * injection H as <- <-. apply andb_true_iff in M. destruct M as [M1 M2].
        apply N.eqb_eq in M1, M2. repeat split; try assumption. exists b. split; [left; reflexivity|exact D].
      * destruct (maxr <? S fc)%nat; [discriminate|].
        destruct (IH _ _ _ _ H) as (A & B & f & I & D'). repeat split; try assumption. exists f. split; [right; exact I|exact D'].
    + destruct (maxr <? S fc)%nat; [discriminate|].
      destruct (IH _ _ _ _ H) as (A & B & f & I & D'). repeat split; try assumption. exists f. split; [right; exact I|exact D'].
Qed.

(* writes: the initial ones followed by at most maxr - fc copies of the request *)
Lemma rr_loop_writes types maxr req dst src script : forall fc wr w r,
  (fc <= maxr)%nat ->
  rr_loop types maxr req dst src fc script wr = (w, r) ->
  exists k, w = wr ++ repeat req k /\ (fc + k <= maxr)%nat.
Proof.
  induction script as [|ev rest IH]; intros fc wr w r Hfc H; cbn [rr_loop] in H.
  - injection H as <- _. exists 0%nat. rewrite app_nil_r. split; [reflexivity|lia].
  - assert (RES : (S fc <= maxr)%nat -> rr_loop types maxr req dst src (S fc) rest (wr ++ [req]) = (w, r) ->
                  exists k, w = wr ++ repeat req k /\ (fc + k <= maxr)%nat).
    { intros C H'. destruct (IH _ _ _ _ C H') as (k & -> & K).
      exists (S k). rewrite <- app_assoc. split; [reflexivity|lia]. }
    assert (STOP : forall x, (wr, x) = (w, r) -> exists k, w = wr ++ repeat req k /\ (fc + k <= maxr)%nat).
    { intros x E. injection E as <- _. exists 0%nat. rewrite app_nil_r. split; [reflexivity|lia]. }
    destruct ev as [|b].
    + destruct (maxr <? S fc)%nat eqn:C; [eapply STOP; exact H|apply Nat.ltb_ge in C; apply (RES C H)].
    + destruct (ib_decode types b) as [m'|e].
      * destruct ((m_src m' =? dst) && (m_dest m' =? src)); [eapply STOP; exact H|].
        destruct (maxr <? S fc)%nat eqn:C; [eapply STOP; exact H|].
        apply Nat.ltb_ge in C. destruct (IH _ _ _ _ C H) as (k & -> & K). exists k. split; [reflexivity|lia].
      * destruct (maxr <? S fc)%nat eqn:C; [eapply STOP; exact H|apply Nat.ltb_ge in C; apply (RES C H)].
Qed.

(* reads: only the first maxr+1-fc scripted reads can matter, and they suffice for a verdict *)
Lemma rr_loop_reads types maxr req dst src : forall s1 s2 fc wr,
  (fc <= maxr)%nat -> length s1 = (S maxr - fc)%nat ->
  rr_loop types maxr req dst src fc (s1 ++ s2) wr = rr_loop types maxr req dst src fc s1 wr /\
  snd (rr_loop types maxr req dst src fc s1 wr) <> Err EExhausted.
Proof.
  induction s1 as [|ev rest IH]; intros s2 fc wr Hfc L; cbn [length] in L; [lia|].
  cbn [app rr_loop].
  destruct (maxr <? S fc)%nat eqn:C.
  - destruct ev as [|b]; [split; [reflexivity|discriminate]|].
    destruct (ib_decode types b) as [m'|e]; [|split; [reflexivity|discriminate]].
    destruct (_ && _); split; try reflexivity; discriminate.
  - apply Nat.ltb_ge in C. assert (L' : length rest = (S maxr - S fc)%nat) by lia.
    destruct ev as [|b]; [apply IH; assumption|].
    destruct (ib_decode types b) as [m'|e]; [|apply IH; assumption].
    destruct (_ && _); [split; [reflexivity|discriminate]|apply IH; assumption].
Qed.

(* a device that answers correctly only on attempt k (after k-1 timeouts / malformed frames /
   mis-addressed frames): the payload iff k <= maxr + 1, otherwise the error *)
Definition failing (types : list N) (dst src : N) (ev : rd) : bool :=
  match ev with
  | RdTimeout => true
  | RdBytes b => match ib_decode types b with
                 | Err _ => true
                 | Ok m => negb ((m_src m =? dst) && (m_dest m =? src))
                 end
  end.

Lemma rr_loop_attempt types maxr req dst src good m : 
  ib_decode types good = Ok m -> m_src m = dst -> m_dest m = src ->
  forall pre fc wr post, forallb (failing types dst src) pre = true ->
  ((fc + length pre <= maxr)%nat ->
     snd (rr_loop types maxr req dst src fc (pre ++ RdBytes good :: post) wr) = Ok m) /\
  ((maxr < fc + length pre)%nat -> (fc <= maxr)%nat ->
     exists e, snd (rr_loop types maxr req dst src fc (pre ++ RdBytes good :: post) wr) = Err e /\ e <> EExhausted).
Proof.
  intros D Ms Md. induction pre as [|ev pre IH]; intros fc wr post F.
  - split.
    + intros _. cbn [app rr_loop]. rewrite D, Ms, Md, !N.eqb_refl. reflexivity.
    + cbn [length]. intros. lia.
  - cbn [forallb] in F. apply andb_true_iff in F. destruct F as [Fe F].
    cbn [app rr_loop length]. split.
    + intro B. assert (C : (maxr <? S fc)%nat = false) by (apply Nat.ltb_ge; lia). rewrite C.
      destruct ev as [|b]; [apply IH; [exact F|lia]|].
      cbn [failing] in Fe. destruct (ib_decode types b) as [m'|e]; [|apply IH; [exact F|lia]].
      apply negb_true_iff in Fe. rewrite Fe. apply IH; [exact F|lia].
    + intros B Hfc. destruct (maxr <? S fc)%nat eqn:C.
      * destruct ev as [|b]; [exists ETimeout; split; [reflexivity|discriminate]|].
        cbn [failing] in Fe. destruct (ib_decode types b) as [m'|e]; [|exists EInstr; split; [reflexivity|discriminate]].
        apply negb_true_iff in Fe. rewrite Fe. exists EInstr; split; [reflexivity|discriminate].
      * apply Nat.ltb_ge in C.
        destruct ev as [|b]; [apply IH; [exact F|lia|lia]|].
        cbn [failing] in Fe. destruct (ib_decode types b) as [m'|e]; [|apply IH; [exact F|lia|lia]].
        apply negb_true_iff in Fe. rewrite Fe. apply IH; [exact F|lia|lia].
Qed.

Lemma next_toggle_alternates t : t < 2 -> next_toggle t = 1 - t /\ next_toggle (next_toggle t) = t.
Proof. intro H. assert (t = 0 \/ t = 1) as [->| ->] by lia; split; reflexivity. Qed.

Lemma rr_match types maxr base toggle dst mt reg data script t w m :
  request_response types maxr base toggle dst mt reg data script = (t, w, Ok m) ->
  m_src m = dst /\ m_dest m = base + next_toggle toggle /\
  exists f, In (RdBytes f) script /\ ib_decode types f = Ok m.
Proof.
  unfold request_response. destruct (ib_encode _) as [req|e]; [|discriminate].
  destruct (rr_loop _ _ _ _ _ _ _ _) as [w' r'] eqn:L. intro H. injection H as _ _ ->.
  exact (rr_loop_ok _ _ _ _ _ _ _ _ _ _ L).
Qed.

Lemma ib_encode_err m e : ib_encode m = Err e -> e = EValue.
Proof.
  unfold ib_encode. intro E.
  repeat match type of E with (if ?c then _ else _) = _ => destruct c end;
    try discriminate; injection E as <-; reflexivity.
Qed.

Lemma rr_bounded types maxr base toggle dst mt reg data script t w r :
  request_response types maxr base toggle dst mt reg data script = (t, w, r) ->
  t = next_toggle toggle /\
  ((w = [] /\ r = Err EValue /\ ib_encode (mkmsg dst (base + next_toggle toggle) mt reg data) = Err EValue) \/
   exists req k, ib_encode (mkmsg dst (base + next_toggle toggle) mt reg data) = Ok req /\
                 w = req :: repeat req k /\ (k <= maxr)%nat).
Proof.
  unfold request_response. destruct (ib_encode _) as [req|e] eqn:E.
  - destruct (rr_loop _ _ _ _ _ _ _ _) as [w' r'] eqn:L. intro H. injection H as <- <- <-. split; [reflexivity|].
    right. destruct (rr_loop_writes _ _ _ _ _ _ _ _ _ _ (Nat.le_0_l _) L) as (k & -> & K).
    exists req, k. repeat split; try reflexivity. lia.
  - intro H. injection H as <- <- <-. split; [reflexivity|]. left.
    apply ib_encode_err in E. subst e. repeat split; reflexivity.
Qed.

Lemma rr_reads types maxr base toggle dst mt reg data s1 s2 :
  length s1 = S maxr ->
  request_response types maxr base toggle dst mt reg data (s1 ++ s2) =
    request_response types maxr base toggle dst mt reg data s1 /\
  snd (request_response types maxr base toggle dst mt reg data s1) <> Err EExhausted.
Proof.
  intro L. unfold request_response. destruct (ib_encode _) as [req|e] eqn:E.
  - destruct (rr_loop_reads types maxr req dst (base + next_toggle toggle) s1 s2 0 [req] (Nat.le_0_l _)) as [A B].
    { rewrite L. lia. }
    rewrite A. destruct (rr_loop _ _ _ _ _ _ s1 _) as [w r]. split; [reflexivity|exact B].
  - split; [reflexivity|]. apply ib_encode_err in E. subst e. discriminate.
Qed.

(* request level: good reply on attempt k = length pre + 1 *)
Lemma rr_attempt types maxr base toggle dst mt reg data req good m pre post :
  ib_encode (mkmsg dst (base + next_toggle toggle) mt reg data) = Ok req ->
  ib_decode types good = Ok m -> m_src m = dst -> m_dest m = base + next_toggle toggle ->
  forallb (failing types dst (base + next_toggle toggle)) pre = true ->
  ((length pre <= maxr)%nat ->
     snd (request_response types maxr base toggle dst mt reg data (pre ++ RdBytes good :: post)) = Ok m) /\
  ((maxr < length pre)%nat ->
     exists e, snd (request_response types maxr base toggle dst mt reg data (pre ++ RdBytes good :: post)) = Err e
               /\ e <> EExhausted).
Proof.
  intros E D Ms Md F. unfold request_response. rewrite E.
  destruct (rr_loop_attempt types maxr req dst (base + next_toggle toggle) good m D Ms Md pre 0%nat [req] post F) as [A B].
  destruct (rr_loop _ _ _ _ _ _ _ _) as [w r]. cbn [snd] in *. split; [intro; apply A; lia|intro; apply B; lia].
Qed.
