(* C15 / APT data packets: generic pack/unpack round trip over well-formed layout tables *)
From Coq Require Import ZArith NArith List Bool Lia ZifyBool ZifyNat ZifyN.
Require Import QV.C15.ModelBase QV.C15.ModelApt QV.C15.ModelAptFields QV.C15.ProofsApt.
Import ListNotations.
Ltac Zify.zify_post_hook ::= Z.to_euclidean_division_equations.
Open Scope N_scope.

Lemma pow8_S k : pow8 (S k) = 256 * pow8 k.
Proof.
  unfold pow8. replace (8 * N.of_nat (S k)) with (8 + 8 * N.of_nat k) by lia.
  rewrite N.pow_add_r. reflexivity.
Qed.
Lemma pow8_pos k : 0 < pow8 k.
Proof. unfold pow8. apply N.neq_0_lt_0, N.pow_nonzero. discriminate. Qed.

Lemma le_bytes_length w : forall n, length (le_bytes w n) = w.
Proof. induction w as [|k IH]; intro n; cbn [le_bytes length]; [reflexivity|]. rewrite IH. reflexivity. Qed.

Lemma le_dec_le_bytes w : forall n, le_dec (le_bytes w n) = n mod pow8 w.
Proof.
  induction w as [|k IH]; intro n; cbn [le_bytes le_dec].
  - unfold pow8. cbn. rewrite N.mod_1_r. reflexivity.
  - rewrite IH, pow8_S. pose proof (pow8_pos k).
    rewrite (N.mod_mul_r n 256 (pow8 k)) by lia. reflexivity.
Qed.

Definition elems_ok (ty : fty) (vs : list Z) : Prop := Forall (fun v => elem_ok ty v = true) vs.
Definition values_ok (L : layout) (vss : list (list Z)) : Prop :=
  Forall2 (fun f vs => length vs = snd f /\ elems_ok (fst f) vs) L vss.

Lemma enc_length ty v : length (enc_elem ty v) = width ty.
Proof. destruct ty; cbn [enc_elem width]; try apply le_bytes_length. reflexivity. Qed.

Lemma dec_enc ty v : (1 <= width ty)%nat -> elem_ok ty v = true -> dec_elem ty (enc_elem ty v) = v.
Proof.
  intros W H. destruct ty as [w|w|]; cbn [enc_elem dec_elem elem_ok width] in *;
    apply andb_true_iff in H; destruct H as [H1 H2]; apply Z.leb_le in H1; apply Z.ltb_lt in H2.
  - rewrite le_dec_le_bytes. pose proof (pow8_pos w). remember (pow8 w) as p. rewrite N.mod_small by lia. lia.
  - destruct w as [|k]; [lia|]. rewrite le_dec_le_bytes.
    pose proof (pow8_S k) as P. pose proof (pow8_pos k) as Q. remember (pow8 (S k)) as p. remember (pow8 k) as q.
    assert (Hh : p / 2 = 128 * q) by lia. rewrite Hh in *.
    assert (R : (v mod Z.of_N p = if v <? 0 then v + Z.of_N p else v)%Z).
    { destruct (Z.ltb_spec v 0).
      - symmetry. apply (Z.mod_unique v (Z.of_N p) (-1)); lia.
      - apply Z.mod_small. lia. }
    rewrite R. clear R. destruct (Z.ltb_spec v 0).
    + rewrite N.mod_small by lia. replace (Z.to_N (v + Z.of_N p) <? 128 * q) with false by lia. lia.
    + rewrite N.mod_small by lia. replace (Z.to_N v <? 128 * q) with true by lia. lia.
  - cbn [le_dec]. lia.
Qed.

Lemma unpack_elems_flat ty rest : (1 <= width ty)%nat -> forall vs, elems_ok ty vs ->
  unpack_elems ty (length vs) (flat_map (enc_elem ty) vs ++ rest) = (vs, rest).
Proof.
  intros W vs F. induction F as [|v vs Hv _ IH]; [reflexivity|].
  cbn [length flat_map unpack_elems]. rewrite <- app_assoc.
  pose proof (enc_length ty v) as EL.
  rewrite <- EL at 1. rewrite skipn_app, skipn_all, Nat.sub_diag. cbn [skipn app]. rewrite IH.
  rewrite <- EL. rewrite firstn_app, firstn_all, Nat.sub_diag. cbn [firstn]. rewrite app_nil_r.
  rewrite dec_enc by assumption. reflexivity.
Qed.

Lemma flat_enc_length ty vs : length (flat_map (enc_elem ty) vs) = (width ty * length vs)%nat.
Proof.
  induction vs as [|v vs IH]; cbn [flat_map length]; [lia|]. rewrite app_length, enc_length, IH. lia.
Qed.

Lemma field_wf_width f : field_wf f = true -> (1 <= width (fst f))%nat.
Proof.
  unfold field_wf. destruct f as [[w|w|] n]; cbn [fst snd width]; intro H; lia.
Qed.

Lemma fields_roundtrip_gen L : Forall (fun f => field_wf f = true) L -> forall vss rest,
  values_ok L vss ->
  unpack L (pack L vss ++ rest) = vss /\ length (pack L vss) = layout_size L.
Proof.
  intros WF vss rest V. revert WF rest. induction V as [|[ty n] vs L vss [Hl He] _ IH]; intros WF rest.
  - split; reflexivity.
  - inversion WF as [|? ? Hf WF']; subst. cbn [fst snd] in *. cbn [pack unpack layout_size].
    rewrite <- app_assoc. subst n. rewrite unpack_elems_flat by (try assumption; exact (field_wf_width _ Hf)).
    destruct (IH WF' rest) as [A B]. rewrite A. split; [reflexivity|].
    rewrite app_length, flat_enc_length, B. reflexivity.
Qed.

(* the generic theorem instantiated per packet in coq/gen/C15AptLayouts.v *)
Lemma fields_roundtrip L sizeof : layout_wf L sizeof = true -> forall vss rest,
  values_ok L vss ->
  unpack L (pack L vss ++ rest) = vss /\ len (pack L vss) = sizeof /\ sizeof < 65536.
Proof.
  unfold layout_wf. intros H vss rest V. apply andb_true_iff in H. destruct H as [H S2].
  apply andb_true_iff in H. destruct H as [WF SZ]. rewrite forallb_forall in WF.
  assert (WF' : Forall (fun f => field_wf f = true) L) by (apply Forall_forall; exact WF).
  destruct (fields_roundtrip_gen L WF' vss rest V) as [A B]. split; [exact A|]. unfold len. rewrite B. lia.
Qed.

(* end to end: the device packs field values after a data header with the expected id; ask returns
   bytes that unpack to exactly those field values; the driver packs field values and the device,
   after the header, unpacks them *)
Lemma apt_ask_fields hc L sizeof expect dst src vss rest :
  layout_wf L sizeof = true -> values_ok L vss -> expect < 65536 -> dst < 256 -> src < 256 ->
  exists bytes, apt_ask hc false expect sizeof (hdr_data expect sizeof dst src ++ pack L vss ++ rest) = (Ok bytes, rest) /\
                unpack L bytes = vss.
Proof.
  intros WF V He Hd Hs. destruct (fields_roundtrip L sizeof WF vss [] V) as (A & B & C).
  exists (pack L vss). rewrite app_nil_r in A. split; [|exact A].
  pose proof (apt_ask_ok hc expect sizeof src dst (pack L vss) [] rest) as K.
  rewrite !app_nil_r in K. rewrite B in K. apply K; try assumption; reflexivity.
Qed.

Lemma apt_write_fields L sizeof dev host id vss :
  layout_wf L sizeof = true -> values_ok L vss -> dev < 256 -> host < 256 -> id < 65536 ->
  exists h, write_data_command dev host id (pack L vss) = h ++ pack L vss /\
            unpack_data h = Some (id, sizeof, N.lor dev 128, host) /\ unpack L (pack L vss) = vss.
Proof.
  intros WF V Hd Hh Hi. destruct (fields_roundtrip L sizeof WF vss [] V) as (A & B & C).
  rewrite app_nil_r in A.
  destruct (write_data_device dev host id (pack L vss) Hd Hh Hi ltac:(lia)) as (h & E & _ & U).
  exists h. rewrite B in U. repeat split; assumption.
Qed.
