(* C15 / Thorlabs APT — lemmas about ModelApt.v *)
From Coq Require Import ZArith NArith List Bool Lia ZifyBool ZifyNat ZifyN.
Require Import QV.C15.ModelBase QV.C15.ModelApt QV.C15.ProofsScpi.
Import ListNotations.
Ltac Zify.zify_post_hook ::= Z.to_euclidean_division_equations.
Open Scope N_scope.

Lemma dec16_le16 n : n < 65536 -> dec16 (n mod 256) ((n / 256) mod 256) = n.
Proof. unfold dec16. lia. Qed.

Lemma hdr_params_roundtrip id p1 p2 d s :
  id < 65536 -> p1 < 256 -> p2 < 256 -> d < 256 -> s < 256 ->
  unpack_params (hdr_params id p1 p2 d s) = Some (id, p1, p2, d, s).
Proof.
  intros. unfold hdr_params, le16. cbn [app unpack_params].
  rewrite (N.mod_small id 65536), (N.mod_small p1 256), (N.mod_small p2 256), (N.mod_small d 256), (N.mod_small s 256) by assumption.
  rewrite dec16_le16 by assumption. reflexivity.
Qed.

Lemma hdr_data_roundtrip id n d s :
  id < 65536 -> n < 65536 -> d < 256 -> s < 256 ->
  unpack_data (hdr_data id n d s) = Some (id, n, d, s).
Proof.
  intros. unfold hdr_data, le16. cbn [app unpack_data].
  rewrite (N.mod_small id 65536), (N.mod_small n 65536), (N.mod_small d 256), (N.mod_small s 256) by assumption.
  rewrite !dec16_le16 by assumption. reflexivity.
Qed.

Lemma lor128_lt d : d < 256 -> N.lor d 128 < 256.
Proof.
  intro H. destruct (N.eq_dec (N.lor d 128) 0) as [E|E]; [rewrite E; reflexivity|].
  change 256 with (2 ^ 8). apply N.log2_lt_pow2; [lia|].
  rewrite N.log2_lor. apply N.max_lub_lt; [|reflexivity].
  destruct (N.eq_dec d 0) as [->|Nd]; [reflexivity|]. apply N.log2_lt_pow2; [lia|exact H].
Qed.

(* what a conforming device unpacks from write_param_command / write_data_command *)
Lemma write_param_device dev host id p1 p2 :
  dev < 256 -> host < 256 -> id < 65536 -> p1 < 256 -> p2 < 256 ->
  unpack_params (write_param_command dev host id p1 p2) = Some (id, p1, p2, dev, host).
Proof. intros. apply hdr_params_roundtrip; assumption. Qed.

Lemma write_data_device dev host id payload :
  dev < 256 -> host < 256 -> id < 65536 -> len payload < 65536 ->
  exists h, write_data_command dev host id payload = h ++ payload /\ length h = 6%nat /\
            unpack_data h = Some (id, len payload, N.lor dev 128, host).
Proof.
  intros. exists (hdr_data id (len payload) (N.lor dev 128) host). split; [reflexivity|]. split; [reflexivity|].
  apply hdr_data_roundtrip; try assumption. apply lor128_lt. assumption.
Qed.

Lemma take6 a b c d e f s : take 6 (a :: b :: c :: d :: e :: f :: s) = Some ([a; b; c; d; e; f], s).
Proof. change (a :: b :: c :: d :: e :: f :: s) with ([a; b; c; d; e; f] ++ s). apply (take_app [a; b; c; d; e; f] s). Qed.

(* a data reply with the expected id: exactly the sizeof bytes that followed the header *)
Lemma apt_ask_ok hc expect sizeof src dst payload extra rest :
  expect < 65536 -> len (payload ++ extra) < 65536 -> len payload = sizeof -> dst < 256 -> src < 256 ->
  apt_ask hc false expect sizeof (hdr_data expect (len (payload ++ extra)) dst src ++ (payload ++ extra) ++ rest)
  = (Ok payload, rest).
Proof.
  intros He Hl Hs Hd Hsr. unfold hdr_data, le16. cbn [app]. unfold apt_ask. rewrite take6.
  rewrite (N.mod_small expect 65536), (N.mod_small (len (payload ++ extra)) 65536) by assumption.
  rewrite !dec16_le16 by assumption. rewrite take_app. rewrite N.eqb_refl. cbn [negb].
  replace (len (payload ++ extra) <? sizeof) with false by (unfold len in *; rewrite app_length; lia).
  subst sizeof. replace (N.to_nat (len payload)) with (length payload) by (unfold len; lia). rewrite firstn_app, firstn_all, Nat.sub_diag. cbn [firstn].
  rewrite app_nil_r. reflexivity.
Qed.

(* a data reply with another id is an error, whatever follows *)
Lemma apt_ask_wrong_id hc expect sizeof rid n dst src data rest :
  expect <> rid -> rid < 65536 -> len data = n -> n < 65536 ->
  apt_ask hc false expect sizeof (hdr_data rid n dst src ++ data ++ rest) = (Err EInstr, rest).
Proof.
  intros NE Hr Hl Hn. unfold hdr_data, le16. cbn [app]. unfold apt_ask. rewrite take6.
  rewrite (N.mod_small rid 65536), (N.mod_small n 65536) by assumption.
  rewrite !dec16_le16 by assumption. subst n. rewrite take_app.
  replace (expect =? rid) with false by lia. reflexivity.
Qed.

(* soundness: data is only ever returned from a reply carrying the expected id *)
Lemma apt_ask_sound hc expect sizeof s out rest :
  apt_ask hc false expect sizeof s = (Ok out, rest) ->
  exists a b l0 l1 d sr data,
    s = [a; b; l0; l1; d; sr] ++ data ++ rest /\ dec16 a b = expect /\ len data = dec16 l0 l1 /\
    sizeof <= len data /\ out = firstn (N.to_nat sizeof) data.
Proof.
  unfold apt_ask. destruct (take 6 s) as [[h s1]|] eqn:T1; [|discriminate].
  apply take_spec in T1. destruct T1 as [-> L1].
  destruct h as [|a [|b [|l0 [|l1 [|d [|sr [|? ?]]]]]]]; try discriminate.
  destruct (take (dec16 l0 l1) s1) as [[data s2]|] eqn:T2; [|discriminate].
  apply take_spec in T2. destruct T2 as [-> L2].
  destruct (negb (expect =? dec16 a b)) eqn:E; [discriminate|]. apply negb_false_iff, N.eqb_eq in E.
  destruct (len data <? sizeof) eqn:S; [discriminate|]. intro H. injection H as <- <-.
  exists a, b, l0, l1, d, sr, data. repeat split; try assumption; try lia.
Qed.

Lemma apt_ask_header_only expect sizeof a b c d e f rest :
  apt_ask false true expect sizeof (a :: b :: c :: d :: e :: f :: rest) = (Ok [a; b; c; d; e; f], rest).
Proof. unfold apt_ask. rewrite take6. reflexivity. Qed.

(* HEADER_ONLY packet types.  With ho_check = false (the code as pinned) ask checks exactly that six
   bytes arrive -- the message id in them is NOT compared with the expected one; with ho_check = true
   (an implementation that does compare) a different id is an error and a matching one is returned.
   In both cases whatever is returned is exactly the six header bytes the device sent. *)
Lemma apt_ask_header_only_spec expect sizeof s :
  apt_ask false true expect sizeof s =
    match take 6 s with None => (Err ETimeout, s) | Some (h, r) => (Ok h, r) end.
Proof. unfold apt_ask. destruct (take 6 s) as [[h r]|]; reflexivity. Qed.

Lemma apt_ask_header_only_id_unchecked e1 e2 z1 z2 s : apt_ask false true e1 z1 s = apt_ask false true e2 z2 s.
Proof. rewrite !apt_ask_header_only_spec. reflexivity. Qed.

Lemma apt_ask_header_only_checked expect sizeof a b c d e f rest :
  apt_ask true true expect sizeof (a :: b :: c :: d :: e :: f :: rest) =
    if expect =? dec16 a b then (Ok [a; b; c; d; e; f], rest) else (Err EInstr, rest).
Proof. unfold apt_ask. rewrite take6. cbn [andb hdr_id]. destruct (expect =? dec16 a b); reflexivity. Qed.

Lemma apt_ask_header_only_sound hc expect sizeof s out rest :
  apt_ask hc true expect sizeof s = (Ok out, rest) -> s = out ++ rest /\ length out = 6%nat.
Proof.
  unfold apt_ask. destruct (take 6 s) as [[h r]|] eqn:T; [|discriminate].
  apply take_spec in T. destruct T as [-> L]. destruct (hc && _); [discriminate|].
  intro H. injection H as <- <-. split; [reflexivity|]. unfold len in L. lia.
Qed.
