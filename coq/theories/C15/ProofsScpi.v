(* C15 / SCPI — lemmas about ModelScpi.v (includes the decimal codec lemma) *)
From Coq Require Import ZArith NArith List Bool Lia ZifyBool ZifyNat ZifyN.
Require Import QV.C15.ModelBase QV.C15.ModelScpi.
Import ListNotations.
Ltac Zify.zify_post_hook ::= Z.to_euclidean_division_equations.
Open Scope N_scope.

Lemma bytes_eqb_eq a : forall b, bytes_eqb a b = true <-> a = b.
Proof.
  induction a as [|x a IH]; intros [|y b]; cbn [bytes_eqb]; split; intro H; try reflexivity; try discriminate.
  - apply andb_true_iff in H. destruct H as [H1 H2]. apply N.eqb_eq in H1. apply IH in H2. congruence.
  - injection H as -> ->. rewrite N.eqb_refl. apply IH. reflexivity.
Qed.
Lemma bytes_eqb_refl a : bytes_eqb a a = true.
Proof. apply bytes_eqb_eq. reflexivity. Qed.

Lemma take_app a b : take (len a) (a ++ b) = Some (a, b).
Proof.
  unfold take, len. rewrite app_length. replace (_ <? _) with false by lia.
  rewrite Nat2N.id. rewrite firstn_app, firstn_all, Nat.sub_diag, skipn_app, skipn_all, Nat.sub_diag.
  cbn [firstn skipn app]. rewrite app_nil_r. reflexivity.
Qed.

Lemma len_app' (a b : list N) : len (a ++ b) = len a + len b.
Proof. unfold len. rewrite app_length. lia. Qed.

Lemma take2 x y s : take 2 (x :: y :: s) = Some ([x; y], s).
Proof. change (x :: y :: s) with ([x; y] ++ s). apply (take_app [x; y] s). Qed.

Lemma take_spec n s a b : take n s = Some (a, b) -> s = a ++ b /\ len a = n.
Proof.
  unfold take. destruct (len s <? n) eqn:E; [discriminate|]. intro H. injection H as <- <-.
  split; [symmetry; apply firstn_skipn|]. unfold len in *. rewrite firstn_length. lia.
Qed.

Lemma take_none n s : take n s = None -> len s < n.
Proof. unfold take. destruct (len s <? n) eqn:E; [lia|discriminate]. Qed.

(* ---------- decimal codec ---------------------------------------------------------------- *)
Lemma parse_dec_snoc l d : parse_dec (l ++ [d]) = parse_dec l * 10 + (d - 48).
Proof. unfold parse_dec. rewrite fold_left_app. reflexivity. Qed.

Lemma print_pad_length nd : forall n, length (print_pad nd n) = nd.
Proof. induction nd as [|k IH]; intro n; cbn [print_pad]; [reflexivity|]. rewrite app_length, IH. cbn. lia. Qed.

Lemma print_pad_digits nd : forall n, forallb is_digit (print_pad nd n) = true.
Proof.
  induction nd as [|k IH]; intro n; cbn [print_pad]; [reflexivity|].
  rewrite forallb_app, IH. cbn [forallb]. unfold is_digit. lia.
Qed.

Lemma parse_print nd : forall n, n < 10 ^ N.of_nat nd -> parse_dec (print_pad nd n) = n.
Proof.
  induction nd as [|k IH]; intros n H.
  - cbn in H. cbn. lia.
  - cbn [print_pad]. rewrite parse_dec_snoc. rewrite Nat2N.inj_succ, N.pow_succ_r' in H.
    rewrite IH by lia. lia.
Qed.

(* in general the printed field holds n modulo 10^nd: a too-narrow field silently loses digits on
   the device side, which is why the theorem below requires len data < 10^nd *)
Lemma isdigit_print nd n : (1 <= nd)%nat -> isdigit (print_pad nd n) = true.
Proof.
  intro H. unfold isdigit. rewrite print_pad_length, print_pad_digits.
  destruct nd; [lia|reflexivity].
Qed.

(* ---------- definite length block ------------------------------------------------------------ *)
Lemma read_block_roundtrip flag term nd data rest :
  (1 <= nd <= 9)%nat -> len data < 10 ^ N.of_nat nd ->
  read_block flag term (encode_block nd data ++ (if flag then term else []) ++ rest) = (Ok data, rest).
Proof.
  intros Hnd Hlen. unfold encode_block. cbn [app]. unfold read_block, read_block_g.
  rewrite take2. replace (35 =? 35) with true by reflexivity. cbn [negb].
  assert (D : is_digit (48 + N.of_nat nd) = true) by (unfold is_digit; lia).
  rewrite D. cbn [negb]. replace (48 + N.of_nat nd - 48) with (N.of_nat nd) by lia.
  replace (N.of_nat nd =? 0) with false by lia.
  rewrite <- !app_assoc.
  pose proof (print_pad_length nd (len data)) as PL.
  assert (TK : forall s, take (N.of_nat nd) (print_pad nd (len data) ++ s) = Some (print_pad nd (len data), s)).
  { intro s. rewrite <- PL at 1. apply take_app. }
  rewrite TK. rewrite isdigit_print by lia. cbn [negb]. rewrite parse_print by exact Hlen.
  rewrite take_app. destruct flag.
  - rewrite take_app, bytes_eqb_refl. reflexivity.
  - reflexivity.
Qed.

(* anything read_binary_data returns came out of a well-formed block *)
Lemma read_block_sound flag term s data rest :
  read_block flag term s = (Ok data, rest) ->
  exists nd digits,
    s = [35; 48 + nd] ++ digits ++ data ++ (if flag then term else []) ++ rest /\
    1 <= nd <= 9 /\ len digits = nd /\ forallb is_digit digits = true /\ len data = parse_dec digits.
Proof.
  unfold read_block, read_block_g.
  destruct (take 2 s) as [[header s1]|] eqn:T1; [|discriminate].
  apply take_spec in T1. destruct T1 as [-> L1].
  destruct header as [|h0 [|h1 [|? ?]]]; try discriminate; try (unfold len in L1; cbn in L1; lia).
  destruct (negb (h0 =? 35)) eqn:E0; [discriminate|]. apply negb_false_iff, N.eqb_eq in E0. subst h0.
  destruct (negb (is_digit h1)) eqn:E1; [discriminate|]. apply negb_false_iff in E1.
  destruct (h1 - 48 =? 0) eqn:E2; [discriminate|].
  destruct (take (h1 - 48) s1) as [[header2 s2]|] eqn:T2; [|discriminate].
  apply take_spec in T2. destruct T2 as [-> L2].
  destruct (negb (isdigit header2)) eqn:E3; [discriminate|]. apply negb_false_iff in E3.
  destruct (take (parse_dec header2) s2) as [[d s3]|] eqn:T3; [|discriminate].
  apply take_spec in T3. destruct T3 as [-> L3].
  assert (COMMON : 1 <= h1 - 48 <= 9 /\ forallb is_digit header2 = true /\ 48 + (h1 - 48) = h1).
  { unfold is_digit in E1. unfold isdigit in E3. apply andb_true_iff in E3. destruct E3 as [_ E3].
    split; [lia|]. split; [exact E3|lia]. }
  destruct COMMON as (C1 & C2 & C3).
  destruct flag.
  - destruct (take (len term) s3) as [[tail s4]|] eqn:T4; [|discriminate].
    apply take_spec in T4. destruct T4 as [-> L4].
    destruct (bytes_eqb tail term) eqn:E4; [|discriminate]. apply bytes_eqb_eq in E4. subst tail.
    intro H. injection H as <- <-. exists (h1 - 48), header2. rewrite C3.
    repeat split; try assumption; try lia. 
  - intro H. injection H as <- <-. exists (h1 - 48), header2. rewrite C3.
    repeat split; try assumption; try lia.
Qed.

(* rejection of each malformed-header class, stated directly *)
Lemma read_block_bad_hash flag term h0 h1 s : h0 <> 35 -> fst (read_block flag term (h0 :: h1 :: s)) = Err EInstr.
Proof.
  intro H. unfold read_block, read_block_g. rewrite take2.
  replace (h0 =? 35) with false by lia. reflexivity.
Qed.
Lemma read_block_bad_count flag term h1 s :
  is_digit h1 = false \/ h1 = 48 -> fst (read_block flag term (35 :: h1 :: s)) = Err EInstr.
Proof.
  intro H. unfold read_block, read_block_g. rewrite take2.
  replace (35 =? 35) with true by reflexivity. cbn [negb].
  destruct (is_digit h1) eqn:D; [|reflexivity]. destruct H as [H | H]; [discriminate | subst h1; reflexivity].
Qed.
Lemma read_block_bad_length flag term nd digits s :
  1 <= nd <= 9 -> len digits = nd -> forallb is_digit digits = false ->
  fst (read_block flag term ([35; 48 + nd] ++ digits ++ s)) = Err EInstr.
Proof.
  intros Hnd L D. cbn [app]. unfold read_block, read_block_g. rewrite take2.
  replace (35 =? 35) with true by reflexivity. cbn [negb].
  replace (is_digit (48 + nd)) with true by (unfold is_digit; lia). cbn [negb].
  replace (48 + nd - 48) with nd by lia. replace (nd =? 0) with false by lia.
  rewrite <- L at 1. rewrite take_app. unfold isdigit. rewrite D, andb_false_r. reflexivity.
Qed.
Lemma read_block_bad_tail term nd data tail rest :
  (1 <= nd <= 9)%nat -> len data < 10 ^ N.of_nat nd -> len tail = len term -> tail <> term ->
  fst (read_block true term (encode_block nd data ++ tail ++ rest)) = Err EInstr.
Proof.
  intros Hnd Hlen L NE. unfold encode_block. cbn [app]. unfold read_block, read_block_g.
  rewrite take2. replace (35 =? 35) with true by reflexivity. cbn [negb].
  replace (is_digit (48 + N.of_nat nd)) with true by (unfold is_digit; lia). cbn [negb].
  replace (48 + N.of_nat nd - 48) with (N.of_nat nd) by lia. replace (N.of_nat nd =? 0) with false by lia.
  rewrite <- !app_assoc. pose proof (print_pad_length nd (len data)) as PL.
  assert (TK : forall s, take (N.of_nat nd) (print_pad nd (len data) ++ s) = Some (print_pad nd (len data), s)).
  { intro s. rewrite <- PL at 1. apply take_app. }
  rewrite TK, isdigit_print by lia. cbn [negb]. rewrite parse_print by exact Hlen.
  rewrite take_app. rewrite <- L. rewrite take_app.
  destruct (bytes_eqb tail term) eqn:E; [apply bytes_eqb_eq in E; contradiction|reflexivity].
Qed.

Lemma read_block_errors flag term s : 
  match fst (read_block flag term s) with Ok _ | Err EInstr | Err ETimeout => True | _ => False end.
Proof.
  unfold read_block, read_block_g. destruct (take 2 s) as [[header s1]|] eqn:T1; [|exact I].
  apply take_spec in T1. destruct T1 as [_ L1].
  destruct header as [|h0 [|h1 [|? ?]]]; try (unfold len in L1; cbn in L1; lia).
  repeat match goal with
  | |- context [if ?c then _ else _] => destruct c
  | |- context [match take ?a ?b with _ => _ end] => destruct (take a b) as [[? ?]|]
  end; exact I.
Qed.

(* ---------- ask ---------------------------------------------------------------------------- *)
Definition ascii (l : list N) : bool := forallb (fun c => c <? 128) l.

Lemma endswith_app b t : endswith (b ++ t) t = true.
Proof.
  unfold endswith. rewrite app_length. replace (length t <=? length b + length t)%nat with true by lia.
  replace (length b + length t - length t)%nat with (length b) by lia.
  rewrite skipn_app, skipn_all, Nat.sub_diag. apply bytes_eqb_refl.
Qed.

Lemma endswith_spec r t : endswith r t = true <-> exists b, r = b ++ t.
Proof.
  split.
  - unfold endswith. intro H. apply andb_true_iff in H. destruct H as [_ H]. apply bytes_eqb_eq in H.
    exists (firstn (length r - length t) r).
    transitivity (firstn (length r - length t) r ++ skipn (length r - length t) r);
      [symmetry; apply firstn_skipn | f_equal; exact H].
  - intros [b ->]. apply endswith_app.
Qed.

Lemma ask_writes cmd ct rt r : ascii cmd = true -> fst (ask cmd ct rt r) = [cmd ++ ct].
Proof.
  intro A. unfold ask. fold (ascii cmd). rewrite A. cbn [negb].
  destruct r as [|resp]; [reflexivity|]. destruct (negb (endswith resp rt)); [reflexivity|].
  destruct (negb _); reflexivity.
Qed.

Lemma ask_nonascii cmd ct rt r : ascii cmd = false -> ask cmd ct rt r = ([], Err EUniEnc).
Proof. intro A. unfold ask. fold (ascii cmd). rewrite A. reflexivity. Qed.

Lemma ask_ok cmd ct rt body : ascii cmd = true -> rt <> [] -> ascii body = true ->
  ask cmd ct rt (RMsg (body ++ rt)) = ([cmd ++ ct], Ok body).
Proof.
  intros A NE B. unfold ask. fold (ascii cmd). rewrite A. cbn [negb]. rewrite endswith_app. cbn [negb].
  assert (Z : (length rt =? 0)%nat = false) by (destruct rt; [contradiction|reflexivity]). rewrite Z.
  rewrite app_length. replace (length body + length rt - length rt)%nat with (length body + 0)%nat by lia.
  rewrite firstn_app_2. cbn [firstn]. rewrite app_nil_r. fold (ascii body). rewrite B. reflexivity.
Qed.

Lemma ask_missing_terminator cmd ct rt resp : ascii cmd = true -> (forall b, resp <> b ++ rt) ->
  ask cmd ct rt (RMsg resp) = ([cmd ++ ct], Err EInstr).
Proof.
  intros A H. unfold ask. fold (ascii cmd). rewrite A. cbn [negb].
  destruct (endswith resp rt) eqn:E; [|reflexivity]. apply endswith_spec in E. destruct E as [b E].
  exfalso. exact (H b E).
Qed.

Lemma ask_timeout cmd ct rt : ascii cmd = true -> ask cmd ct rt RTimeout = ([cmd ++ ct], Err ETimeout).
Proof. intro A. unfold ask. fold (ascii cmd). rewrite A. reflexivity. Qed.

(* ---------- any splitting of the reply into transfers --------------------------------------- *)
Section Simulation.
  Variable S : Type.
  Variable rd : N -> S -> option (list N * S).
  Variable alpha : S -> list N.
  Hypothesis rd_some : forall n s x s', rd n s = Some (x, s') -> take n (alpha s) = Some (x, alpha s').
  Hypothesis rd_none : forall n s, rd n s = None -> take n (alpha s) = None.

  Lemma read_block_sim flag term s :
    read_block flag term (alpha s) =
      (fst (read_block_g S rd flag term s), alpha (snd (read_block_g S rd flag term s))).
  Proof.
    unfold read_block, read_block_g.
    destruct (rd 2 s) as [[header s1]|] eqn:R1; [rewrite (rd_some _ _ _ _ R1)|rewrite (rd_none _ _ R1); reflexivity].
    destruct header as [|h0 [|h1 [|? ?]]]; try reflexivity.
    destruct (negb (h0 =? 35)); [reflexivity|]. destruct (negb (is_digit h1)); [reflexivity|].
    cbv zeta. destruct (h1 - 48 =? 0); [reflexivity|].
    destruct (rd (h1 - 48) s1) as [[header2 s2]|] eqn:R2; [rewrite (rd_some _ _ _ _ R2)|rewrite (rd_none _ _ R2); reflexivity].
    destruct (negb (isdigit header2)); [reflexivity|].
    destruct (rd (parse_dec header2) s2) as [[data s3]|] eqn:R3; [rewrite (rd_some _ _ _ _ R3)|rewrite (rd_none _ _ R3); reflexivity].
    destruct flag; [|reflexivity].
    destruct (rd (len term) s3) as [[tail s4]|] eqn:R4; [rewrite (rd_some _ _ _ _ R4)|rewrite (rd_none _ _ R4); reflexivity].
    destruct (bytes_eqb tail term); reflexivity.
  Qed.
End Simulation.

Lemma cfill_spec n : forall pend buf b p, cfill n buf pend = (b, p) ->
  b ++ concat p = buf ++ concat pend /\ (len b < n -> p = []).
Proof.
  induction pend as [|c r IH]; intros buf b p H; cbn [cfill] in H.
  - injection H as <- <-. split; [reflexivity|reflexivity].
  - destruct (len buf <? n) eqn:E.
    + destruct (IH _ _ _ H) as [A B]. split; [rewrite A; cbn [concat]; rewrite app_assoc; reflexivity|exact B].
    + injection H as <- <-. split; [reflexivity|]. intro. lia.
Qed.

Lemma take_prefix n b x : n <= len b ->
  take n (b ++ x) = Some (firstn (N.to_nat n) b, skipn (N.to_nat n) b ++ x).
Proof.
  intro H. unfold take. rewrite len_app'. replace (len b + len x <? n) with false by lia.
  rewrite firstn_app, skipn_app. replace (N.to_nat n - length b)%nat with 0%nat by (unfold len in H; lia).
  cbn [firstn skipn]. rewrite app_nil_r. reflexivity.
Qed.

Lemma ctake_some n s x s' : ctake n s = Some (x, s') -> take n (cflat s) = Some (x, cflat s').
Proof.
  unfold ctake, cflat. destruct (cfill n (fst s) (snd s)) as [b p] eqn:F.
  destruct (cfill_spec _ _ _ _ _ F) as [A _]. rewrite <- A.
  destruct (len b <? n) eqn:E; [discriminate|]. intro H. injection H as <- <-. cbn [fst snd].
  apply take_prefix. lia.
Qed.

Lemma ctake_none n s : ctake n s = None -> take n (cflat s) = None.
Proof.
  unfold ctake, cflat. destruct (cfill n (fst s) (snd s)) as [b p] eqn:F.
  destruct (cfill_spec _ _ _ _ _ F) as [A B]. rewrite <- A.
  destruct (len b <? n) eqn:E; [|discriminate]. intros _. rewrite (B ltac:(lia)). cbn [concat]. rewrite app_nil_r.
  unfold take. rewrite E. reflexivity.
Qed.

(* reading a block from any sequence of transfers = reading it from their concatenation: same
   outcome, same unread bytes -- wherever the cuts fall ('#', digit count, length digits, data,
   terminator), including empty transfers *)
Lemma read_block_split flag term transfers :
  read_block flag term (concat transfers) =
    (fst (read_block_chunked flag term transfers), cflat (snd (read_block_chunked flag term transfers))).
Proof.
  unfold read_block_chunked.
  apply (read_block_sim cstate ctake cflat ctake_some ctake_none flag term (@nil N, transfers)).
Qed.

Lemma read_block_split_roundtrip (flag : bool) (term : list N) nd data rest transfers :
  (1 <= nd <= 9)%nat -> len data < 10 ^ N.of_nat nd ->
  concat transfers = encode_block nd data ++ (if flag then term else []) ++ rest ->
  fst (read_block_chunked flag term transfers) = Ok data /\
  cflat (snd (read_block_chunked flag term transfers)) = rest.
Proof.
  intros Hnd Hl C. pose proof (read_block_split flag term transfers) as S.
  rewrite C, read_block_roundtrip in S by assumption. injection S as <- <-. split; reflexivity.
Qed.

(* ---------- write / ask with a command that is not ASCII -------------------------------------- *)
Lemma scpi_write_ascii cmd ct : ascii cmd = true -> scpi_write cmd ct = Ok [cmd ++ ct].
Proof. intro A. unfold scpi_write. fold (ascii cmd). rewrite A. reflexivity. Qed.
Lemma scpi_write_nonascii cmd ct : ascii cmd = false -> scpi_write cmd ct = Err EUniEnc.
Proof. intro A. unfold scpi_write. fold (ascii cmd). rewrite A. reflexivity. Qed.
