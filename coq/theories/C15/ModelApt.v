(* C15 / Thorlabs APT — executable model, no proofs.
   Transcribes /repo/qmi/instruments/thorlabs/apt_protocol.py: AptMessageHeaderWithParams /
   AptMessageHeaderForData layouts (packed little-endian ctypes structures),
   AptProtocol.write_param_command, write_data_command, ask.  A data packet type of
   apt_packets.py is represented by (HEADER_ONLY, MESSAGE_ID, sizeof); the returned structure is
   represented by its bytes.  ctypes integer fields silently truncate (mod 2^k). *)
Require Export QV.C15.ModelBase.

Definition hdr_params (id p1 p2 dest src : N) : list N :=
  le16 (id mod 65536) ++ [p1 mod 256; p2 mod 256; dest mod 256; src mod 256].

Definition hdr_data (id dlen dest src : N) : list N :=
  le16 (id mod 65536) ++ le16 (dlen mod 65536) ++ [dest mod 256; src mod 256].

(* reference device: unpack either header form *)
Definition unpack_params (h : list N) : option (N * N * N * N * N) :=
  match h with
  | [a; b; p1; p2; d; s] => Some (dec16 a b, p1, p2, d, s)
  | _ => None
  end.
Definition unpack_data (h : list N) : option (N * N * N * N) :=
  match h with
  | [a; b; l0; l1; d; s] => Some (dec16 a b, dec16 l0 l1, d, s)
  | _ => None
  end.

Definition write_param_command (dev host id p1 p2 : N) : list N := hdr_params id p1 p2 dev host.

Definition write_data_command (dev host id : N) (payload : list N) : list N :=
  hdr_data id (len payload) (N.lor dev 128) host ++ payload.

(* ask(data_type): stream = bytes the device will deliver; returns outcome and unread rest.
   ho_check: does ask compare the message id of a HEADER_ONLY reply with the expected one?  The property
   leaves this open (it only demands the check for data messages); the flag is PROBED on the live code
   on every run (false for the code as pinned: the header is returned unchecked). *)
Definition hdr_id (h : list N) : N := match h with a :: b :: _ => dec16 a b | _ => 0 end.
Definition apt_ask (ho_check : bool) (header_only : bool) (expect_id sizeof : N) (s : list N) : res (list N) * list N :=
  match take 6 s with
  | None => (Err ETimeout, s)
  | Some (h, s1) =>
      if header_only then                       (* data_type.from_buffer_copy(header_bytes), sizeof = 6 *)
        if ho_check && negb (expect_id =? hdr_id h) then (Err EInstr, s1) else (Ok h, s1)
      else match h with
      | [a; b; l0; l1; _; _] =>
          match take (dec16 l0 l1) s1 with
          | None => (Err ETimeout, s1)
          | Some (d, s2) =>
              if negb (expect_id =? dec16 a b) then (Err EInstr, s2)
              else if len d <? sizeof then (Err EValue, s2)        (* from_buffer_copy: buffer too small *)
              else (Ok (firstn (N.to_nat sizeof) d), s2)
          end
      | _ => (Err EOutOfFuel, s1)
      end
  end.
