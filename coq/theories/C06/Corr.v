(* C06 correspondence: the model is run on the byte stream / script that the harness fed to the
   real _PeerTcpConnection, and its events and final state are compared with what was observed.
   Unpickling is supplied as a finite table (payload bytes -> canonical message or failure) computed
   on the python side with the real pickle.loads. *)
Require Export QV.Lib.Corr QV.C06.Model.

Definition tab := list (bytes * option msg).

Definition bytes_eqb (a b : bytes) : bool := list_eqb N.eqb a b.

Fixpoint lookup (t : tab) (p : bytes) : option (option msg) :=
  match t with
  | [] => None
  | (q, r) :: t' => if bytes_eqb q p then Some r else lookup t' p
  end.

Definition deser_of (t : tab) (p : bytes) : option msg :=
  match lookup t p with Some r => r | None => None end.

(* every payload of a complete, well-formed frame at the front of the stream must be in the table
   (otherwise the case is rejected rather than silently treated as "does not unpickle") *)
Fixpoint frames_known (fuel : nat) (mx : N) (t : tab) (b : bytes) : bool :=
  match fuel with
  | O => false
  | S f =>
    match b with
    | [] => true
    | b0 :: _ =>
      if negb (b0 =? marker)%N then true
      else if (N.of_nat (length b) <? 9)%N then true
      else let size := le_decode (firstn 8 (skipn 1 b)) in
        if (mx <? size)%N then true
        else if (N.of_nat (length b) <? 9 + size)%N then true
        else let n := N.to_nat size in
          match lookup t (firstn n (skipn 9 b)) with
          | None => false
          | Some _ => frames_known f mx t (skipn (9 + n) b)
          end
    end
  end.

(* A payload whose content the framing layer never looks at may be given as a surrogate of the
   same length (k repeated n times; distinct payloads get distinct k): the real bytes then only
   live on the python side, where pickle.loads turns them into the table entry for the surrogate. *)
Definition blob (k n : N) : bytes := repeat k (N.to_nat n).

(* script: what the harness did, in order; SRecv n = the next n bytes of the stream arrived;
   SRecvs k n = k times SRecv n *)
Inductive sop := SRecv (n : N) | SRecvs (k n : N) | SEof | SSend (m : msg) (sz : N) | SDisc.

Fixpoint take_chunks (k n : nat) (s : bytes) : list op * bytes :=
  match k with
  | O => ([], s)
  | S k' => let '(o, r) := take_chunks k' n (skipn n s) in (ORecv (firstn n s) :: o, r)
  end.

Fixpoint to_ops (stream : bytes) (sc : list sop) : list op :=
  match sc with
  | [] => []
  | SRecv n :: r => ORecv (firstn (N.to_nat n) stream) :: to_ops (skipn (N.to_nat n) stream) r
  | SRecvs k n :: r =>
      let '(o, rest) := take_chunks (N.to_nat k) (N.to_nat n) stream in o ++ to_ops rest r
  | SEof :: r => OEof :: to_ops stream r
  | SSend m sz :: r => OSend m sz :: to_ops stream r
  | SDisc :: r => ODisconnect :: to_ops stream r
  end.

Definition addr_eqb (a b : addr) : bool := (fst a =? fst b)%N && (snd a =? snd b)%N.

Definition kind_eqb (a b : kind) : bool :=
  match a, b with
  | KHandshake x, KHandshake y => Bool.eqb x y
  | KRequest x, KRequest y => (x =? y)%N
  | KReply x e, KReply y e' => (x =? y)%N && Bool.eqb e e'
  | KOther, KOther => true
  | _, _ => false
  end.

Definition msg_eqb (a b : msg) : bool :=
  kind_eqb (mkind a) (mkind b) && addr_eqb (msrc a) (msrc b) && addr_eqb (mdst a) (mdst b)
  && (mbody a =? mbody b)%N.

Definition event_eqb (a b : event) : bool :=
  match a, b with
  | EDeliver x, EDeliver y | EFail x, EFail y | ERefused x, ERefused y | ESent x, ESent y => msg_eqb x y
  | EError _, EError _ => true   (* that the receive path closed the connection is observed; the model's error
                                    kind mirrors exception class/text, which the implementation is free to choose *)
  | EAssert, EAssert => true
  | _, _ => false
  end.

(* how the harness writes "the connection was closed by an error on the receive path" *)
Definition EErr : event := EError BadPayload.

(* observed: events, closed?, peer_context_name, pending request ids, len(_recv_buf) *)
Definition obs := (list event * bool * option N * list N * N)%type.

Definition case := (cfg * tab * bytes * list sop * obs)%type.

Definition model_out (cs : case) : obs :=
  let '(c, t, stream, sc, _) := cs in
  let '((ps, b), evs) := run (deser_of t) c init (to_ops stream sc) in
  (evs, closed ps, peer ps, ids (pending ps), N.of_nat (length b)).

Definition obs_eqb (a b : obs) : bool :=
  let '(ea, ca, pa, ia, la) := a in
  let '(eb, cb, pb, ib, lb) := b in
  list_eqb event_eqb ea eb && Bool.eqb ca cb &&
  (if ca then true   (* after close only "closed" is observable *)
   else option_eqb N.eqb pa pb && list_eqb N.eqb ia ib && N.eqb la lb).

Definition check_case (cs : case) : bool :=
  let '(c, t, stream, sc, o) := cs in
  frames_known (S (length stream)) (maxsz c) t stream && obs_eqb (model_out cs) o.
