(* C06 — peer TCP connection of a QMI context (qmi/core/messaging.py): executable model, no proofs.

   Transcribes, of class _PeerTcpConnection:
     _receive_data      -> [feed] / [drain]   (append to the receive buffer, then the greedy
                            `while True` extraction loop: marker byte 'P' = 80 checked on the first
                            byte, 8-byte little-endian length decoded once 9 bytes are there,
                            MAX_MESSAGE_SIZE test, complete frame cut off the buffer and handed to
                            _process_message).  receive_handshake does the same framing for the first
                            frame of an outgoing connection with exact-size reads; it is the same
                            function of the byte stream (checked by the correspondence run).
     _process_message   -> [process]          (unpickle = the abstract [deser]; handshake phase:
                            first message must be a handshake, of the right direction; afterwards a
                            handshake is refused; destination context must be the local context;
                            source context must be the peer's name and is rewritten to the local
                            alias; a reply removes its id from the pending table; the message is
                            handed to the router; a request the router refuses is answered with an
                            error reply written to the socket — assumed to fit the size limit)
     send_message       -> [send]             (destination alias -> real peer name, size limit,
                            request ids enter the pending table unless already there) together with
                            the "no such connection" branch of _SocketManager.send_message
     _handle_read's except clause, the EOF branch of _receive_data, close,
     _clear_pending_requests, _SocketManager.remove_peer_connection/disconnect_from_peer
                        -> [close_conn] / [fail]  (the connection is closed, one error reply per
                            pending request is handed to the local router — each one, in table order,
                            also when the router refuses some of them because the requester's handler
                            is gone ([rejects] lists those handlers) — and the table is cleared).

   Abstract: context names, object ids and request ids are numbers (only compared for equality);
   a message is a record (kind, source, destination, opaque body token); pickle.loads followed by
   the isinstance test is the function [deser : bytes -> option msg] (a Section variable; None =
   raised / not a QMI_Message).  Bytes are N. *)
From Coq Require Export List Arith ZArith NArith Bool Lia.
Export ListNotations.
Open Scope N_scope.

Definition bytes := list N.

(* ---- framing ------------------------------------------------------------------------- *)

(* int.from_bytes(b, 'little') *)
Fixpoint le_decode (bs : bytes) : N :=
  match bs with
  | [] => 0
  | b :: r => b + 256 * le_decode r
  end.

(* n.to_bytes(k, 'little') (for n < 256^k) *)
Fixpoint le_encode (k : nat) (n : N) : bytes :=
  match k with
  | O => []
  | S k' => (n mod 256) :: le_encode k' (n / 256)
  end.

Definition marker : N := 80.   (* ord(b'P') *)

(* what send_message puts on the wire for a pickled message p *)
Definition frame (p : bytes) : bytes := marker :: le_encode 8 (N.of_nat (length p)) ++ p.

(* ---- messages ------------------------------------------------------------------------ *)

Definition addr := (N * N)%type.                      (* (context_id, object_id) *)

Inductive kind :=
| KHandshake (is_server : bool)                       (* QMI_InitialHandshakeMessage *)
| KRequest (id : N)                                   (* QMI_RequestMessage and subclasses *)
| KReply (id : N) (is_error : bool)                   (* QMI_ReplyMessage / QMI_ErrorReplyMessage *)
| KOther.                                             (* any other QMI_Message *)

Record msg := mkmsg { mkind : kind; msrc : addr; mdst : addr; mbody : N }.

Definition set_src (m : msg) (a : addr) : msg := mkmsg (mkind m) a (mdst m) (mbody m).
Definition set_dst (m : msg) (a : addr) : msg := mkmsg (mkind m) (msrc m) a (mbody m).

(* ---- connection ---------------------------------------------------------------------- *)

Record cfg := mkcfg {
  local_ctx : N;          (* message_router.context_name *)
  alias     : N;          (* peer_context_alias *)
  incoming  : bool;       (* _is_incoming *)
  maxsz     : N;          (* MAX_MESSAGE_SIZE *)
  rejects   : list N      (* object ids for which router.deliver_message raises QMI_MessageDeliveryException *)
}.

(* protocol state: peer_context_name, "closed", _pending_requests (insertion ordered dict) *)
Record pstate := mkp { peer : option N; closed : bool; pending : list (N * (addr * addr)) }.

(* a connection = protocol state + _recv_buf *)
Definition conn := (pstate * bytes)%type.

Definition init : conn := (mkp None false [], []).

Inductive err :=
| BadMarker | TooBig | BadPayload | NoHandshake | WrongDirection | RepeatedHandshake
| BadDestination | BadSource.

Inductive event :=
| EDeliver (m : msg)     (* received message handed to router.deliver_message (after rewriting) *)
| EFail (m : msg)        (* locally generated error reply handed to router.deliver_message and accepted *)
| ERefused (m : msg)     (* locally generated error reply handed to router.deliver_message, which raised
                            QMI_MessageDeliveryException (the requester's handler is not registered any
                            more, e.g. an RPC future after its timeout); caught, the next one is tried *)
| ESent (m : msg)        (* message written to the socket (after rewriting) *)
| EError (k : err)       (* receive-side exception: the connection is closed *)
| EAssert                (* unused since _SocketManager.send_message catches the assert of a send before
                            the handshake; kept so that old case terms still parse *)
| EOutOfFuel.            (* never produced by [feed] (Proofs.v: feed_no_out_of_fuel) *)

Fixpoint mem (x : N) (l : list N) : bool :=
  match l with [] => false | y :: r => (x =? y) || mem x r end.

Fixpoint remove_id (id : N) (l : list (N * (addr * addr))) : list (N * (addr * addr)) :=
  match l with
  | [] => []
  | e :: r => if fst e =? id then remove_id id r else e :: remove_id id r
  end.

Definition ids (l : list (N * (addr * addr))) : list N := map fst l.

(* a locally generated error reply for request id, from -> to: delivered unless the router has no
   handler for the requester (then the delivery exception is caught and nothing else happens) *)
Definition local_error (c : cfg) (id : N) (from to : addr) : event :=
  let m := mkmsg (KReply id true) from to 0 in
  if mem (snd to) (rejects c) then ERefused m else EFail m.

(* is the requester of this pending entry still registered with the router? *)
Definition registered (c : cfg) (e : N * (addr * addr)) : bool :=
  negb (mem (snd (fst (snd e))) (rejects c)).

(* _clear_pending_requests, one entry: reply from the request's destination to its source *)
Definition fail_reply (c : cfg) (e : N * (addr * addr)) : event :=
  let '(id, (src, dst)) := e in local_error c id dst src.

(* close(): socket closed; EVERY pending request is attempted, in table order, whatever happens to
   the others; table cleared *)
Definition close_p (c : cfg) (ps : pstate) : pstate * list event :=
  (mkp (peer ps) true [], map (fail_reply c) (pending ps)).

(* the except clause of _handle_read *)
Definition fail (c : cfg) (ps : pstate) (k : err) : pstate * list event :=
  let '(ps', ev) := close_p c ps in (ps', EError k :: ev).

Section WithCodec.
  Variable deser : bytes -> option msg.
  Variable c : cfg.

  (* _process_message *)
  Definition process (ps : pstate) (payload : bytes) : pstate * list event :=
    match deser payload with
    | None => fail c ps BadPayload
    | Some m =>
      match peer ps with
      | None =>
        match mkind m with
        | KHandshake srv =>
            if (srv && incoming c) || (negb srv && negb (incoming c)) then fail c ps WrongDirection
            else (mkp (Some (fst (msrc m))) false (pending ps), [])
        | _ => fail c ps NoHandshake
        end
      | Some pn =>
        match mkind m with
        | KHandshake _ => fail c ps RepeatedHandshake
        | k =>
          if negb (fst (mdst m) =? local_ctx c) then fail c ps BadDestination
          else if negb (fst (msrc m) =? pn) then fail c ps BadSource
          else
            let m' := set_src m (alias c, snd (msrc m)) in
            let pend := match k with KReply id _ => remove_id id (pending ps) | _ => pending ps end in
            let back := match k with
                        | KRequest id =>
                            if mem (snd (mdst m)) (rejects c)
                            then [ESent (mkmsg (KReply id true) (mdst m) (pn, snd (msrc m)) 0)]
                            else []
                        | _ => []
                        end in
            (mkp (Some pn) false pend, EDeliver m' :: back)
        end
      end
    end.

  (* the `while True` loop of _receive_data on protocol state ps and buffer b *)
  Fixpoint drain (fuel : nat) (ps : pstate) (b : bytes) : conn * list event :=
    match fuel with
    | O => ((ps, b), [EOutOfFuel])
    | S f =>
      match b with
      | [] => ((ps, b), [])
      | b0 :: _ =>
        if negb (b0 =? marker) then let '(ps', ev) := fail c ps BadMarker in ((ps', []), ev)
        else if N.of_nat (length b) <? 9 then ((ps, b), [])
        else
          let size := le_decode (firstn 8 (skipn 1 b)) in
          if maxsz c <? size then let '(ps', ev) := fail c ps TooBig in ((ps', []), ev)
          else if N.of_nat (length b) <? 9 + size then ((ps, b), [])
          else
            let n := N.to_nat size in
            let payload := firstn n (skipn 9 b) in
            let rest := skipn (9 + n) b in
            let '(ps1, ev) := process ps payload in
            if closed ps1 then ((ps1, []), ev)
            else let '(r, ev') := drain f ps1 rest in (r, ev ++ ev')
      end
    end.

  (* one _handle_read with non-empty data from recv *)
  Definition feed (s : conn) (chunk : bytes) : conn * list event :=
    let '(ps, b) := s in
    if closed ps then (s, [])
    else drain (S (length b + length chunk)) ps (b ++ chunk).

  Fixpoint run_feed (s : conn) (cs : list bytes) : conn * list event :=
    match cs with
    | [] => (s, [])
    | ch :: r => let '(s1, e1) := feed s ch in let '(s2, e2) := run_feed s1 r in (s2, e1 ++ e2)
    end.

  (* specification-level view: process payloads one after the other, stop at the first failure *)
  Fixpoint process_all (ps : pstate) (payloads : list bytes) : pstate * list event :=
    match payloads with
    | [] => (ps, [])
    | p :: r =>
        let '(ps1, e1) := process ps p in
        if closed ps1 then (ps1, e1)
        else let '(ps2, e2) := process_all ps1 r in (ps2, e1 ++ e2)
    end.

  (* _SocketManager.send_message + _PeerTcpConnection.send_message; sz = len(pickle.dumps(message)) *)
  Definition send (ps : pstate) (m : msg) (sz : N) : pstate * list event :=
    let undeliverable :=
      match mkind m with
      | KRequest id => [local_error c id (mdst m) (msrc m)]
      | _ => []
      end in
    if closed ps then (ps, undeliverable)
    else
      match mkind m with
      | KHandshake _ => (ps, if maxsz c <? sz then [] else [ESent m])
      | k =>
        match peer ps with
        | None => (ps, undeliverable)   (* the assert in send_message fails; _SocketManager.send_message
                                           catches it like any send error (since fix ee70139) *)
        | Some pn =>
          let m' := set_dst m (pn, snd (mdst m)) in
          if maxsz c <? sz then (ps, undeliverable)
          else
            let pend := match k with
                        | KRequest id =>
                            if mem id (ids (pending ps)) then pending ps
                            else pending ps ++ [(id, (msrc m', mdst m'))]
                        | _ => pending ps
                        end in
            (mkp (peer ps) false pend, [ESent m'])
        end
      end.

  Inductive op :=
  | ORecv (ch : bytes)          (* recv returned these (non-empty) bytes *)
  | OEof                        (* recv returned b"" *)
  | OSend (m : msg) (sz : N)    (* the router asks to send m to this peer *)
  | ODisconnect.                (* _SocketManager.disconnect_from_peer *)

  Definition close_conn (s : conn) : conn * list event :=
    let '(ps, _) := s in
    if closed ps then (s, []) else let '(ps', ev) := close_p c ps in ((ps', []), ev).

  Definition step (s : conn) (o : op) : conn * list event :=
    match o with
    | ORecv ch => feed s ch
    | OEof => close_conn s
    | ODisconnect => close_conn s
    | OSend m sz => let '(ps, b) := s in let '(ps', ev) := send ps m sz in ((ps', b), ev)
    end.

  Fixpoint run (s : conn) (ops : list op) : conn * list event :=
    match ops with
    | [] => (s, [])
    | o :: r => let '(s1, e1) := step s o in let '(s2, e2) := run s1 r in (s2, e1 ++ e2)
    end.
End WithCodec.

(* ---- trace projections used in the statements ------------------------------------------ *)

Fixpoint delivered (evs : list event) : list msg :=
  match evs with
  | [] => []
  | EDeliver m :: r => m :: delivered r
  | _ :: r => delivered r
  end.

Fixpoint failed_ids (evs : list event) : list N :=
  match evs with
  | [] => []
  | EFail m :: r => match mkind m with KReply id _ => id :: failed_ids r | _ => failed_ids r end
  | _ :: r => failed_ids r
  end.

(* ids of the local error replies the router refused, and of all that were attempted *)
Fixpoint refused_ids (evs : list event) : list N :=
  match evs with
  | [] => []
  | ERefused m :: r => match mkind m with KReply id _ => id :: refused_ids r | _ => refused_ids r end
  | _ :: r => refused_ids r
  end.

Fixpoint attempted_ids (evs : list event) : list N :=
  match evs with
  | [] => []
  | EFail m :: r | ERefused m :: r =>
      match mkind m with KReply id _ => id :: attempted_ids r | _ => attempted_ids r end
  | _ :: r => attempted_ids r
  end.

Fixpoint errors (evs : list event) : list err :=
  match evs with
  | [] => []
  | EError k :: r => k :: errors r
  | _ :: r => errors r
  end.

(* ids of the requests written to the socket, and of the replies received from the peer *)
Fixpoint sent_request_ids (evs : list event) : list N :=
  match evs with
  | [] => []
  | ESent m :: r => match mkind m with KRequest id => id :: sent_request_ids r | _ => sent_request_ids r end
  | _ :: r => sent_request_ids r
  end.

Fixpoint replied_ids (evs : list event) : list N :=
  match evs with
  | [] => []
  | EDeliver m :: r => match mkind m with KReply id _ => id :: replied_ids r | _ => replied_ids r end
  | _ :: r => replied_ids r
  end.
