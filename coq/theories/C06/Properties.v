(* C06 — property theorems only.  Every statement is about the functions of Model.v that the
   correspondence run evaluates against qmi.core.messaging._PeerTcpConnection: [feed]/[run_feed]
   (_receive_data under a segmentation), [process] (_process_message), [step]/[run] (whole scripts
   with sends, EOF and disconnects).  They hold for EVERY unpickling function [deser], EVERY
   configuration [c] (names, direction, size limit, router refusals), every message list and every
   segmentation (unbounded).  Content fidelity assumes the pickle round trip
   [deser (ser m) = Some m] for the messages sent, as a hypothesis of the statement.

   Vocabulary (Proofs.v): [fits c p] = |p| <= MAX_MESSAGE_SIZE; [valid_from c pn m] = m is not a
   handshake, is addressed to the local context and claims source context pn; [rewrite_src c m] =
   m with its source context replaced by the local alias; [bad_head c bad k] = bad starts with a
   byte other than 'P' (k = BadMarker) or with 'P' and an 8-byte length above the limit
   (k = TooBig); [fail c ps k] = what the except-clause of _handle_read does; [registered c e] = the
   requester of pending entry e still has a handler at the router ([rejects c] lists the handlers
   for which deliver_message raises QMI_MessageDeliveryException); [fail_reply c e] = the error reply
   for e: an EFail event when delivered, an ERefused event when the router refused it. *)
Require Import QV.C06.Model QV.C06.Proofs.

(* ---- however the byte stream is cut into segments ---------------------------------------- *)

(* two segmentations of the same byte stream give the same events and the same final state *)
Theorem C06_segmentation_invariance : forall deser c cs1 cs2,
  concat cs1 = concat cs2 -> run_feed deser c init cs1 = run_feed deser c init cs2.
Proof. exact segmentation_init. Qed.
Print Assumptions C06_segmentation_invariance.

(* ... from any connection state (mid-frame buffer, pending requests, ...) *)
Theorem C06_segmentation_invariance_any_state : forall deser c s cs,
  cs <> [] -> run_feed deser c s cs = run_feed deser c s [concat cs].
Proof. exact segmentation_any. Qed.
Print Assumptions C06_segmentation_invariance_any_state.

(* the extraction loop always terminates within its fuel: the model's out-of-fuel value is dead *)
Theorem C06_feed_total : forall deser c s ch, ~ In EOutOfFuel (snd (feed deser c s ch)).
Proof. exact feed_no_out_of_fuel. Qed.
Print Assumptions C06_feed_total.

(* ---- exactly the messages sent, complete, unmodified, in order --------------------------- *)

(* a new connection: handshake hs of the right direction from context pn, then messages ms *)
Theorem C06_exact_delivery : forall deser c,
  (maxsz c < 2 ^ 64)%N ->
  forall (ser : msg -> bytes) pn hs ms cs,
  (forall m, In m (hs :: ms) -> deser (ser m) = Some m /\ fits c (ser m)) ->
  mkind hs = KHandshake (negb (incoming c)) -> fst (msrc hs) = pn ->
  Forall (valid_from c pn) ms ->
  concat cs = concat (map frame (map ser (hs :: ms))) ->
  exists ps evs,
    run_feed deser c init cs = ((ps, []), evs) /\ closed ps = false /\ peer ps = Some pn /\
    delivered evs = map (rewrite_src c) ms /\ errors evs = [] /\ failed_ids evs = [].
Proof. exact exact_delivery_init. Qed.
Print Assumptions C06_exact_delivery.

(* an established connection in any state ps0 (any pending table), buffer empty *)
Theorem C06_exact_delivery_established : forall deser c,
  (maxsz c < 2 ^ 64)%N ->
  forall (ser : msg -> bytes) pn ps0,
  closed ps0 = false -> peer ps0 = Some pn ->
  forall ms,
  (forall m, In m ms -> deser (ser m) = Some m /\ fits c (ser m)) ->
  Forall (valid_from c pn) ms ->
  forall cs,
  concat cs = concat (map frame (map ser ms)) ->
  exists ps1 evs,
    process_all deser c ps0 (map ser ms) = (ps1, evs) /\
    run_feed deser c (ps0, []) cs = ((ps1, []), evs) /\ closed ps1 = false /\ peer ps1 = Some pn /\
    delivered evs = map (rewrite_src c) ms /\ errors evs = [] /\ failed_ids evs = [].
Proof. exact stream_exact. Qed.
Print Assumptions C06_exact_delivery_established.

(* ---- a peer that breaks the protocol ------------------------------------------------------ *)

(* wrong marker / oversize length after the valid messages ms: ms are delivered, then the error,
   the connection is closed with every pending request failed, and nothing of bad (which includes
   everything after it) is delivered — for every segmentation *)
Theorem C06_bad_frame : forall deser c,
  (maxsz c < 2 ^ 64)%N ->
  forall (ser : msg -> bytes) pn ps0,
  closed ps0 = false -> peer ps0 = Some pn ->
  forall ms,
  (forall m, In m ms -> deser (ser m) = Some m /\ fits c (ser m)) ->
  Forall (valid_from c pn) ms ->
  forall bad k cs,
  bad_head c bad k ->
  concat cs = concat (map frame (map ser ms)) ++ bad ->
  exists ps1 e1,
    process_all deser c ps0 (map ser ms) = (ps1, e1) /\
    delivered e1 = map (rewrite_src c) ms /\ errors e1 = [] /\ failed_ids e1 = [] /\
    run_feed deser c (ps0, []) cs =
      ((mkp (Some pn) true [], []), e1 ++ EError k :: map (fail_reply c) (pending ps1)).
Proof. exact stream_bad_frame. Qed.
Print Assumptions C06_bad_frame.

(* a well-framed payload p that _process_message refuses (for one of the reasons of
   C06_violations_rejected), followed by anything *)
Theorem C06_bad_message : forall deser c,
  (maxsz c < 2 ^ 64)%N ->
  forall (ser : msg -> bytes) pn ps0,
  closed ps0 = false -> peer ps0 = Some pn ->
  forall ms,
  (forall m, In m ms -> deser (ser m) = Some m /\ fits c (ser m)) ->
  Forall (valid_from c pn) ms ->
  forall p k rest cs,
  fits c p ->
  (forall ps, closed ps = false -> peer ps = Some pn -> process deser c ps p = fail c ps k) ->
  concat cs = concat (map frame (map ser ms)) ++ frame p ++ rest ->
  exists ps1 e1,
    process_all deser c ps0 (map ser ms) = (ps1, e1) /\
    delivered e1 = map (rewrite_src c) ms /\ errors e1 = [] /\ failed_ids e1 = [] /\
    run_feed deser c (ps0, []) cs =
      ((mkp (Some pn) true [], []), e1 ++ EError k :: map (fail_reply c) (pending ps1)).
Proof. exact stream_bad_message. Qed.
Print Assumptions C06_bad_message.

(* payload that is not a message; missing, wrong-direction, repeated handshake; forged
   destination or source context: each goes through [fail] *)
Theorem C06_violations_rejected : forall deser c ps p,
  (deser p = None -> process deser c ps p = fail c ps BadPayload) /\
  (forall m, deser p = Some m -> peer ps = None -> not_handshake m ->
             process deser c ps p = fail c ps NoHandshake) /\
  (forall m, deser p = Some m -> peer ps = None -> mkind m = KHandshake (incoming c) ->
             process deser c ps p = fail c ps WrongDirection) /\
  (forall m pn srv, deser p = Some m -> peer ps = Some pn -> mkind m = KHandshake srv ->
             process deser c ps p = fail c ps RepeatedHandshake) /\
  (forall m pn, deser p = Some m -> peer ps = Some pn -> not_handshake m ->
             fst (mdst m) <> local_ctx c -> process deser c ps p = fail c ps BadDestination) /\
  (forall m pn, deser p = Some m -> peer ps = Some pn -> not_handshake m ->
             fst (mdst m) = local_ctx c -> fst (msrc m) <> pn -> process deser c ps p = fail c ps BadSource).
Proof. exact process_rejects. Qed.
Print Assumptions C06_violations_rejected.

(* ... and [fail] closes, delivers nothing from the peer, attempts an error reply for every pending
   request, and exactly those whose requester is registered receive it *)
Theorem C06_fail_contains : forall c ps k,
  fail c ps k = (mkp (peer ps) true [], EError k :: map (fail_reply c) (pending ps)) /\
  delivered (snd (fail c ps k)) = [] /\
  attempted_ids (snd (fail c ps k)) = ids (pending ps) /\
  failed_ids (snd (fail c ps k)) = ids (filter (registered c) (pending ps)).
Proof. exact fail_shape. Qed.
Print Assumptions C06_fail_contains.

(* a violation in the very first frame of a new connection (no / wrong-direction handshake, junk
   payload), under every segmentation: closed, nothing delivered *)
Theorem C06_first_frame_rejected : forall deser c,
  (maxsz c < 2 ^ 64)%N ->
  forall p k rest cs,
  fits c p -> process deser c (mkp None false []) p = fail c (mkp None false []) k ->
  concat cs = frame p ++ rest ->
  run_feed deser c init cs = ((mkp None true [], []), [EError k]).
Proof. exact first_frame_rejected. Qed.
Print Assumptions C06_first_frame_rejected.

(* ---- pending requests ---------------------------------------------------------------------- *)

(* in every reachable state (any script of receives, sends, EOF, disconnects) the pending table has
   no duplicate id and is empty once the connection is closed *)
Theorem C06_pending_invariant : forall deser c ops,
  let '((ps, _), _) := run deser c init ops in
  NoDup (ids (pending ps)) /\ (closed ps = true -> pending ps = []).
Proof. exact reachable_inv. Qed.
Print Assumptions C06_pending_invariant.

(* closing (EOF from the peer, disconnect; an error closes the same way, see C06_fail_contains):
   an error reply is attempted for EVERY pending request, in table order; exactly the pending ids
   whose requester handler is registered receive one error reply, in pending order, regardless of
   which other deliveries the router refuses; the refused ones are exactly the others; nothing else
   happens and the table is cleared *)
Theorem C06_pending_fail : forall c ps,
  closed ps = false -> NoDup (ids (pending ps)) ->
  let '(s', evs) := close_conn c (ps, ([] : bytes)) in
  closed (fst s') = true /\ pending (fst s') = [] /\
  evs = map (fail_reply c) (pending ps) /\
  attempted_ids evs = ids (pending ps) /\
  failed_ids evs = ids (filter (registered c) (pending ps)) /\
  refused_ids evs = ids (filter (fun e => negb (registered c e)) (pending ps)) /\
  NoDup (failed_ids evs) /\ delivered evs = [].
Proof. exact close_fails_each_once. Qed.
Print Assumptions C06_pending_fail.

(* per request: whatever the refused set, a pending request with a registered requester gets its
   error reply exactly once *)
Theorem C06_pending_fail_each_registered_once : forall c ps e,
  NoDup (ids (pending ps)) -> In e (pending ps) -> registered c e = true ->
  count_occ N.eq_dec (failed_ids (map (fail_reply c) (pending ps))) (fst e) = 1%nat.
Proof. exact close_fails_registered. Qed.
Print Assumptions C06_pending_fail_each_registered_once.

Theorem C06_eof_and_disconnect_close : forall deser c ps b,
  closed ps = false ->
  step deser c (ps, b) OEof = ((mkp (peer ps) true [], []), map (fail_reply c) (pending ps)) /\
  step deser c (ps, b) ODisconnect = ((mkp (peer ps) true [], []), map (fail_reply c) (pending ps)).
Proof. exact close_steps. Qed.
Print Assumptions C06_eof_and_disconnect_close.

(* whole-history form: once the connection is closed, every request that was written to the socket
   has been answered — by a reply delivered from the peer, or by a local error reply that was
   delivered, or by one the router refused because the requester's handler is gone *)
Theorem C06_no_request_left_pending : forall deser c ops ps b evs,
  run deser c init ops = ((ps, b), evs) -> closed ps = true ->
  forall id, In id (sent_request_ids evs) ->
    In id (replied_ids evs) \/ In id (failed_ids evs) \/ In id (refused_ids evs).
Proof. exact no_request_left. Qed.
Print Assumptions C06_no_request_left_pending.

(* ---- non-vacuity ----------------------------------------------------------------------------- *)

(* a toy codec: [1] = client handshake from context 7; [2;2] = request 5 from (7,4) to (1,3);
   [4] = reply to request 6 from (7,3) to (1,8); [6] = a message claiming source context 99;
   anything else does not unpickle *)
Definition toy_hs  := mkmsg (KHandshake false) (7, 0)%N (0, 0)%N 0%N.
Definition toy_req := mkmsg (KRequest 5) (7, 4)%N (1, 3)%N 42%N.
Definition toy_rep := mkmsg (KReply 6 false) (7, 3)%N (1, 8)%N 43%N.
Definition toy_forged := mkmsg KOther (99, 4)%N (1, 3)%N 0%N.
Definition toy_ser (m : msg) : bytes :=
  match mkind m with KHandshake _ => [1] | KRequest _ => [2; 2] | KReply _ _ => [4] | KOther => [6] end%N.
Definition toy_deser (p : bytes) : option msg :=
  match p with
  | [1] => Some toy_hs | [2; 2] => Some toy_req | [4] => Some toy_rep | [6] => Some toy_forged
  | _ => None
  end%N.
Definition toy_cfg := mkcfg 1 9 true 1000 [].
Definition bytewise (b : bytes) : list bytes := map (fun x => [x]) b.

(* the hypotheses of C06_exact_delivery are satisfiable ... *)
Example C06_example_hypotheses :
  (forall m, In m [toy_hs; toy_req; toy_rep] -> toy_deser (toy_ser m) = Some m /\ fits toy_cfg (toy_ser m)) /\
  mkind toy_hs = KHandshake (negb (incoming toy_cfg)) /\
  Forall (valid_from toy_cfg 7) [toy_req; toy_rep].
Proof.
  split; [|split].
  - intros m [<-|[<-|[<-|[]]]]; (split; [reflexivity | unfold fits; simpl; lia]).
  - reflexivity.
  - repeat constructor.
Qed.

(* ... and on that instance, byte by byte: both messages delivered, rewritten to the alias 9 *)
Example C06_example_exact :
  run_feed toy_deser toy_cfg init (bytewise (concat (map frame (map toy_ser [toy_hs; toy_req; toy_rep])))) =
  ((mkp (Some 7%N) false [], []),
   [EDeliver (mkmsg (KRequest 5) (9, 4)%N (1, 3)%N 42%N); EDeliver (mkmsg (KReply 6 false) (9, 3)%N (1, 8)%N 43%N)]).
Proof. vm_compute. reflexivity. Qed.

(* a pending request (sent before), a valid message, then a forged source followed by a valid frame:
   first message delivered, BadSource, pending request 11 failed once, nothing else *)
Example C06_example_containment :
  snd (run toy_deser toy_cfg init
        [ORecv (frame [1]%N);
         OSend (mkmsg (KRequest 11) (1, 8)%N (9, 4)%N 0%N) 10%N;
         ORecv (firstn 7 (frame [2;2] ++ frame [6] ++ frame [2;2])%N);
         ORecv (skipn 7 (frame [2;2] ++ frame [6] ++ frame [2;2])%N)]) =
  [ESent (mkmsg (KRequest 11) (1, 8)%N (7, 4)%N 0%N);
   EDeliver (mkmsg (KRequest 5) (9, 4)%N (1, 3)%N 42%N);
   EError BadSource;
   EFail (mkmsg (KReply 11 true) (7, 4)%N (1, 8)%N 0%N)].
Proof. vm_compute. reflexivity. Qed.

(* the hypothesis of C06_bad_message holds for the forged payload *)
Example C06_example_bad_message_hyp :
  forall ps, closed ps = false -> peer ps = Some 7%N ->
  process toy_deser toy_cfg ps [6]%N = fail toy_cfg ps BadSource.
Proof. intros ps _ H. unfold process. simpl. rewrite H. reflexivity. Qed.

Example C06_example_bad_head :
  bad_head toy_cfg [81; 0; 0]%N BadMarker /\
  bad_head toy_cfg (marker :: [233; 3; 0; 0; 0; 0; 0; 0] ++ [5])%N TooBig.
Proof.
  split.
  - left. split; [reflexivity|]. exists 81%N, [0; 0]%N. split; [reflexivity | discriminate].
  - right. split; [reflexivity|]. exists [233; 3; 0; 0; 0; 0; 0; 0]%N, [5]%N.
    split; [reflexivity | split; [reflexivity | vm_compute; reflexivity]].
Qed.

(* three pending requests 11, 12, 13 from requesters 8, 5, 8'; the handler 5 of the middle one is
   gone: the peer closes, 11 and 13 still get their error reply, 12 is refused, in table order *)
Example C06_example_close_with_refusal :
  snd (run toy_deser (mkcfg 1 9 true 1000 [5]) init
        [ORecv (frame [1]%N);
         OSend (mkmsg (KRequest 11) (1, 8)%N (9, 4)%N 0%N) 10%N;
         OSend (mkmsg (KRequest 12) (1, 5)%N (9, 4)%N 0%N) 10%N;
         OSend (mkmsg (KRequest 13) (1, 2)%N (9, 4)%N 0%N) 10%N;
         OEof]) =
  [ESent (mkmsg (KRequest 11) (1, 8)%N (7, 4)%N 0%N);
   ESent (mkmsg (KRequest 12) (1, 5)%N (7, 4)%N 0%N);
   ESent (mkmsg (KRequest 13) (1, 2)%N (7, 4)%N 0%N);
   EFail (mkmsg (KReply 11 true) (7, 4)%N (1, 8)%N 0%N);
   ERefused (mkmsg (KReply 12 true) (7, 4)%N (1, 5)%N 0%N);
   EFail (mkmsg (KReply 13 true) (7, 4)%N (1, 2)%N 0%N)].
Proof. vm_compute. reflexivity. Qed.
