(* C06 — lemmas about the model of _PeerTcpConnection. *)
Require Import QV.C06.Model.
From Coq Require Import ZifyBool ZifyNat ZifyN.
Ltac Zify.zify_post_hook ::= Z.to_euclidean_division_equations.
Local Open Scope nat_scope.

(* ---------------------------------------------------------------------------------------- *)
(* little-endian codec                                                                      *)
(* ---------------------------------------------------------------------------------------- *)

Lemma le_encode_length k n : length (le_encode k n) = k.
Proof. revert n; induction k as [|k IH]; intro n; simpl; [reflexivity | now rewrite IH]. Qed.

Lemma le_decode_encode k n : (n < 256 ^ N.of_nat k)%N -> le_decode (le_encode k n) = n.
Proof.
  revert n; induction k as [|k IH]; intros n Hn.
  - simpl in *. lia.
  - cbn [le_encode le_decode]. rewrite IH.
    + pose proof (N.div_mod' n 256). lia.
    + rewrite Nat2N.inj_succ, N.pow_succ_r' in Hn.
      apply N.div_lt_upper_bound; lia.
Qed.

Lemma frame_length p : length (frame p) = 9 + length p.
Proof. unfold frame. cbn [length]. rewrite app_length, le_encode_length. reflexivity. Qed.

(* ---------------------------------------------------------------------------------------- *)
(* the head of the receive buffer                                                           *)
(* ---------------------------------------------------------------------------------------- *)

Inductive head :=
| HEmpty | HBadMarker | HShort | HTooBig | HIncomplete
| HFrame (payload rest : bytes).

Definition head_of (mx : N) (b : bytes) : head :=
  match b with
  | [] => HEmpty
  | b0 :: _ =>
    if negb (b0 =? marker)%N then HBadMarker
    else if (N.of_nat (length b) <? 9)%N then HShort
    else
      let size := le_decode (firstn 8 (skipn 1 b)) in
      if (mx <? size)%N then HTooBig
      else if (N.of_nat (length b) <? 9 + size)%N then HIncomplete
      else HFrame (firstn (N.to_nat size) (skipn 9 b)) (skipn (9 + N.to_nat size) b)
  end.

Lemma firstn_skipn_app_l {A} (b a : list A) k m :
  k + m <= length b -> firstn m (skipn k (b ++ a)) = firstn m (skipn k b).
Proof.
  intro H. rewrite skipn_app, firstn_app.
  replace (k - length b) with 0 by lia.
  rewrite skipn_length. replace (m - (length b - k)) with 0 by lia.
  simpl. now rewrite app_nil_r.
Qed.

Lemma skipn_S_cons {A} n (x : A) l : skipn (S n) (x :: l) = skipn n l.
Proof. reflexivity. Qed.

Lemma skipn_add {A} a : forall b (l : list A), skipn (a + b) l = skipn b (skipn a l).
Proof.
  induction a as [|a IH]; intros b l; [reflexivity|].
  destruct l as [|x l]; simpl; [now rewrite skipn_nil | apply IH].
Qed.

Lemma skipn_app_l {A} (b a : list A) k : k <= length b -> skipn k (b ++ a) = skipn k b ++ a.
Proof. intro H. rewrite skipn_app. replace (k - length b) with 0 by lia. reflexivity. Qed.

(* more input never changes a decision already taken on the head of the buffer *)
Lemma head_of_app mx b a :
  match head_of mx b with
  | HBadMarker => head_of mx (b ++ a) = HBadMarker
  | HTooBig => head_of mx (b ++ a) = HTooBig
  | HFrame p r => head_of mx (b ++ a) = HFrame p (r ++ a)
  | _ => True
  end.
Proof.
  destruct b as [|b0 b']; [exact I|].
  unfold head_of. rewrite <- app_comm_cons.
  destruct (negb (b0 =? marker)%N) eqn:Hm; [reflexivity|].
  set (b := b0 :: b').
  destruct (N.of_nat (length b) <? 9)%N eqn:H9; [exact I|].
  assert (Hlen : 9 <= length b) by lia.
  change (b0 :: b' ++ a) with (b ++ a).
  assert (Hsz : firstn 8 (skipn 1 (b ++ a)) = firstn 8 (skipn 1 b))
    by (apply firstn_skipn_app_l; lia).
  rewrite Hsz.
  set (size := le_decode (firstn 8 (skipn 1 b))).
  assert (H9' : (N.of_nat (length (b ++ a)) <? 9)%N = false) by (rewrite app_length; lia).
  destruct (mx <? size)%N eqn:Hmx.
  - rewrite H9'. reflexivity.
  - destruct (N.of_nat (length b) <? 9 + size)%N eqn:Hfull; [exact I|].
    rewrite H9'.
    assert (Hfull' : (N.of_nat (length (b ++ a)) <? 9 + size)%N = false) by (rewrite app_length; lia).
    rewrite Hfull'.
    rewrite firstn_skipn_app_l by lia.
    rewrite skipn_app_l by lia. reflexivity.
Qed.

Lemma head_of_frame mx p tail :
  (N.of_nat (length p) <= mx)%N -> (N.of_nat (length p) < 2 ^ 64)%N ->
  head_of mx (frame p ++ tail) = HFrame p tail.
Proof.
  intros Hmx H64. unfold frame. rewrite <- app_comm_cons.
  set (h := le_encode 8 (N.of_nat (length p))).
  assert (Hh : length h = 8) by apply le_encode_length.
  unfold head_of. change (negb (marker =? marker)%N) with false. cbv iota.
  set (b := marker :: (h ++ p) ++ tail).
  assert (Hb : length b = 9 + length p + length tail).
  { unfold b. simpl. rewrite !app_length. lia. }
  assert (H9 : (N.of_nat (length b) <? 9)%N = false) by lia. rewrite H9.
  assert (Hsz : firstn 8 (skipn 1 b) = h).
  { unfold b. cbn [skipn]. rewrite <- app_assoc. rewrite firstn_app.
    rewrite Hh. replace (8 - 8) with 0 by lia. simpl firstn at 2. rewrite app_nil_r.
    rewrite <- Hh. apply firstn_all. }
  rewrite Hsz. unfold h. rewrite le_decode_encode by exact H64.
  assert (H1 : (mx <? N.of_nat (length p))%N = false) by lia. rewrite H1.
  assert (H2 : (N.of_nat (length b) <? 9 + N.of_nat (length p))%N = false) by lia. rewrite H2.
  rewrite Nat2N.id.
  assert (Hs9 : skipn 9 b = p ++ tail).
  { unfold b. rewrite (skipn_S_cons 8). rewrite <- app_assoc.
    rewrite skipn_app. rewrite Hh. replace (8 - 8) with 0 by lia.
    rewrite <- Hh at 1. rewrite skipn_all. reflexivity. }
  f_equal.
  - rewrite Hs9. rewrite firstn_app. replace (length p - length p) with 0 by lia.
    rewrite firstn_all. simpl. apply app_nil_r.
  - rewrite skipn_add. rewrite Hs9.
    rewrite skipn_app. rewrite skipn_all. replace (length p - length p) with 0 by lia. reflexivity.
Qed.

Lemma head_of_bad_marker mx b0 r : b0 <> marker -> head_of mx (b0 :: r) = HBadMarker.
Proof.
  intro H. unfold head_of. destruct (b0 =? marker)%N eqn:E; [apply N.eqb_eq in E; contradiction | reflexivity].
Qed.

Lemma head_of_too_big mx h r :
  length h = 8 -> (mx < le_decode h)%N -> head_of mx (marker :: h ++ r) = HTooBig.
Proof.
  intros Hh Hbig. unfold head_of. change (negb (marker =? marker)%N) with false. cbv iota.
  assert (H9 : (N.of_nat (length (marker :: h ++ r)) <? 9)%N = false).
  { simpl length. rewrite app_length. lia. }
  rewrite H9.
  assert (Hsz : firstn 8 (skipn 1 (marker :: h ++ r)) = h).
  { cbn [skipn]. rewrite firstn_app. rewrite Hh. replace (8 - 8) with 0 by lia.
    simpl firstn at 2. rewrite app_nil_r. rewrite <- Hh. apply firstn_all. }
  rewrite Hsz. assert (H1 : (mx <? le_decode h)%N = true) by lia. rewrite H1. reflexivity.
Qed.

Lemma head_of_rest_shorter mx b p r : head_of mx b = HFrame p r -> length r + 9 <= length b.
Proof.
  destruct b as [|b0 b']; [discriminate|]. unfold head_of.
  set (bb := b0 :: b'). set (sz := le_decode (firstn 8 (skipn 1 bb))).
  destruct (negb (b0 =? marker)%N); [discriminate|].
  destruct (N.of_nat (length bb) <? 9)%N eqn:H9; [discriminate|].
  destruct (mx <? sz)%N; [discriminate|].
  destruct (N.of_nat (length bb) <? 9 + sz)%N eqn:Hf; [discriminate|].
  set (rr := skipn (9 + N.to_nat sz) bb).
  assert (Hrr : length rr = length bb - (9 + N.to_nat sz)) by apply skipn_length.
  clearbody rr. intro H. assert (Hr : r = rr) by congruence. subst r. lia.
Qed.

(* ---------------------------------------------------------------------------------------- *)
(* closing                                                                                  *)
(* ---------------------------------------------------------------------------------------- *)

Lemma fail_eq c ps k :
  fail c ps k = (mkp (peer ps) true [], EError k :: map (fail_reply c) (pending ps)).
Proof. reflexivity. Qed.

Lemma delivered_app a b : delivered (a ++ b) = delivered a ++ delivered b.
Proof. induction a as [|[]]; simpl; congruence. Qed.

Lemma errors_app a b : errors (a ++ b) = errors a ++ errors b.
Proof. induction a as [|[]]; simpl; congruence. Qed.

Lemma failed_ids_app a b : failed_ids (a ++ b) = failed_ids a ++ failed_ids b.
Proof. induction a as [|[m| m | m | m | | |] a IH]; simpl; try congruence. destruct (mkind m); simpl; congruence. Qed.

Lemma refused_ids_app a b : refused_ids (a ++ b) = refused_ids a ++ refused_ids b.
Proof. induction a as [|[m| m | m | m | | |] a IH]; simpl; try congruence. destruct (mkind m); simpl; congruence. Qed.

Lemma attempted_ids_app a b : attempted_ids (a ++ b) = attempted_ids a ++ attempted_ids b.
Proof. induction a as [|[m| m | m | m | | |] a IH]; simpl; try congruence; destruct (mkind m); simpl; congruence. Qed.

(* an entry of the pending table yields an accepted reply iff its requester is registered *)
Lemma fail_reply_cases c e :
  (registered c e = true /\
   fail_reply c e = EFail (mkmsg (KReply (fst e) true) (snd (snd e)) (fst (snd e)) 0)) \/
  (registered c e = false /\
   fail_reply c e = ERefused (mkmsg (KReply (fst e) true) (snd (snd e)) (fst (snd e)) 0)).
Proof.
  destruct e as [id [s d]]. unfold registered, fail_reply, local_error. simpl.
  destruct (mem (snd s) (rejects c)); [right | left]; split; reflexivity.
Qed.

Lemma delivered_fail_replies c l : delivered (map (fail_reply c) l) = [].
Proof.
  induction l as [|e l IH]; simpl; auto.
  destruct (fail_reply_cases c e) as [[_ ->]|[_ ->]]; simpl; exact IH.
Qed.

Lemma errors_fail_replies c l : errors (map (fail_reply c) l) = [].
Proof.
  induction l as [|e l IH]; simpl; auto.
  destruct (fail_reply_cases c e) as [[_ ->]|[_ ->]]; simpl; exact IH.
Qed.

(* every pending id is attempted, in table order ... *)
Lemma attempted_ids_fail_replies c l : attempted_ids (map (fail_reply c) l) = ids l.
Proof.
  induction l as [|e l IH]; simpl; auto.
  destruct (fail_reply_cases c e) as [[_ ->]|[_ ->]]; simpl; now rewrite IH.
Qed.

(* ... exactly those whose requester is registered get the error reply, whatever the others do ... *)
Lemma failed_ids_fail_replies c l :
  failed_ids (map (fail_reply c) l) = ids (filter (registered c) l).
Proof.
  induction l as [|e l IH]; simpl; auto.
  destruct (fail_reply_cases c e) as [[-> ->]|[-> ->]]; simpl; now rewrite IH.
Qed.

(* ... and the refused ones are exactly the others *)
Lemma refused_ids_fail_replies c l :
  refused_ids (map (fail_reply c) l) = ids (filter (fun e => negb (registered c e)) l).
Proof.
  induction l as [|e l IH]; simpl; auto.
  destruct (fail_reply_cases c e) as [[-> ->]|[-> ->]]; simpl; now rewrite IH.
Qed.

Lemma no_out_of_fuel_fail_replies c l : ~ In EOutOfFuel (map (fail_reply c) l).
Proof.
  rewrite in_map_iff. intros [e [H _]].
  destruct (fail_reply_cases c e) as [[_ E]|[_ E]]; rewrite E in H; discriminate.
Qed.

Lemma nodup_ids_filter f (l : list (N * (addr * addr))) : NoDup (ids l) -> NoDup (ids (filter f l)).
Proof.
  induction l as [|e l IH]; simpl; intro H; [constructor|].
  inversion H as [|? ? Hn Hl]; subst. destruct (f e); [|auto].
  simpl. constructor; [|auto]. intro Hin. apply Hn.
  unfold ids in *. apply in_map_iff in Hin as [x [Hx Hin]]. apply filter_In in Hin as [Hin _].
  apply in_map_iff. exists x. auto.
Qed.

Section WithCodec.
  Variable deser : bytes -> option msg.
  Variable c : cfg.

  Notation process := (process deser c).
  Notation drain := (drain deser c).
  Notation feed := (feed deser c).
  Notation run_feed := (run_feed deser c).
  Notation process_all := (process_all deser c).
  Notation head_of := (head_of (maxsz c)).
  Notation fail := (Model.fail c).
  Notation fail_reply := (Model.fail_reply c).
  Notation close_p := (Model.close_p c).
  Notation close_conn := (Model.close_conn c).

  (* -------------------------------------------------------------------------------------- *)
  (* drain, one iteration at a time                                                         *)
  (* -------------------------------------------------------------------------------------- *)

  Lemma drain_unfold f ps b :
    drain (S f) ps b =
      match head_of b with
      | HEmpty | HShort | HIncomplete => ((ps, b), [])
      | HBadMarker => let '(ps', ev) := fail ps BadMarker in ((ps', []), ev)
      | HTooBig => let '(ps', ev) := fail ps TooBig in ((ps', []), ev)
      | HFrame p r =>
          let '(ps1, ev) := process ps p in
          if closed ps1 then ((ps1, []), ev)
          else let '(s, ev') := drain f ps1 r in (s, ev ++ ev')
      end.
  Proof.
    destruct b as [|b0 b']; [reflexivity|].
    cbn [Model.drain]. unfold Proofs.head_of.
    destruct (negb (b0 =? marker)%N); [reflexivity|].
    destruct (N.of_nat (length (b0 :: b')) <? 9)%N; [reflexivity|].
    destruct (maxsz c <? le_decode (firstn 8 (skipn 1 (b0 :: b'))))%N; [reflexivity|].
    destruct (N.of_nat (length (b0 :: b')) <? 9 + le_decode (firstn 8 (skipn 1 (b0 :: b'))))%N; reflexivity.
  Qed.

  (* enough fuel is enough *)
  Lemma drain_fuel f1 : forall f2 ps b, length b < f1 -> length b < f2 -> drain f1 ps b = drain f2 ps b.
  Proof.
    induction f1 as [|f1 IH]; intros f2 ps b H1 H2; [lia|].
    destruct f2 as [|f2]; [lia|].
    rewrite !drain_unfold.
    destruct (head_of b) as [| | | | |p r] eqn:Hh; try reflexivity.
    apply head_of_rest_shorter in Hh.
    destruct (process ps p) as [ps1 ev]. destruct (closed ps1); [reflexivity|].
    rewrite (IH f2) by lia. reflexivity.
  Qed.

  Lemma drain_buf_len f : forall ps b s ev, drain f ps b = (s, ev) -> length (snd s) <= length b.
  Proof.
    induction f as [|f IH]; intros ps b s ev H.
    - simpl in H. inversion H; subst. simpl. lia.
    - rewrite drain_unfold in H.
      destruct (head_of b) as [| | | | |p r] eqn:Hh;
        try (inversion H; subst; simpl; lia).
      apply head_of_rest_shorter in Hh.
      destruct (process ps p) as [ps1 ev1]. destruct (closed ps1).
      + inversion H; subst; simpl; lia.
      + destruct (drain f ps1 r) as [s' ev'] eqn:Hd. inversion H; subst.
        apply IH in Hd. lia.
  Qed.

  Lemma drain_no_out_of_fuel f : forall ps b, length b < f -> ~ In EOutOfFuel (snd (drain f ps b)).
  Proof.
    induction f as [|f IH]; intros ps b Hf; [lia|].
    rewrite drain_unfold.
    destruct (head_of b) as [| | | | |p r] eqn:Hh; simpl; try tauto.
    - intros [H|H]; [discriminate | exact (no_out_of_fuel_fail_replies c _ H)].
    - intros [H|H]; [discriminate | exact (no_out_of_fuel_fail_replies c _ H)].
    - apply head_of_rest_shorter in Hh.
      assert (Hp : ~ In EOutOfFuel (snd (process ps p))).
      { unfold Model.process.
        assert (Hfail : forall k, ~ In EOutOfFuel (snd (fail ps k))).
        { intro k. rewrite fail_eq. simpl.
          intros [H|H]; [discriminate | exact (no_out_of_fuel_fail_replies c _ H)]. }
        destruct (deser p) as [m|]; [|apply Hfail].
        destruct (peer ps) as [pn|].
        - destruct (mkind m) eqn:Hk; try apply Hfail;
            (destruct (negb (fst (mdst m) =? local_ctx c)%N); [apply Hfail|]);
            (destruct (negb (fst (msrc m) =? pn)%N); [apply Hfail|]); simpl.
          + destruct (mem (snd (mdst m)) (rejects c)); simpl; intuition discriminate.
          + intuition discriminate.
          + intuition discriminate.
        - destruct (mkind m); try apply Hfail.
          destruct (_ || _); [apply Hfail|]. simpl. tauto. }
      destruct (process ps p) as [ps1 ev1]. simpl in Hp. destruct (closed ps1); [exact Hp|].
      specialize (IH ps1 r). destruct (drain f ps1 r) as [s' ev'].
      simpl in *. rewrite in_app_iff. intros [H|H]; [tauto | apply IH; [lia | exact H]].
  Qed.

  (* -------------------------------------------------------------------------------------- *)
  (* the composition lemma: draining b then appending a and draining again = draining b ++ a *)
  (* -------------------------------------------------------------------------------------- *)

  Lemma drain_app f : forall ps b a,
    closed ps = false -> length b < f ->
    drain (f + length a) ps (b ++ a) =
      let '((ps1, b1), e1) := drain f ps b in
      if closed ps1 then ((ps1, b1), e1)
      else let '(s2, e2) := drain (f + length a) ps1 (b1 ++ a) in (s2, e1 ++ e2).
  Proof.
    induction f as [|f IH]; intros ps b a Hopen Hf; [lia|].
    rewrite (drain_unfold f ps b).
    pose proof (head_of_app (maxsz c) b a) as Happ.
    destruct (head_of b) as [| | | | |p r] eqn:Hh.
    - (* empty *) rewrite Hopen. destruct (drain (S f + length a) ps (b ++ a)); reflexivity.
    - (* bad marker *)
      change (S f + length a) with (S (f + length a)). rewrite drain_unfold, Happ. reflexivity.
    - rewrite Hopen. destruct (drain (S f + length a) ps (b ++ a)); reflexivity.
    - change (S f + length a) with (S (f + length a)). rewrite drain_unfold, Happ. reflexivity.
    - rewrite Hopen. destruct (drain (S f + length a) ps (b ++ a)); reflexivity.
    - (* a complete frame *)
      change (S f + length a) with (S (f + length a)). rewrite drain_unfold, Happ.
      apply head_of_rest_shorter in Hh.
      destruct (process ps p) as [ps1 ev1]. destruct (closed ps1) eqn:Hc1.
      + rewrite Hc1. reflexivity.
      + rewrite (IH ps1 r a Hc1) by lia.
        destruct (drain f ps1 r) as [[ps2 b2] e2] eqn:Hd.
        destruct (closed ps2) eqn:Hc2.
        * reflexivity.
        * pose proof (drain_buf_len _ _ _ _ _ Hd) as Hlen. simpl in Hlen.
          rewrite (drain_fuel (S (f + length a)) (f + length a)) by (rewrite app_length; lia).
          destruct (drain (f + length a) ps2 (b2 ++ a)) as [s3 e3].
          rewrite app_assoc. reflexivity.
  Qed.

  Lemma feed_feed s a b :
    feed s (a ++ b) =
      let '(s1, e1) := feed s a in let '(s2, e2) := feed s1 b in (s2, e1 ++ e2).
  Proof.
    destruct s as [ps buf]. unfold Model.feed.
    destruct (closed ps) eqn:Hc.
    - rewrite Hc. reflexivity.
    - rewrite app_assoc.
      rewrite (drain_fuel (S (length buf + length (a ++ b))) (S (length buf + length a) + length b))
        by (rewrite !app_length; lia).
      rewrite drain_app by (try exact Hc; rewrite app_length; lia).
      destruct (drain (S (length buf + length a)) ps (buf ++ a)) as [[ps1 b1] e1] eqn:Hd.
      destruct (closed ps1) eqn:Hc1.
      + rewrite app_nil_r. reflexivity.
      + pose proof (drain_buf_len _ _ _ _ _ Hd) as Hlen. simpl in Hlen. rewrite app_length in Hlen.
        rewrite (drain_fuel (S (length buf + length a) + length b) (S (length b1 + length b)))
          by (rewrite app_length; lia).
        reflexivity.
  Qed.

  Lemma run_feed_cons s a r :
    run_feed s (a :: r) = let '(s1, e1) := feed s a in let '(s2, e2) := run_feed s1 r in (s2, e1 ++ e2).
  Proof. reflexivity. Qed.

  Lemma run_feed_concat cs : forall s, cs <> [] -> run_feed s cs = feed s (concat cs).
  Proof.
    induction cs as [|a cs IH]; intros s Hne; [contradiction|].
    destruct cs as [|a' cs'].
    - simpl. rewrite app_nil_r. destruct (feed s a) as [s1 e1]. rewrite app_nil_r. reflexivity.
    - rewrite run_feed_cons. change (concat (a :: a' :: cs')) with (a ++ concat (a' :: cs')). rewrite feed_feed.
      destruct (feed s a) as [s1 e1]. rewrite (IH s1) by discriminate. reflexivity.
  Qed.

  Lemma run_feed_init_concat cs : run_feed init (concat cs :: []) = run_feed init cs.
  Proof.
    destruct cs as [|a cs].
    - reflexivity.
    - rewrite (run_feed_concat (a :: cs)) by discriminate.
      rewrite (run_feed_concat [concat (a :: cs)]) by discriminate.
      simpl. rewrite app_nil_r. reflexivity.
  Qed.

  Lemma feed_no_out_of_fuel s ch : ~ In EOutOfFuel (snd (feed s ch)).
  Proof.
    destruct s as [ps b]. unfold Model.feed. destruct (closed ps); [simpl; tauto|].
    apply drain_no_out_of_fuel. rewrite app_length. lia.
  Qed.

  (* -------------------------------------------------------------------------------------- *)
  (* a stream of well-formed frames = the payloads processed one after the other            *)
  (* -------------------------------------------------------------------------------------- *)

  Definition fits (p : bytes) : Prop := (N.of_nat (length p) <= maxsz c)%N.

  Lemma drain_frames (Hmax : (maxsz c < 2 ^ 64)%N) payloads : forall ps tail f,
    closed ps = false -> Forall fits payloads ->
    length (concat (map frame payloads) ++ tail) < f ->
    drain f ps (concat (map frame payloads) ++ tail) =
      let '(ps1, e1) := process_all ps payloads in
      if closed ps1 then ((ps1, []), e1)
      else let '(s, e2) := drain f ps1 tail in (s, e1 ++ e2).
  Proof.
    induction payloads as [|p ps' IH]; intros ps tail f Hopen Hfit Hf.
    - simpl. rewrite Hopen. destruct (drain f ps tail). reflexivity.
    - destruct f as [|f]; [lia|].
      inversion Hfit as [|? ? Hp Hfit']; subst.
      cbn [map concat] in *. rewrite <- app_assoc in *.
      rewrite drain_unfold. rewrite head_of_frame by (unfold fits in Hp; lia).
      cbn [Model.process_all].
      destruct (process ps p) as [ps1 ev1]. cbv beta iota.
      destruct (closed ps1) eqn:Hc1; [rewrite ?Hc1; reflexivity|].
      assert (Hlen : length (concat (map frame ps') ++ tail) < f).
      { rewrite app_length, frame_length in Hf. lia. }
      rewrite IH by assumption.
      destruct (process_all ps1 ps') as [ps2 e2]. destruct (closed ps2); [reflexivity|].
      rewrite (drain_fuel f (S f)) by (rewrite app_length in Hlen; lia).
      destruct (drain (S f) ps2 tail) as [s e3]. rewrite app_assoc. reflexivity.
  Qed.

  Lemma feed_frames (Hmax : (maxsz c < 2 ^ 64)%N) ps payloads tail :
    closed ps = false -> Forall fits payloads ->
    feed (ps, []) (concat (map frame payloads) ++ tail) =
      let '(ps1, e1) := process_all ps payloads in
      if closed ps1 then ((ps1, []), e1)
      else let '(s, e2) := feed (ps1, []) tail in (s, e1 ++ e2).
  Proof.
    intros Hopen Hfit. unfold Model.feed. rewrite Hopen. simpl app.
    rewrite drain_frames by (try assumption; simpl; lia).
    destruct (process_all ps payloads) as [ps1 e1]. destruct (closed ps1) eqn:Hc; [reflexivity|].
    rewrite (drain_fuel (S (0 + length (concat (map frame payloads) ++ tail))) (S (0 + length tail)))
      by (try rewrite app_length; simpl; lia).
    reflexivity.
  Qed.

  Lemma process_all_app l1 : forall ps l2,
    closed ps = false ->
    process_all ps (l1 ++ l2) =
      let '(ps1, e1) := process_all ps l1 in
      if closed ps1 then (ps1, e1)
      else let '(ps2, e2) := process_all ps1 l2 in (ps2, e1 ++ e2).
  Proof.
    induction l1 as [|p l1 IH]; intros ps l2 Hopen.
    - simpl. rewrite Hopen. destruct (process_all ps l2). reflexivity.
    - cbn [app Model.process_all]. destruct (process ps p) as [ps1 e1].
      destruct (closed ps1) eqn:Hc; [rewrite Hc; reflexivity|].
      rewrite IH by exact Hc. destruct (process_all ps1 l1) as [ps2 e2].
      destruct (closed ps2); [reflexivity|].
      destruct (process_all ps2 l2) as [ps3 e3]. rewrite app_assoc. reflexivity.
  Qed.

  Lemma run_feed_empty_buf cs ps : run_feed (ps, []) cs = feed (ps, []) (concat cs).
  Proof.
    destruct cs as [|a cs]; [|apply run_feed_concat; discriminate].
    simpl. unfold Model.feed. destruct (closed ps); reflexivity.
  Qed.

  Lemma feed_nil ps : closed ps = false -> feed (ps, []) [] = ((ps, []), []).
  Proof. intro H. unfold Model.feed. rewrite H. reflexivity. Qed.

  (* -------------------------------------------------------------------------------------- *)
  (* valid messages are delivered, rewritten                                                *)
  (* -------------------------------------------------------------------------------------- *)

  Definition rewrite_src (m : msg) : msg := set_src m (alias c, snd (msrc m)).

  Definition not_handshake (m : msg) : Prop :=
    match mkind m with KHandshake _ => False | _ => True end.

  Definition valid_from (pn : N) (m : msg) : Prop :=
    not_handshake m /\ fst (mdst m) = local_ctx c /\ fst (msrc m) = pn.

  Lemma process_valid ps pn p m :
    closed ps = false -> peer ps = Some pn -> deser p = Some m -> valid_from pn m ->
    exists pend back,
      process ps p = (mkp (Some pn) false pend, EDeliver (rewrite_src m) :: back) /\
      delivered back = [] /\ errors back = [] /\ failed_ids back = [].
  Proof.
    intros Hopen Hpeer Hd [Hnh [Hdst Hsrc]]. unfold Model.process. rewrite Hd, Hpeer.
    rewrite Hdst, Hsrc, !N.eqb_refl. cbn [negb].
    unfold not_handshake in Hnh. unfold rewrite_src.
    destruct (mkind m) eqn:Hk; [contradiction| | |].
    - destruct (mem (snd (mdst m)) (rejects c)); eexists; eexists; split; try reflexivity; simpl; auto.
    - eexists; eexists; split; try reflexivity; simpl; auto.
    - eexists; eexists; split; try reflexivity; simpl; auto.
  Qed.

  Lemma process_all_valid ser pn ms : forall ps,
    closed ps = false -> peer ps = Some pn ->
    (forall m, In m ms -> deser (ser m) = Some m) -> Forall (valid_from pn) ms ->
    exists ps' evs,
      process_all ps (map ser ms) = (ps', evs) /\ closed ps' = false /\ peer ps' = Some pn /\
      delivered evs = map rewrite_src ms /\ errors evs = [] /\ failed_ids evs = [].
  Proof.
    induction ms as [|m ms IH]; intros ps Hopen Hpeer Hser Hval.
    - exists ps, []. simpl. repeat split; auto.
    - inversion Hval as [|? ? Hm Hval']; subst.
      destruct (process_valid ps pn (ser m) m Hopen Hpeer (Hser m (or_introl eq_refl)) Hm)
        as [pend [back [Hp [Hb1 [Hb2 Hb3]]]]].
      cbn [map Model.process_all]. rewrite Hp. cbn [closed].
      destruct (IH (mkp (Some pn) false pend) eq_refl eq_refl
                   (fun x Hx => Hser x (or_intror Hx)) Hval') as [ps' [evs [Hpa [Hc [Hpe [Hd [He Hf]]]]]]].
      rewrite Hpa. exists ps', ((EDeliver (rewrite_src m) :: back) ++ evs).
      repeat split; try assumption.
      + rewrite delivered_app. simpl. rewrite Hb1, Hd. reflexivity.
      + rewrite errors_app. simpl. rewrite Hb2, He. reflexivity.
      + rewrite failed_ids_app. simpl. rewrite Hb3, Hf. reflexivity.
  Qed.

  (* every kind of violation closes the connection through [fail] *)
  Lemma process_rejects ps p :
    (deser p = None -> process ps p = fail ps BadPayload) /\
    (forall m, deser p = Some m -> peer ps = None -> not_handshake m ->
               process ps p = fail ps NoHandshake) /\
    (forall m, deser p = Some m -> peer ps = None -> mkind m = KHandshake (incoming c) ->
               process ps p = fail ps WrongDirection) /\
    (forall m pn srv, deser p = Some m -> peer ps = Some pn -> mkind m = KHandshake srv ->
               process ps p = fail ps RepeatedHandshake) /\
    (forall m pn, deser p = Some m -> peer ps = Some pn -> not_handshake m ->
               fst (mdst m) <> local_ctx c -> process ps p = fail ps BadDestination) /\
    (forall m pn, deser p = Some m -> peer ps = Some pn -> not_handshake m ->
               fst (mdst m) = local_ctx c -> fst (msrc m) <> pn -> process ps p = fail ps BadSource).
  Proof.
    unfold Model.process, not_handshake. repeat split.
    - intro H; rewrite H; reflexivity.
    - intros m Hd Hp Hn. rewrite Hd, Hp. destruct (mkind m); [contradiction|reflexivity..].
    - intros m Hd Hp Hk. rewrite Hd, Hp, Hk. destruct (incoming c); reflexivity.
    - intros m pn srv Hd Hp Hk. rewrite Hd, Hp, Hk. reflexivity.
    - intros m pn Hd Hp Hn Hdst. rewrite Hd, Hp.
      apply N.eqb_neq in Hdst. rewrite Hdst. destruct (mkind m); [contradiction|reflexivity..].
    - intros m pn Hd Hp Hn Hdst Hsrc. rewrite Hd, Hp, Hdst, N.eqb_refl.
      apply N.eqb_neq in Hsrc. rewrite Hsrc. destruct (mkind m); [contradiction|reflexivity..].
  Qed.

  Lemma handshake_accepted p m :
    deser p = Some m -> mkind m = KHandshake (negb (incoming c)) ->
    process (mkp None false []) p = (mkp (Some (fst (msrc m))) false [], []).
  Proof.
    intros Hd Hk. unfold Model.process. rewrite Hd, Hk. simpl. destruct (incoming c); reflexivity.
  Qed.

  (* -------------------------------------------------------------------------------------- *)
  (* malformed frame heads                                                                  *)
  (* -------------------------------------------------------------------------------------- *)

  Definition bad_head (bad : bytes) (k : err) : Prop :=
    (k = BadMarker /\ exists b0 r, bad = b0 :: r /\ b0 <> marker) \/
    (k = TooBig /\ exists h r, bad = marker :: h ++ r /\ length h = 8 /\ (maxsz c < le_decode h)%N).

  Lemma feed_bad ps bad k :
    closed ps = false -> bad_head bad k ->
    feed (ps, []) bad = ((mkp (peer ps) true [], []), EError k :: map fail_reply (pending ps)).
  Proof.
    intros Hopen Hbad. unfold Model.feed. rewrite Hopen. cbn [app]. rewrite drain_unfold.
    destruct Hbad as [[-> [b0 [r [-> Hb]]]] | [-> [h [r [-> [Hh Hbig]]]]]].
    - rewrite head_of_bad_marker by exact Hb. reflexivity.
    - rewrite head_of_too_big by assumption. reflexivity.
  Qed.

  (* -------------------------------------------------------------------------------------- *)
  (* stream-level outcomes, for every segmentation                                          *)
  (* -------------------------------------------------------------------------------------- *)

  Section Streams.
    Hypothesis Hmax : (maxsz c < 2 ^ 64)%N.
    Variable ser : msg -> bytes.
    Variable pn : N.
    Variable ps0 : pstate.
    Hypothesis Hopen0 : closed ps0 = false.
    Hypothesis Hpeer0 : peer ps0 = Some pn.
    Variable ms : list msg.
    Hypothesis Hser : forall m, In m ms -> deser (ser m) = Some m /\ fits (ser m).
    Hypothesis Hval : Forall (valid_from pn) ms.

    Lemma fits_all : Forall fits (map ser ms).
    Proof. apply Forall_forall. intros p Hp. apply in_map_iff in Hp as [m [<- Hm]]. apply Hser, Hm. Qed.

    Lemma stream_exact cs :
      concat cs = concat (map frame (map ser ms)) ->
      exists ps1 evs,
        process_all ps0 (map ser ms) = (ps1, evs) /\
        run_feed (ps0, []) cs = ((ps1, []), evs) /\ closed ps1 = false /\ peer ps1 = Some pn /\
        delivered evs = map rewrite_src ms /\ errors evs = [] /\ failed_ids evs = [].
    Proof.
      intro Hcs.
      destruct (process_all_valid ser pn ms ps0 Hopen0 Hpeer0 (fun m Hm => proj1 (Hser m Hm)) Hval)
        as [ps1 [evs [Hpa [Hc [Hp [Hd [He Hf]]]]]]].
      exists ps1, evs. repeat split; try assumption.
      rewrite run_feed_empty_buf, Hcs. rewrite <- (app_nil_r (concat _)).
      rewrite feed_frames by (try assumption; apply fits_all).
      rewrite Hpa, Hc, feed_nil by exact Hc. rewrite app_nil_r. reflexivity.
    Qed.

    Lemma stream_bad_frame bad k cs :
      bad_head bad k ->
      concat cs = concat (map frame (map ser ms)) ++ bad ->
      exists ps1 e1,
        process_all ps0 (map ser ms) = (ps1, e1) /\
        delivered e1 = map rewrite_src ms /\ errors e1 = [] /\ failed_ids e1 = [] /\
        run_feed (ps0, []) cs =
          ((mkp (Some pn) true [], []), e1 ++ EError k :: map fail_reply (pending ps1)).
    Proof.
      intros Hbad Hcs.
      destruct (process_all_valid ser pn ms ps0 Hopen0 Hpeer0 (fun m Hm => proj1 (Hser m Hm)) Hval)
        as [ps1 [evs [Hpa [Hc [Hp [Hd [He Hf]]]]]]].
      exists ps1, evs. repeat split; try assumption.
      rewrite run_feed_empty_buf, Hcs.
      rewrite feed_frames by (try assumption; apply fits_all).
      rewrite Hpa, Hc. rewrite (feed_bad ps1 bad k Hc Hbad). rewrite Hp. reflexivity.
    Qed.

    Lemma stream_bad_message p k rest cs :
      fits p ->
      (forall ps, closed ps = false -> peer ps = Some pn -> process ps p = fail ps k) ->
      concat cs = concat (map frame (map ser ms)) ++ frame p ++ rest ->
      exists ps1 e1,
        process_all ps0 (map ser ms) = (ps1, e1) /\
        delivered e1 = map rewrite_src ms /\ errors e1 = [] /\ failed_ids e1 = [] /\
        run_feed (ps0, []) cs =
          ((mkp (Some pn) true [], []), e1 ++ EError k :: map fail_reply (pending ps1)).
    Proof.
      intros Hfit Hrej Hcs.
      destruct (process_all_valid ser pn ms ps0 Hopen0 Hpeer0 (fun m Hm => proj1 (Hser m Hm)) Hval)
        as [ps1 [evs [Hpa [Hc [Hp [Hd [He Hf]]]]]]].
      exists ps1, evs. repeat split; try assumption.
      rewrite run_feed_empty_buf, Hcs.
      assert (Heq : concat (map frame (map ser ms)) ++ frame p ++ rest =
                    concat (map frame (map ser ms ++ [p])) ++ rest).
      { rewrite map_app, concat_app. simpl. rewrite app_nil_r, <- app_assoc. reflexivity. }
      rewrite Heq.
      assert (Hfits : Forall fits (map ser ms ++ [p])).
      { apply Forall_app. split; [apply fits_all | constructor; [exact Hfit | constructor]]. }
      rewrite (feed_frames Hmax ps0 _ rest Hopen0 Hfits).
      rewrite process_all_app by exact Hopen0. rewrite Hpa, Hc.
      cbn [Model.process_all]. rewrite (Hrej ps1 Hc Hp), fail_eq. cbn [closed]. rewrite Hp.
      reflexivity.
    Qed.
  End Streams.

  (* a violation in the very first frame (missing / wrong-direction handshake, junk) *)
  Lemma first_frame_rejected (Hmax : (maxsz c < 2 ^ 64)%N) p k rest cs :
    fits p -> process (mkp None false []) p = fail (mkp None false []) k ->
    concat cs = frame p ++ rest ->
    run_feed init cs = ((mkp None true [], []), [EError k]).
  Proof.
    intros Hfit Hrej Hcs. unfold init. rewrite run_feed_empty_buf, Hcs.
    replace (frame p ++ rest) with (concat (map frame [p]) ++ rest)
      by (simpl; rewrite app_nil_r; reflexivity).
    assert (Hfits : Forall fits [p]) by (constructor; [exact Hfit | constructor]).
    rewrite (feed_frames Hmax (mkp None false []) [p] rest eq_refl Hfits).
    cbn [Model.process_all]. rewrite Hrej. reflexivity.
  Qed.

  (* -------------------------------------------------------------------------------------- *)
  (* the pending table                                                                      *)
  (* -------------------------------------------------------------------------------------- *)

  Definition Inv (ps : pstate) : Prop :=
    NoDup (ids (pending ps)) /\ (closed ps = true -> pending ps = []).

  Lemma mem_spec x l : mem x l = true <-> In x l.
  Proof.
    induction l as [|y l IH]; simpl; [split; [discriminate | tauto]|].
    rewrite orb_true_iff, IH, N.eqb_eq. split; intros [H|H]; auto.
  Qed.

  Lemma in_remove_id x id l : In x (ids (remove_id id l)) -> In x (ids l).
  Proof.
    induction l as [|e l IH]; simpl; [tauto|].
    destruct (fst e =? id)%N; simpl; tauto.
  Qed.

  Lemma nodup_remove_id id l : NoDup (ids l) -> NoDup (ids (remove_id id l)).
  Proof.
    induction l as [|e l IH]; simpl; intro H; [constructor|].
    inversion H as [|? ? Hn Hl]; subst.
    destruct (fst e =? id)%N; [auto|]. simpl. constructor; [|auto].
    intro Hin. apply Hn. eapply in_remove_id; eauto.
  Qed.

  Lemma nodup_snoc (l : list N) x : NoDup l -> ~ In x l -> NoDup (l ++ [x]).
  Proof.
    induction l as [|y l IH]; simpl; intros Hnd Hni.
    - constructor; [tauto | constructor].
    - inversion Hnd; subst. constructor.
      + rewrite in_app_iff. simpl. intros [H|[H|[]]]; [tauto | subst; apply Hni; left; reflexivity].
      + apply IH; [assumption | intro; apply Hni; right; assumption].
  Qed.

  Lemma inv_closed p : Inv (mkp p true []).
  Proof. split; [constructor | reflexivity]. Qed.

  Lemma process_inv ps p : Inv ps -> closed ps = false -> Inv (fst (process ps p)).
  Proof.
    intros [Hnd Hcl] Hopen. unfold Model.process.
    assert (Hfail : forall k, Inv (fst (fail ps k))) by (intro k; apply inv_closed).
    destruct (deser p) as [m|]; [|apply Hfail].
    destruct (peer ps) as [pn|].
    - destruct (mkind m) eqn:Hk; try apply Hfail;
        (destruct (negb (fst (mdst m) =? local_ctx c)%N); [apply Hfail|]);
        (destruct (negb (fst (msrc m) =? pn)%N); [apply Hfail|]); simpl;
        (split; [|discriminate]); simpl; try assumption.
      apply nodup_remove_id; assumption.
    - destruct (mkind m); try apply Hfail.
      destruct (_ || _); [apply Hfail|]. split; [exact Hnd | discriminate].
  Qed.

  Lemma drain_inv f : forall ps b, Inv ps -> closed ps = false -> Inv (fst (fst (drain f ps b))).
  Proof.
    induction f as [|f IH]; intros ps b Hinv Hopen; [exact Hinv|].
    rewrite drain_unfold.
    destruct (head_of b) as [| | | | |p r]; try exact Hinv; try apply inv_closed.
    pose proof (process_inv ps p Hinv Hopen) as Hp.
    destruct (process ps p) as [ps1 ev1]. simpl in Hp.
    destruct (closed ps1) eqn:Hc; [exact Hp|].
    specialize (IH ps1 r Hp Hc). destruct (drain f ps1 r) as [s ev]. exact IH.
  Qed.

  Lemma feed_inv s ch : Inv (fst s) -> Inv (fst (fst (feed s ch))).
  Proof.
    destruct s as [ps b]. intro Hinv. unfold Model.feed.
    destruct (closed ps) eqn:Hc; [exact Hinv|]. apply drain_inv; assumption.
  Qed.

  Lemma send_inv ps m sz : Inv ps -> Inv (fst (send c ps m sz)).
  Proof.
    intro Hinv. pose proof Hinv as [Hnd _]. unfold send.
    destruct (closed ps) eqn:Hc; [exact Hinv|].
    destruct (mkind m) eqn:Hk; try exact Hinv;
      (destruct (peer ps) as [pn|]; [|exact Hinv]);
      (destruct (maxsz c <? sz)%N; [exact Hinv|]);
      (split; [|discriminate]); simpl; try assumption.
    destruct (mem id (ids (pending ps))) eqn:Hm; [assumption|].
    unfold ids. rewrite map_app. simpl. apply nodup_snoc; [exact Hnd|].
    intro Hin. apply mem_spec in Hin. unfold ids in Hm. congruence.
  Qed.

  Lemma close_conn_inv s : Inv (fst s) -> Inv (fst (fst (close_conn s))).
  Proof.
    destruct s as [ps b]. intro H. unfold close_conn. destruct (closed ps); [exact H | apply inv_closed].
  Qed.

  Lemma step_inv s o : Inv (fst s) -> Inv (fst (fst (step deser c s o))).
  Proof.
    intro H. destruct o as [ch| |m sz|]; simpl.
    - apply feed_inv, H.
    - apply close_conn_inv, H.
    - destruct s as [ps b]. pose proof (send_inv ps m sz H) as Hs.
      destruct (send c ps m sz) as [ps' ev]. exact Hs.
    - apply close_conn_inv, H.
  Qed.

  Lemma run_inv ops : forall s, Inv (fst s) -> Inv (fst (fst (run deser c s ops))).
  Proof.
    induction ops as [|o ops IH]; intros s H; [exact H|].
    cbn [run]. pose proof (step_inv s o H) as Hs. destruct (step deser c s o) as [s1 e1].
    specialize (IH s1 Hs). destruct (run deser c s1 ops) as [s2 e2]. exact IH.
  Qed.

  Lemma init_inv : Inv (fst init).
  Proof. split; [constructor | discriminate]. Qed.

  Lemma close_fails_each_once ps :
    closed ps = false -> NoDup (ids (pending ps)) ->
    let '(s', evs) := close_conn (ps, ([] : bytes)) in
    closed (fst s') = true /\ pending (fst s') = [] /\
    evs = map fail_reply (pending ps) /\
    attempted_ids evs = ids (pending ps) /\
    failed_ids evs = ids (filter (registered c) (pending ps)) /\
    refused_ids evs = ids (filter (fun e => negb (registered c e)) (pending ps)) /\
    NoDup (failed_ids evs) /\ delivered evs = [].
  Proof.
    intros Hopen Hnd. unfold Model.close_conn. rewrite Hopen. simpl.
    rewrite attempted_ids_fail_replies, failed_ids_fail_replies, refused_ids_fail_replies,
      delivered_fail_replies.
    repeat split; auto. apply nodup_ids_filter, Hnd.
  Qed.

  (* per request: a pending request whose requester is still registered gets its error reply
     exactly once, no matter which other requesters are gone *)
  Lemma close_fails_registered ps e :
    NoDup (ids (pending ps)) -> In e (pending ps) -> registered c e = true ->
    count_occ N.eq_dec (failed_ids (map fail_reply (pending ps))) (fst e) = 1.
  Proof.
    intros Hnd Hin Hreg. rewrite failed_ids_fail_replies.
    assert (Hnd' : NoDup (ids (filter (registered c) (pending ps)))) by (apply nodup_ids_filter, Hnd).
    assert (Hin' : In (fst e) (ids (filter (registered c) (pending ps)))).
    { unfold ids. apply in_map. apply filter_In. auto. }
    pose proof (proj1 (NoDup_count_occ N.eq_dec _) Hnd' (fst e)) as Hle.
    pose proof (proj1 (count_occ_In N.eq_dec _ (fst e)) Hin') as Hge. lia.
  Qed.

  (* -------------------------------------------------------------------------------------- *)
  (* no request is left without an answer once the connection is closed                      *)
  (* -------------------------------------------------------------------------------------- *)

  Definition Acc (ps : pstate) (E : list event) : Prop :=
    forall id, In id (sent_request_ids E) ->
      In id (ids (pending ps)) \/ In id (replied_ids E) \/ In id (attempted_ids E).

  Lemma sent_request_ids_app a b : sent_request_ids (a ++ b) = sent_request_ids a ++ sent_request_ids b.
  Proof. induction a as [|[m| m | m | m | | |] a IH]; simpl; try congruence. destruct (mkind m); simpl; congruence. Qed.

  Lemma replied_ids_app a b : replied_ids (a ++ b) = replied_ids a ++ replied_ids b.
  Proof. induction a as [|[m| m | m | m | | |] a IH]; simpl; try congruence. destruct (mkind m); simpl; congruence. Qed.

  Lemma sent_request_ids_fail_replies l : sent_request_ids (map fail_reply l) = [].
  Proof.
    induction l as [|e l IH]; simpl; auto.
    destruct (fail_reply_cases c e) as [[_ ->]|[_ ->]]; simpl; exact IH.
  Qed.

  Lemma Acc_ext ps ps' E ev :
    Acc ps E ->
    (forall id, In id (ids (pending ps)) \/ In id (sent_request_ids ev) ->
                In id (ids (pending ps')) \/ In id (replied_ids ev) \/ In id (attempted_ids ev)) ->
    Acc ps' (E ++ ev).
  Proof.
    intros HA Hl id. rewrite sent_request_ids_app, replied_ids_app, attempted_ids_app, !in_app_iff.
    intros [Hin|Hin].
    - destruct (HA id Hin) as [H|[H|H]]; [|tauto|tauto].
      destruct (Hl id (or_introl H)) as [H'|[H'|H']]; tauto.
    - destruct (Hl id (or_intror Hin)) as [H'|[H'|H']]; tauto.
  Qed.

  Lemma Acc_fail ps E k : Acc ps E -> Acc (fst (fail ps k)) (E ++ snd (fail ps k)).
  Proof.
    intro HA. apply (Acc_ext ps); [exact HA|]. rewrite fail_eq. cbn [fst snd].
    intros id [H|H].
    - right; right. cbn [attempted_ids]. rewrite attempted_ids_fail_replies. exact H.
    - cbn [sent_request_ids] in H. rewrite sent_request_ids_fail_replies in H. destruct H.
  Qed.

  Lemma in_ids_remove_id x id l : In x (ids l) -> x = id \/ In x (ids (remove_id id l)).
  Proof.
    induction l as [|e l IH]; simpl; [tauto|].
    destruct (fst e =? id)%N eqn:E.
    - apply N.eqb_eq in E. intros [H|H]; [left; congruence | auto].
    - simpl. intros [H|H]; [right; left; exact H | destruct (IH H); auto].
  Qed.

  Lemma Acc_process ps E p :
    Acc ps E -> Acc (fst (process ps p)) (E ++ snd (process ps p)).
  Proof.
    intro HA. unfold Model.process.
    destruct (deser p) as [m|]; [|apply Acc_fail, HA].
    destruct (peer ps) as [pn|].
    - destruct (mkind m) eqn:Hk; try (apply Acc_fail, HA);
        (destruct (negb (fst (mdst m) =? local_ctx c)%N); [apply Acc_fail, HA|]);
        (destruct (negb (fst (msrc m) =? pn)%N); [apply Acc_fail, HA|]);
        apply (Acc_ext ps); try exact HA; cbn [fst snd pending].
      + intros x [H|H]; [left; exact H|].
        destruct (mem (snd (mdst m)) (rejects c)); simpl in H; rewrite ?Hk in H; simpl in H; destruct H.
      + intros x [H|H].
        * destruct (in_ids_remove_id x id _ H) as [->|H']; [|left; exact H'].
          right; left. simpl. rewrite Hk. left; reflexivity.
        * simpl in H. destruct H.
      + intros x [H|H]; [left; exact H|]. simpl in H. destruct H.
    - destruct (mkind m); try (apply Acc_fail, HA).
      destruct (_ || _); [apply Acc_fail, HA|].
      apply (Acc_ext ps); [exact HA|]. simpl. tauto.
  Qed.

  Lemma Acc_drain f : forall ps b E,
    Acc ps E -> Acc (fst (fst (drain f ps b))) (E ++ snd (drain f ps b)).
  Proof.
    induction f as [|f IH]; intros ps b E HA.
    - simpl. apply (Acc_ext ps); [exact HA|]. simpl. tauto.
    - rewrite drain_unfold.
      destruct (head_of b) as [| | | | |p r]; try (simpl; rewrite app_nil_r; exact HA).
      + pose proof (Acc_fail ps E BadMarker HA) as H. rewrite fail_eq in *. exact H.
      + pose proof (Acc_fail ps E TooBig HA) as H. rewrite fail_eq in *. exact H.
      + pose proof (Acc_process ps E p HA) as Hp.
        destruct (process ps p) as [ps1 ev1]. cbn [fst snd] in Hp.
        destruct (closed ps1); [exact Hp|].
        specialize (IH ps1 r (E ++ ev1) Hp). destruct (drain f ps1 r) as [s ev].
        cbn [fst snd] in *. rewrite app_assoc. exact IH.
  Qed.

  Lemma Acc_feed s ch E : Acc (fst s) E -> Acc (fst (fst (feed s ch))) (E ++ snd (feed s ch)).
  Proof.
    destruct s as [ps b]. intro HA. unfold Model.feed.
    destruct (closed ps); [simpl; rewrite app_nil_r; exact HA | apply Acc_drain, HA].
  Qed.

  Lemma Acc_close s E : Acc (fst s) E -> Acc (fst (fst (close_conn s))) (E ++ snd (close_conn s)).
  Proof.
    destruct s as [ps b]. intro HA. unfold close_conn.
    destruct (closed ps); [simpl; rewrite app_nil_r; exact HA|].
    apply (Acc_ext ps); [exact HA|]. cbn [fst snd close_p].
    intros id [H|H].
    - right; right. rewrite attempted_ids_fail_replies. exact H.
    - rewrite sent_request_ids_fail_replies in H. destruct H.
  Qed.

  Lemma Acc_send ps m sz E : Acc ps E -> Acc (fst (send c ps m sz)) (E ++ snd (send c ps m sz)).
  Proof.
    intro HA. apply (Acc_ext ps); [exact HA|]. unfold send.
    assert (Hund : forall x, In x (sent_request_ids
               match mkind m with
               | KRequest id => [local_error c id (mdst m) (msrc m)]
               | _ => []
               end) -> False)
      by (intro x; destruct (mkind m); simpl; try tauto; unfold local_error;
          destruct (mem (snd (msrc m)) (rejects c)); simpl; tauto).
    destruct (closed ps); [cbn [fst snd]; intros x [H|H]; [left; exact H | destruct (Hund x H)]|].
    destruct (mkind m) eqn:Hk.
    - destruct (maxsz c <? sz)%N; cbn [fst snd]; intros x [H|H]; try (left; exact H);
        simpl in H; rewrite ?Hk in H; destruct H.
    - destruct (peer ps) as [pn|]; [|cbn [fst snd]; intros x [H|H]; [left; exact H | destruct (Hund x H)]].
      destruct (maxsz c <? sz)%N; cbn [fst snd pending].
      + intros x [H|H]; [left; exact H | destruct (Hund x H)].
      + intros x [H|H].
        * left. destruct (mem id (ids (pending ps))); [exact H|].
          unfold ids. rewrite map_app, in_app_iff. left; exact H.
        * simpl in H. rewrite Hk in H. simpl in H. destruct H as [<-|[]].
          left. destruct (mem id (ids (pending ps))) eqn:Hm; [apply mem_spec, Hm|].
          unfold ids. rewrite map_app, in_app_iff. right; left; reflexivity.
    - destruct (peer ps) as [pn|]; [|cbn [fst snd]; intros x [H|H]; [left; exact H | destruct (Hund x H)]].
      destruct (maxsz c <? sz)%N; cbn [fst snd pending]; intros x [H|H]; try (left; exact H);
        simpl in H; rewrite ?Hk in H; destruct H.
    - destruct (peer ps) as [pn|]; [|cbn [fst snd]; intros x [H|H]; [left; exact H | destruct (Hund x H)]].
      destruct (maxsz c <? sz)%N; cbn [fst snd pending]; intros x [H|H]; try (left; exact H);
        simpl in H; rewrite ?Hk in H; destruct H.
  Qed.

  Lemma Acc_step s o E :
    Acc (fst s) E -> Acc (fst (fst (step deser c s o))) (E ++ snd (step deser c s o)).
  Proof.
    intro HA. destruct o as [ch| |m sz|]; cbn [step].
    - apply Acc_feed, HA.
    - apply Acc_close, HA.
    - destruct s as [ps b]. pose proof (Acc_send ps m sz E HA) as H.
      destruct (send c ps m sz) as [ps' ev]. exact H.
    - apply Acc_close, HA.
  Qed.

  Lemma Acc_run ops : forall s E,
    Acc (fst s) E -> Acc (fst (fst (run deser c s ops))) (E ++ snd (run deser c s ops)).
  Proof.
    induction ops as [|o ops IH]; intros s E HA.
    - simpl. rewrite app_nil_r. exact HA.
    - cbn [run]. pose proof (Acc_step s o E HA) as Hs. destruct (step deser c s o) as [s1 e1].
      cbn [fst snd] in Hs. specialize (IH s1 (E ++ e1) Hs). destruct (run deser c s1 ops) as [s2 e2].
      cbn [fst snd] in *. rewrite app_assoc. exact IH.
  Qed.

  Lemma attempted_split evs id :
    In id (attempted_ids evs) -> In id (failed_ids evs) \/ In id (refused_ids evs).
  Proof.
    induction evs as [|[m| m | m | m | | |] evs IH]; simpl; try tauto;
      destruct (mkind m); simpl; tauto.
  Qed.

  Lemma no_request_left ops ps b evs :
    run deser c init ops = ((ps, b), evs) -> closed ps = true ->
    forall id, In id (sent_request_ids evs) ->
      In id (replied_ids evs) \/ In id (failed_ids evs) \/ In id (refused_ids evs).
  Proof.
    intros Hrun Hcl id Hin.
    assert (HA : Acc (fst init) []) by (intros x []).
    pose proof (Acc_run ops init [] HA) as H. pose proof (run_inv ops init init_inv) as [_ Hp].
    rewrite Hrun in *. cbn [fst snd app] in *.
    destruct (H id Hin) as [H1|[H1|H1]]; [rewrite (Hp Hcl) in H1; destruct H1 | tauto |].
    right. apply attempted_split, H1.
  Qed.

  (* -------------------------------------------------------------------------------------- *)
  (* final forms used by Properties.v                                                       *)
  (* -------------------------------------------------------------------------------------- *)

  Lemma segmentation_init cs1 cs2 :
    concat cs1 = concat cs2 -> run_feed init cs1 = run_feed init cs2.
  Proof.
    intro H. rewrite <- (run_feed_init_concat cs1), <- (run_feed_init_concat cs2), H. reflexivity.
  Qed.

  Lemma segmentation_any s cs : cs <> [] -> run_feed s cs = run_feed s [concat cs].
  Proof.
    intro H. rewrite (run_feed_concat cs s H).
    rewrite (run_feed_concat [concat cs] s) by discriminate. simpl. rewrite app_nil_r. reflexivity.
  Qed.

  Lemma exact_delivery_init (Hmax : (maxsz c < 2 ^ 64)%N) ser pn hs ms cs :
    (forall m, In m (hs :: ms) -> deser (ser m) = Some m /\ fits (ser m)) ->
    mkind hs = KHandshake (negb (incoming c)) -> fst (msrc hs) = pn ->
    Forall (valid_from pn) ms ->
    concat cs = concat (map frame (map ser (hs :: ms))) ->
    exists ps evs,
      run_feed init cs = ((ps, []), evs) /\ closed ps = false /\ peer ps = Some pn /\
      delivered evs = map rewrite_src ms /\ errors evs = [] /\ failed_ids evs = [].
  Proof.
    intros Hser Hk Hpn Hval Hcs.
    assert (Hfits : Forall fits (map ser (hs :: ms))).
    { apply Forall_forall. intros p Hp. apply in_map_iff in Hp as [m [<- Hm]]. apply Hser, Hm. }
    unfold init. rewrite run_feed_empty_buf, Hcs. rewrite <- (app_nil_r (concat _)).
    rewrite (feed_frames Hmax (mkp None false []) _ [] eq_refl Hfits).
    cbn [map Model.process_all].
    rewrite (handshake_accepted (ser hs) hs (proj1 (Hser hs (or_introl eq_refl))) Hk). rewrite Hpn.
    cbn [closed].
    destruct (process_all_valid ser pn ms (mkp (Some pn) false []) eq_refl eq_refl
                (fun m Hm => proj1 (Hser m (or_intror Hm))) Hval)
      as [ps1 [evs [Hpa [Hc [Hp [Hd [He Hf]]]]]]].
    rewrite Hpa, Hc, (feed_nil ps1 Hc). exists ps1, evs. rewrite app_nil_r. simpl. repeat split; assumption.
  Qed.

  Lemma fail_shape ps k :
    fail ps k = (mkp (peer ps) true [], EError k :: map fail_reply (pending ps)) /\
    delivered (snd (fail ps k)) = [] /\
    attempted_ids (snd (fail ps k)) = ids (pending ps) /\
    failed_ids (snd (fail ps k)) = ids (filter (registered c) (pending ps)).
  Proof.
    rewrite fail_eq. cbn [snd delivered failed_ids attempted_ids].
    rewrite delivered_fail_replies, failed_ids_fail_replies, attempted_ids_fail_replies. auto.
  Qed.

  Lemma reachable_inv ops :
    let '((ps, _), _) := run deser c init ops in
    NoDup (ids (pending ps)) /\ (closed ps = true -> pending ps = []).
  Proof.
    pose proof (run_inv ops init init_inv) as H.
    destruct (run deser c init ops) as [[ps b] evs]. exact H.
  Qed.

  Lemma close_steps ps b :
    closed ps = false ->
    step deser c (ps, b) OEof = ((mkp (peer ps) true [], []), map fail_reply (pending ps)) /\
    step deser c (ps, b) ODisconnect = ((mkp (peer ps) true [], []), map fail_reply (pending ps)).
  Proof. intro H. simpl. rewrite H. auto. Qed.

End WithCodec.
