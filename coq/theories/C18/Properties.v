(* C18 — property theorems only.  Each is closed by [exact] of a lemma of ProofsCodec / ProofsGlob /
   ProofsResp and followed by Print Assumptions.  All statements are about the functions of Model.v
   that the correspondence check evaluates against the real code (unpack_qmi_udp_packet,
   _UdpResponder._handle_read, ping_qmi_contexts / discover_peer_contexts, fnmatch.fnmatchcase),
   for ALL byte strings / names / patterns / ids / timestamps / datagram sequences (unbounded).
   Bytes and code points are N; [bytes bs] says every element is < 256.  A packet holds the raw
   64-byte name fields; the value the code sees through a field is [cstr] of it. *)
Require Import QV.C18.Model QV.C18.Proofs.
Open Scope N_scope.

(* ---- codecs ------------------------------------------------------------------------------- *)

(* every well-formed packet (ids < 2^64, 8-byte timestamps, 64-byte fields, int32 pid/port)
   survives pack-then-unpack unchanged *)
Theorem C18_pack_unpack : forall p, wf_packet p -> unpack (pack p) = UOk p.
Proof. exact pack_unpack. Qed.
Print Assumptions C18_pack_unpack.

(* a name of up to 64 bytes without NUL — including exactly 63 and exactly 64 bytes, where no
   terminator fits — is stored in a 64-byte field and read back unchanged *)
Theorem C18_name_field : forall n,
  (length n <= 64)%nat -> bytes n -> nonul n ->
  length (field64 n) = 64%nat /\ bytes (field64 n) /\ cstr (field64 n) = n.
Proof. exact name_field. Qed.
Print Assumptions C18_name_field.

(* create(id, ts, wf, cf) -> bytes -> unpack gives the same structure, whose filters read wf, cf *)
Theorem C18_request_roundtrip : forall id ts wf cf,
  u64 id -> blk 8 ts -> (length wf <= 64)%nat -> (length cf <= 64)%nat -> bytes wf -> bytes cf ->
  nonul wf -> nonul cf ->
  exists wf' cf', mk_request id ts wf cf = Some (Request id ts wf' cf') /\
                  unpack (pack (Request id ts wf' cf')) = UOk (Request id ts wf' cf') /\
                  cstr wf' = wf /\ cstr cf' = cf.
Proof. exact mk_request_roundtrip. Qed.
Print Assumptions C18_request_roundtrip.

(* strictness: a byte string that unpacks IS the packing of the packet obtained, and that packet is
   well-formed.  Exact at the level of the raw fields.  (At the level of the VISIBLE names it cannot
   be exact: bytes after the first NUL of a name field are invisible — see the Example below.) *)
Theorem C18_unpack_strict : forall bs p, bytes bs -> unpack bs = UOk p -> pack p = bs /\ wf_packet p.
Proof. exact unpack_ok_inv. Qed.
Print Assumptions C18_unpack_strict.

(* hence: exact size for the type, right magic, known type tag *)
Theorem C18_unpack_shape : forall bs p,
  bytes bs -> unpack bs = UOk p ->
  length bs = packet_size p /\ slice 0 4 bs = le_enc 4 MAGIC /\ slice 4 2 bs = le_enc 2 (packet_tag p).
Proof. exact unpack_ok_shape. Qed.
Print Assumptions C18_unpack_shape.

(* truncated / oversized / wrong magic / unknown type are all rejected *)
Theorem C18_unpack_rejects : forall bs,
  ((length bs < 22)%nat -> unpack bs = UErr TooShort) /\
  ((22 <= length bs)%nat -> le_dec (slice 0 4 bs) <> MAGIC -> unpack bs = UErr BadMagic) /\
  (length bs <> 22%nat -> length bs <> 150%nat -> length bs <> 174%nat -> exists e, unpack bs = UErr e) /\
  (le_dec (slice 4 2 bs) <> TAG_REQUEST -> le_dec (slice 4 2 bs) <> TAG_KILL ->
   le_dec (slice 4 2 bs) <> TAG_RESPONSE -> exists e, unpack bs = UErr e).
Proof. exact unpack_rejects. Qed.
Print Assumptions C18_unpack_rejects.

(* ---- wildcard matching -------------------------------------------------------------------- *)

(* the table matcher decides the declarative relation, for every pattern and every string *)
Theorem C18_glob_sound_complete : forall pat s, gmatch pat s = true <-> Glob pat s.
Proof. exact gmatch_Glob. Qed.
Print Assumptions C18_glob_sound_complete.

(* what plain bracket expressions mean: [abc], [!abc] (no '-' inside), [lo-hi] *)
Theorem C18_set_plain : forall c st x,
  c <> 33 -> Forall (fun c => c <> 45) (c :: st) -> set_mem (c :: st) x = existsb (N.eqb x) (c :: st).
Proof. exact set_mem_plain. Qed.
Print Assumptions C18_set_plain.
Theorem C18_set_negated : forall st x,
  Forall (fun c => c <> 45) st -> set_mem (33 :: st) x = negb (existsb (N.eqb x) st).
Proof. exact set_mem_negated. Qed.
Print Assumptions C18_set_negated.
Theorem C18_set_range : forall lo hi x,
  lo <> 33 -> lo <= hi -> set_mem [lo; 45; hi] x = (lo <=? x) && (x <=? hi).
Proof. exact set_mem_range. Qed.
Print Assumptions C18_set_range.

(* ---- the responder ------------------------------------------------------------------------ *)

(* A request is answered iff both filters (as text) match the context's own workgroup and name —
   and the names fit the 64-byte fields.  The answer echoes the request's id and timestamp bit for
   bit and carries pid, name, workgroup, port; nid/nts are the answer's own id and timestamp. *)
Theorem C18_answers_iff : forall c nid nts id ts wf cf q,
  respond c nid nts (Request id ts wf cf) = RAnswer q <->
  exists wpat cpat nb wb,
    utf8_dec (cstr wf) = Some wpat /\ utf8_dec (cstr cf) = Some cpat /\
    Glob wpat (c_wg c) /\ Glob cpat (c_name c) /\
    utf8_enc (c_name c) = Some nb /\ utf8_enc (c_wg c) = Some wb /\
    (length nb <= 64)%nat /\ (length wb <= 64)%nat /\
    q = Response nid nts id ts (c_pid c) (field64 nb) (field64 wb) (c_port c).
Proof. exact respond_answers. Qed.
Print Assumptions C18_answers_iff.

(* the same for plain (ASCII) names and filters of at most 64 bytes: no side conditions left *)
Theorem C18_answers_iff_text : forall c nid nts id ts wf cf,
  ascii (cstr wf) -> ascii (cstr cf) -> ascii (c_name c) -> ascii (c_wg c) ->
  (length (c_name c) <= 64)%nat -> (length (c_wg c) <= 64)%nat ->
  (Glob (cstr wf) (c_wg c) /\ Glob (cstr cf) (c_name c) ->
   respond c nid nts (Request id ts wf cf) =
     RAnswer (Response nid nts id ts (c_pid c) (field64 (c_name c)) (field64 (c_wg c)) (c_port c))) /\
  (~ (Glob (cstr wf) (c_wg c) /\ Glob (cstr cf) (c_name c)) ->
   respond c nid nts (Request id ts wf cf) = RNoMatch).
Proof. exact respond_ascii. Qed.
Print Assumptions C18_answers_iff_text.

(* at the datagram level: the packing of a well-formed request is handled by [respond] *)
Theorem C18_handle_request : forall c nid nts id ts wf cf,
  wf_packet (Request id ts wf cf) ->
  handle c nid nts (pack (Request id ts wf cf)) =
    match respond c nid nts (Request id ts wf cf) with
    | RNoMatch => HNothing | RRaise e => HRaise e | RAnswer q => HSend (pack q)
    end.
Proof. exact handle_request. Qed.
Print Assumptions C18_handle_request.

(* whatever is sent is the answer to a well-formed request *)
Theorem C18_only_requests_answered : forall c nid nts bs out,
  bytes bs -> handle c nid nts bs = HSend out ->
  exists id ts wf cf q, bs = pack (Request id ts wf cf) /\ wf_packet (Request id ts wf cf) /\
                        respond c nid nts (Request id ts wf cf) = RAnswer q /\ out = pack q.
Proof. exact handle_send_inv. Qed.
Print Assumptions C18_only_requests_answered.

(* ---- junk --------------------------------------------------------------------------------- *)

(* a byte string that is not the packing of a request (info or kill) makes the responder send
   nothing: it returns, or ValueError (tag outside the enum) leaves the callback *)
Theorem C18_junk_ignored : forall c nid nts bs,
  bytes bs ->
  (forall id ts wf cf, bs <> pack (Request id ts wf cf)) ->
  (forall id ts, bs <> pack (Kill id ts)) ->
  handle c nid nts bs = HNothing \/ handle c nid nts bs = HRaise EValue.
Proof. exact junk_ignored. Qed.
Print Assumptions C18_junk_ignored.

(* any number of junk datagrams before a datagram d: nothing is sent for them, and d is handled
   exactly as if it had come first (the responder keeps no state) *)
Theorem C18_junk_then_request : forall c js nid nts d,
  Forall (fun j => junk (snd j)) js ->
  run c (js ++ [(nid, nts, d)]) = run c js ++ [handle c nid nts d] /\
  Forall (fun h => h = HNothing \/ h = HRaise EValue) (run c js).
Proof. exact run_junk_prefix. Qed.
Print Assumptions C18_junk_then_request.

(* ---- the asking side ---------------------------------------------------------------------- *)

(* discovery reports exactly the replies that echo its own request id and whose name differs from
   the asking context's name *)
Theorem C18_collect : forall my req_id ds l,
  collect my req_id ds = Some l ->
  forall n port, In (n, port) l <->
    exists d i t rt pid name wg, In d ds /\ unpack d = UOk (Response i t req_id rt pid name wg port) /\
                                 utf8_dec (cstr name) = Some n /\ n <> my.
Proof. exact collect_In. Qed.
Print Assumptions C18_collect.

(* ... one entry per such reply, in arrival order *)
Theorem C18_collect_order : forall my req_id ds l,
  collect my req_id ds = Some l -> l = flat_map (entry my req_id) ds.
Proof. exact collect_order. Qed.
Print Assumptions C18_collect_order.

(* ... and the call fails (UnicodeDecodeError) only if a reply to its own request carries a name
   that is not UTF-8; no other datagram can make it fail *)
Theorem C18_collect_fails_only_on_bad_name : forall my req_id ds,
  collect my req_id ds = None <->
  exists d i t rt pid name wg port, In d ds /\ unpack d = UOk (Response i t req_id rt pid name wg port) /\
                                    utf8_dec (cstr name) = None.
Proof. exact collect_none. Qed.
Print Assumptions C18_collect_fails_only_on_bad_name.

(* both sides: the answer a responder sends to request [id] is found by the asker of [id] (unless
   it is the asker itself) *)
Theorem C18_answer_is_found : forall c nid nts id ts wf cf q my,
  respond c nid nts (Request id ts wf cf) = RAnswer q ->
  u64 nid -> blk 8 nts -> u64 id -> blk 8 ts -> i32 (c_pid c) -> i32 (c_port c) ->
  ascii (c_name c) -> nonul (c_name c) -> ascii (c_wg c) ->
  collect my id [pack q] = Some (if cp_eqb (c_name c) my then [] else [(c_name c, c_port c)]).
Proof. exact answer_is_found. Qed.
Print Assumptions C18_answer_is_found.

(* ---- non-vacuity -------------------------------------------------------------------------- *)
Definition n63 : list N := repeat 97 63.
Definition n64 : list N := repeat 98 64.
Definition ts1 : list N := [1; 0; 0; 0; 0; 0; 240; 127].   (* a signalling NaN *)
Definition ctx1 : ctx := mkctx n64 n63 4242 35999.
Definition req1 : list N := pack (Request 7 ts1 (field64 [97; 42]) (field64 n64)).  (* "a*", 64 x 'b' *)

Example C18_ex_wf : wf_packet (Request 7 ts1 (field64 [97; 42]) (field64 n64)).
Proof. cbn [wf_packet]. unfold u64, blk, bytes. repeat split; vm_compute; try reflexivity; repeat constructor. Qed.

(* 63- and 64-byte names read back; 64 bytes leave no NUL in the field *)
Example C18_ex_names : cstr (field64 n63) = n63 /\ cstr (field64 n64) = n64 /\ field64 n64 = n64.
Proof. vm_compute. auto. Qed.

(* a session: three junk datagrams (empty, truncated, one byte too long), then the request: answered,
   with id 7 and the NaN timestamp echoed, name of 64 bytes, workgroup of 63 bytes *)
Example C18_ex_session :
  run ctx1 [(0, [], []); (0, [], firstn 149 req1); (0, [], req1 ++ [0]); (9, ts1, req1)]
  = [HNothing; HNothing; HNothing;
     HSend (pack (Response 9 ts1 7 ts1 4242 (field64 n64) (field64 n63) 35999))].
Proof. vm_compute. reflexivity. Qed.

(* case matters; unknown tag 0x999 is a ValueError; tag 0x103 is discarded *)
Example C18_ex_more :
  handle ctx1 9 ts1 (pack (Request 7 ts1 (field64 [65; 42]) (field64 [42]))) = HNothing /\
  handle ctx1 9 ts1 (le_enc 4 MAGIC ++ le_enc 2 2457 ++ repeat 0 144) = HRaise EValue /\
  handle ctx1 9 ts1 (le_enc 4 MAGIC ++ le_enc 2 259 ++ repeat 0 144) = HNothing.
Proof. vm_compute. auto. Qed.

(* fnmatch corner cases: unclosed '[' is literal; ']' first in a set; negation; reversed range never
   matches; "[x-a!b]" is the negated set of 'b' after the range surgery; many stars *)
Example C18_ex_glob :
  gmatch [91; 97] [91; 97] = true /\                      (* "[a"    ~ "[a" *)
  gmatch [91; 93; 97; 93] [93] = true /\                  (* "[]a]"  ~ "]"  *)
  gmatch [91; 33; 93; 93] [93] = false /\                 (* "[!]]" !~ "]"  *)
  gmatch [91; 122; 45; 97; 93] [109] = false /\           (* "[z-a]" !~ "m" *)
  gmatch [91; 120; 45; 97; 33; 98; 93] [99] = true /\     (* "[x-a!b]" ~ "c" *)
  gmatch [91; 120; 45; 97; 33; 98; 93] [98] = false /\    (* "[x-a!b]" !~ "b" *)
  gmatch [42; 97; 42; 98; 42] [120; 97; 121; 98; 122] = true /\
  Glob [97; 63; 42] [97; 98; 99; 100].
Proof.
  repeat split; try (vm_compute; reflexivity).
  apply (G_lit 97); try discriminate. apply G_any. apply (G_star [] [99; 100] []). constructor.
Qed.

(* discovery: own request id 7, own name "me": the reply from "me" and the reply to request 8 are
   left out, junk is skipped *)
Example C18_ex_collect :
  collect [109; 101] 7
    [ pack (Response 1 ts1 7 ts1 10 (field64 [112; 49]) (field64 [119]) 1001);
      [1; 2; 3];
      pack (Response 2 ts1 7 ts1 11 (field64 [109; 101]) (field64 [119]) 1002);
      pack (Response 3 ts1 8 ts1 12 (field64 [112; 50]) (field64 [119]) 1003);
      pack (Response 4 ts1 7 ts1 13 (field64 [112; 51]) (field64 [119]) (-1)) ]
  = Some [([112; 49], 1001%Z); ([112; 51], (-1)%Z)].
Proof. vm_compute. reflexivity. Qed.

(* the caveat of C18_unpack_strict: two different datagrams with the same visible filters *)
Example C18_ex_hidden_bytes :
  let a := Request 7 ts1 (field64 [97]) (field64 [42]) in
  let b := Request 7 ts1 ([97; 0; 66] ++ repeat 0 61) (field64 [42]) in
  pack a <> pack b /\ unpack (pack a) = UOk a /\ unpack (pack b) = UOk b /\
  match a, b with Request _ _ w1 c1, Request _ _ w2 c2 => cstr w1 = cstr w2 /\ cstr c1 = cstr c2 | _, _ => False end.
Proof. vm_compute. repeat split; discriminate. Qed.
