(* C18 — lemmas about the responder, junk datagrams and the asking side. *)
Require Import QV.C18.Model QV.C18.ProofsCodec QV.C18.ProofsGlob.
From Coq Require Import Lia ZifyBool ZifyNat ZifyN.
Open Scope N_scope.

(* ------------------------------------------------ ASCII text is its own UTF-8 -------------- *)
Definition ascii (l : list N) : Prop := Forall (fun b => b < 128) l.

Lemma utf8_dec_ascii l : ascii l -> utf8_dec l = Some l.
Proof.
  induction 1 as [|b r Hb Hr IH]; [reflexivity|]. cbv beta in Hb. cbn [utf8_dec].
  destruct (N.ltb_spec b 128); [|lia]. now rewrite IH.
Qed.

Lemma utf8_enc_ascii l : ascii l -> utf8_enc l = Some l.
Proof.
  induction 1 as [|b r Hb Hr IH]; [reflexivity|]. cbv beta in Hb. cbn [utf8_enc]. unfold utf8_enc1.
  destruct (N.ltb_spec b 128); [|lia]. now rewrite IH.
Qed.

Lemma ascii_bytes l : ascii l -> bytes l.
Proof. apply Forall_impl. intros a H. lia. Qed.

Lemma ascii_cstr l : ascii l -> ascii (cstr l).
Proof.
  induction 1 as [|b r Hb Hr IH]; cbn [cstr]; [constructor|]. destruct (b =? 0); constructor; assumption.
Qed.

(* ------------------------------------------------ the responder ---------------------------- *)
Lemma respond_answers c nid nts id ts wf cf q :
  respond c nid nts (Request id ts wf cf) = RAnswer q <->
  exists wpat cpat nb wb,
    utf8_dec (cstr wf) = Some wpat /\ utf8_dec (cstr cf) = Some cpat /\
    Glob wpat (c_wg c) /\ Glob cpat (c_name c) /\
    utf8_enc (c_name c) = Some nb /\ utf8_enc (c_wg c) = Some wb /\
    (length nb <= 64)%nat /\ (length wb <= 64)%nat /\
    q = Response nid nts id ts (c_pid c) (field64 nb) (field64 wb) (c_port c).
Proof.
  cbn [respond]. split.
  - destruct (utf8_dec (cstr wf)) as [wpat|]; [|discriminate].
    destruct (gmatch wpat (c_wg c)) eqn:G1; cbn [negb]; [|discriminate].
    destruct (utf8_dec (cstr cf)) as [cpat|]; [|discriminate].
    destruct (gmatch cpat (c_name c)) eqn:G2; cbn [negb]; [|discriminate].
    destruct (utf8_enc (c_name c)) as [nb|]; [|discriminate].
    destruct (utf8_enc (c_wg c)) as [wb|]; [|discriminate].
    destruct (Nat.ltb_spec 64 (length nb)); cbn [orb]; [discriminate|].
    destruct (Nat.ltb_spec 64 (length wb)); [discriminate|].
    intro E; injection E as <-. exists wpat, cpat, nb, wb.
    apply gmatch_Glob in G1. apply gmatch_Glob in G2. repeat split; auto.
  - intros (wpat & cpat & nb & wb & -> & -> & G1 & G2 & -> & -> & L1 & L2 & ->).
    apply gmatch_Glob in G1. apply gmatch_Glob in G2. rewrite G1, G2. cbn [negb].
    destruct (Nat.ltb_spec 64 (length nb)); [lia|]. destruct (Nat.ltb_spec 64 (length wb)); [lia|]. reflexivity.
Qed.

(* no filter mismatch is ever answered, and a mismatch is silent *)
Lemma respond_nomatch c nid nts id ts wf cf wpat cpat :
  utf8_dec (cstr wf) = Some wpat -> utf8_dec (cstr cf) = Some cpat ->
  ~ (Glob wpat (c_wg c) /\ Glob cpat (c_name c)) ->
  respond c nid nts (Request id ts wf cf) = RNoMatch.
Proof.
  intros E1 E2 H. cbn [respond]. rewrite E1.
  destruct (gmatch wpat (c_wg c)) eqn:G1; cbn [negb]; [|reflexivity]. rewrite E2.
  destruct (gmatch cpat (c_name c)) eqn:G2; cbn [negb]; [|reflexivity].
  exfalso. apply H. split; now apply gmatch_Glob.
Qed.

(* plain-text names and filters: the statement of the property without encoding side conditions *)
Lemma respond_ascii c nid nts id ts wf cf :
  ascii (cstr wf) -> ascii (cstr cf) -> ascii (c_name c) -> ascii (c_wg c) ->
  (length (c_name c) <= 64)%nat -> (length (c_wg c) <= 64)%nat ->
  (Glob (cstr wf) (c_wg c) /\ Glob (cstr cf) (c_name c) ->
   respond c nid nts (Request id ts wf cf) =
     RAnswer (Response nid nts id ts (c_pid c) (field64 (c_name c)) (field64 (c_wg c)) (c_port c))) /\
  (~ (Glob (cstr wf) (c_wg c) /\ Glob (cstr cf) (c_name c)) ->
   respond c nid nts (Request id ts wf cf) = RNoMatch).
Proof.
  intros A1 A2 A3 A4 L1 L2. split.
  - intros [G1 G2]. apply respond_answers.
    exists (cstr wf), (cstr cf), (c_name c), (c_wg c).
    repeat split; auto using utf8_dec_ascii, utf8_enc_ascii.
  - intro H. eapply respond_nomatch; eauto using utf8_dec_ascii.
Qed.

Definition hsilent (h : hout) : Prop := h = HNothing \/ exists e, h = HRaise e.

Lemma handle_request c nid nts id ts wf cf :
  wf_packet (Request id ts wf cf) ->
  handle c nid nts (pack (Request id ts wf cf)) =
    match respond c nid nts (Request id ts wf cf) with
    | RNoMatch => HNothing | RRaise e => HRaise e | RAnswer q => HSend (pack q)
    end.
Proof. intro W. unfold handle. now rewrite (pack_unpack _ W). Qed.

(* anything sent is the answer to a well-formed request *)
Lemma handle_send_inv c nid nts bs out :
  bytes bs -> handle c nid nts bs = HSend out ->
  exists id ts wf cf q, bs = pack (Request id ts wf cf) /\ wf_packet (Request id ts wf cf) /\
                        respond c nid nts (Request id ts wf cf) = RAnswer q /\ out = pack q.
Proof.
  intros B. unfold handle. destruct (unpack bs) as [p|e] eqn:U.
  - destruct (unpack_ok_inv bs p B U) as [Ep W]. destruct p as [id ts wf cf| |]; try discriminate.
    destruct (respond c nid nts (Request id ts wf cf)) as [| |q] eqn:R; try discriminate.
    intro E; injection E as <-. exists id, ts, wf, cf, q. auto.
  - destruct e; discriminate.
Qed.

Lemma junk_ignored c nid nts bs :
  bytes bs ->
  (forall id ts wf cf, bs <> pack (Request id ts wf cf)) ->
  (forall id ts, bs <> pack (Kill id ts)) ->
  handle c nid nts bs = HNothing \/ handle c nid nts bs = HRaise EValue.
Proof.
  intros B NR NK. unfold handle. destruct (unpack bs) as [p|e] eqn:U.
  - destruct (unpack_ok_inv bs p B U) as [Ep W]. destruct p.
    + exfalso. eapply NR. symmetry. exact Ep.
    + exfalso. eapply NK. symmetry. exact Ep.
    + now left.
  - destruct e; auto.
Qed.

(* the responder has no state: a session is answered datagram by datagram *)
Lemma run_app c a b : run c (a ++ b) = run c a ++ run c b.
Proof. apply map_app. Qed.

Definition junk (bs : list N) : Prop :=
  bytes bs /\ (forall id ts wf cf, bs <> pack (Request id ts wf cf)) /\ (forall id ts, bs <> pack (Kill id ts)).

Lemma run_junk_prefix c js nid nts d :
  Forall (fun j => junk (snd j)) js ->
  run c (js ++ [(nid, nts, d)]) = run c js ++ [handle c nid nts d] /\
  Forall (fun h => h = HNothing \/ h = HRaise EValue) (run c js).
Proof.
  intro H. split; [now rewrite run_app|].
  induction H as [|[[i t] b] r (B & NR & NK) Hr IH]; cbn [run map]; constructor; auto.
  apply junk_ignored; auto.
Qed.

(* ------------------------------------------------ the asking side -------------------------- *)
Lemma cp_eqb_spec a b : cp_eqb a b = true <-> a = b.
Proof.
  revert b; induction a as [|x a IH]; intros [|y b]; cbn [cp_eqb]; split; try discriminate; auto.
  - rewrite andb_true_iff, N.eqb_eq, IH. intros [-> ->]. reflexivity.
  - intro E; injection E as -> ->. rewrite andb_true_iff, N.eqb_eq, IH. auto.
Qed.

Definition is_reply (req_id : N) (p : packet) : Prop :=
  match p with Response _ _ rid _ _ _ _ _ => rid = req_id | _ => False end.

Lemma ping_filter_In req_id ds p :
  In p (ping_filter req_id ds) <-> is_reply req_id p /\ exists d, In d ds /\ unpack d = UOk p.
Proof.
  induction ds as [|d r IH]; cbn [ping_filter].
  - split; [contradiction | intros (_ & ? & [] & _)].
  - assert (K : In p (ping_filter req_id r) -> is_reply req_id p /\ exists d0, In d0 (d :: r) /\ unpack d0 = UOk p).
    { intro H. apply IH in H as (H1 & d0 & H2 & H3). split; [exact H1|]. exists d0. split; [now right | exact H3]. }
    destruct (unpack d) as [q|e] eqn:U.
    + destruct q as [| |i t rid rt pid name wg port].
      1,2: split; [exact K|]; intros (R & d0 & [<-|Hin] & U0);
           [rewrite U in U0; injection U0 as <-; contradiction | apply IH; eauto].
      destruct (N.eqb_spec rid req_id) as [->|Ne].
      * cbn [In]. split.
        -- intros [<-|H]; [|now apply K]. split; [reflexivity|]. exists d. auto.
        -- intros (R & d0 & [<-|Hin] & U0); [left; rewrite U in U0; now injection U0 | right; apply IH; eauto].
      * split; [exact K|]. intros (R & d0 & [<-|Hin] & U0); [|apply IH; eauto].
        rewrite U in U0. injection U0 as <-. cbn in R. contradiction.
    + split; [exact K|]. intros (R & d0 & [<-|Hin] & U0); [rewrite U in U0; discriminate | apply IH; eauto].
Qed.

Lemma discover_In my rs l :
  discover my rs = Some l ->
  forall n port, In (n, port) l <->
    exists i t r rt pid name wg, In (Response i t r rt pid name wg port) rs /\
                                 utf8_dec (cstr name) = Some n /\ n <> my.
Proof.
  revert l; induction rs as [|p rs IH]; intros l; cbn [discover].
  - intro E; injection E as <-. intros n port. split; [contradiction|]. intros (?&?&?&?&?&?&?&[]&_).
  - destruct p as [| |i t r rt pid name wg port0].
    1,2: intros E n port; rewrite (IH l E n port); split;
         intros (i&t&r&rt&pid&name&wg&Hin&Hd&Hn); exists i,t,r,rt,pid,name,wg;
         (split; [|auto]); [now right | destruct Hin as [Hin|Hin]; [discriminate | exact Hin]].
    destruct (utf8_dec (cstr name)) as [n0|] eqn:D; [|discriminate].
    destruct (discover my rs) as [l0|]; [|discriminate].
    intro E; injection E as <-. intros n port. specialize (IH l0 eq_refl n port).
    destruct (cp_eqb n0 my) eqn:Q.
    + apply cp_eqb_spec in Q. subst n0. rewrite IH. split.
      * intros (i'&t'&r'&rt'&pid'&name'&wg'&Hin&Hd&Hn). exists i',t',r',rt',pid',name',wg'. split; [now right | auto].
      * intros (i'&t'&r'&rt'&pid'&name'&wg'&[Hin|Hin]&Hd&Hn).
        -- injection Hin as <- <- <- <- <- <- <- <-. rewrite D in Hd. injection Hd as <-. contradiction.
        -- exists i',t',r',rt',pid',name',wg'. auto.
    + assert (Ne : n0 <> my) by (intro X; apply cp_eqb_spec in X; congruence).
      cbn [In]. rewrite IH. split.
      * intros [E|(i'&t'&r'&rt'&pid'&name'&wg'&Hin&Hd&Hn)].
        -- injection E as <- <-. exists i,t,r,rt,pid,name,wg. split; [now left | auto].
        -- exists i',t',r',rt',pid',name',wg'. split; [now right | auto].
      * intros (i'&t'&r'&rt'&pid'&name'&wg'&[Hin|Hin]&Hd&Hn).
        -- injection Hin as <- <- <- <- <- <- <- <-. rewrite D in Hd. injection Hd as <-. now left.
        -- right. exists i',t',r',rt',pid',name',wg'. auto.
Qed.

Lemma discover_none my rs :
  discover my rs = None <->
  exists i t r rt pid name wg port, In (Response i t r rt pid name wg port) rs /\ utf8_dec (cstr name) = None.
Proof.
  induction rs as [|p rs IH]; cbn [discover].
  - split; [discriminate | intros (?&?&?&?&?&?&?&?&[]&_)].
  - destruct p as [| |i t r rt pid name wg port].
    1,2: rewrite IH; split; intros (i&t&r&rt&pid&name&wg&port&Hin&Hd); exists i,t,r,rt,pid,name,wg,port;
         (split; [|exact Hd]); [now right | destruct Hin as [Hin|Hin]; [discriminate | exact Hin]].
    destruct (utf8_dec (cstr name)) as [n0|] eqn:D.
    + destruct (discover my rs) as [l0|].
      * split; [discriminate|]. intros (i'&t'&r'&rt'&pid'&name'&wg'&port'&[Hin|Hin]&Hd).
        -- injection Hin as <- <- <- <- <- <- <- <-. congruence.
        -- exfalso. assert (X : Some l0 = None) by (apply IH; eauto 12). discriminate.
      * split; [|reflexivity]. intros _. destruct IH as [IH _]. destruct (IH eq_refl) as (i'&t'&r'&rt'&pid'&name'&wg'&port'&Hin&Hd).
        exists i',t',r',rt',pid',name',wg',port'. split; [now right | exact Hd].
    + split; [|reflexivity]. intros _. exists i,t,r,rt,pid,name,wg,port. split; [now left | exact D].
Qed.

Lemma collect_In my req_id ds l :
  collect my req_id ds = Some l ->
  forall n port, In (n, port) l <->
    exists d i t rt pid name wg, In d ds /\ unpack d = UOk (Response i t req_id rt pid name wg port) /\
                                 utf8_dec (cstr name) = Some n /\ n <> my.
Proof.
  unfold collect. intros E n port. rewrite (discover_In _ _ _ E n port). split.
  - intros (i&t&r&rt&pid&name&wg&Hin&Hd&Hn). apply ping_filter_In in Hin as (R & d & Hin & U). cbn in R. subst r.
    exists d,i,t,rt,pid,name,wg. auto.
  - intros (d&i&t&rt&pid&name&wg&Hin&U&Hd&Hn). exists i,t,req_id,rt,pid,name,wg. split; [|auto].
    apply ping_filter_In. split; [reflexivity|]. eauto.
Qed.

Lemma collect_none my req_id ds :
  collect my req_id ds = None <->
  exists d i t rt pid name wg port, In d ds /\ unpack d = UOk (Response i t req_id rt pid name wg port) /\
                                    utf8_dec (cstr name) = None.
Proof.
  unfold collect. rewrite discover_none. split.
  - intros (i&t&r&rt&pid&name&wg&port&Hin&Hd). apply ping_filter_In in Hin as (R & d & Hin & U). cbn in R. subst r.
    exists d,i,t,rt,pid,name,wg,port. auto.
  - intros (d&i&t&rt&pid&name&wg&port&Hin&U&Hd). exists i,t,req_id,rt,pid,name,wg,port. split; [|auto].
    apply ping_filter_In. split; [reflexivity|]. eauto.
Qed.

(* one entry per accepted reply, in arrival order *)
Definition entry (my : list N) (req_id : N) (d : list N) : list (list N * Z) :=
  match unpack d with
  | UOk (Response _ _ rid _ _ name _ port) =>
      if rid =? req_id then
        match utf8_dec (cstr name) with
        | Some n => if cp_eqb n my then [] else [(n, port)]
        | None => []
        end
      else []
  | _ => []
  end.

Lemma collect_order my req_id ds l : collect my req_id ds = Some l -> l = flat_map (entry my req_id) ds.
Proof.
  unfold collect. revert l; induction ds as [|d r IH]; intro l; cbn [ping_filter flat_map].
  - cbn. intro E; now injection E.
  - unfold entry at 1. destruct (unpack d) as [p|e]; [|exact (IH l)].
    destruct p as [| |i t rid rt pid name wg port]; [exact (IH l) | exact (IH l) |].
    destruct (rid =? req_id); [|exact (IH l)].
    cbn [discover]. destruct (utf8_dec (cstr name)) as [n|]; [|discriminate].
    destruct (discover my (ping_filter req_id r)) as [l0|]; [|discriminate].
    intro E; injection E as <-. rewrite (IH l0 eq_refl). destruct (cp_eqb n my); reflexivity.
Qed.

(* ------------------------------------------------ both sides together ---------------------- *)
(* the answer the responder sends to request [id] is found by the asker of [id] *)
Lemma answer_is_found c nid nts id ts wf cf q my :
  respond c nid nts (Request id ts wf cf) = RAnswer q ->
  u64 nid -> blk 8 nts -> u64 id -> blk 8 ts -> i32 (c_pid c) -> i32 (c_port c) ->
  ascii (c_name c) -> nonul (c_name c) -> ascii (c_wg c) ->
  collect my id [pack q] = Some (if cp_eqb (c_name c) my then [] else [(c_name c, c_port c)]).
Proof.
  intros R Hn Hnt Hi Ht Hp Hpo An Nn Aw.
  apply respond_answers in R as (wpat & cpat & nb & wb & _ & _ & _ & _ & En & Ew & L1 & L2 & ->).
  rewrite utf8_enc_ascii in En, Ew by assumption. injection En as <-. injection Ew as <-.
  assert (W : wf_packet (Response nid nts id ts (c_pid c) (field64 (c_name c)) (field64 (c_wg c)) (c_port c))).
  { cbn [wf_packet]. unfold blk in *.
    destruct Hnt, Ht. repeat (match goal with |- _ /\ _ => split end); auto;
      first [apply field64_length; assumption | apply field64_bytes, ascii_bytes; assumption]. }
  unfold collect. cbn [ping_filter]. rewrite (pack_unpack _ W), N.eqb_refl. cbn [discover].
  rewrite cstr_field64_id by assumption. rewrite utf8_dec_ascii by assumption. reflexivity.
Qed.

(* create() then pack then unpack: the structure comes back, and its visible filters are the arguments *)
Lemma mk_request_roundtrip id ts wf cf :
  u64 id -> blk 8 ts -> (length wf <= 64)%nat -> (length cf <= 64)%nat -> bytes wf -> bytes cf ->
  nonul wf -> nonul cf ->
  exists wf' cf', mk_request id ts wf cf = Some (Request id ts wf' cf') /\
                  unpack (pack (Request id ts wf' cf')) = UOk (Request id ts wf' cf') /\
                  cstr wf' = wf /\ cstr cf' = cf.
Proof.
  intros Hi Ht L1 L2 B1 B2 N1 N2. exists (field64 wf), (field64 cf). unfold mk_request.
  destruct (Nat.ltb_spec 64 (length wf)); [lia|]. destruct (Nat.ltb_spec 64 (length cf)); [lia|].
  split; [reflexivity|]. split; [|split; apply cstr_field64_id; assumption].
  apply pack_unpack. cbn [wf_packet]. unfold blk.
  repeat (match goal with |- _ /\ _ => split end); auto using field64_length, field64_bytes; apply Ht.
Qed.
