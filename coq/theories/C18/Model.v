(* C18 — UDP discovery: executable model, no proofs here.
   Transcribes
     qmi/core/udp_responder_packets.py : the packed little-endian ctypes structures
         (QMI_UdpResponderPacketHeader, ...ContextInfoRequestPacket, ...ContextInfoResponsePacket,
          ...KillRequestPacket, ...ContextDescriptor), their create() helpers, unpack_qmi_udp_packet;
     qmi/core/messaging.py : _UdpResponder._handle_read, _handle_context_info_request_packet;
     qmi/core/context.py   : ping_qmi_contexts (request built, filtering of the datagrams received),
                             QMI_Context.discover_peer_contexts;
     CPython 3.12 fnmatch.translate/fnmatchcase (the wildcard semantics the responder uses);
     strict UTF-8 bytes.decode()/str.encode() (filters arrive as bytes and are matched as str).
   Bytes and code points are N.  A timestamp (c_double) is carried as its 8 bytes. *)
From Coq Require Export List ZArith NArith Bool.
Export ListNotations.
Open Scope N_scope.

(* ------------------------------------------------------------------ little endian ---------- *)
Fixpoint le_enc (n : nat) (v : N) : list N :=
  match n with O => [] | S k => (v mod 256) :: le_enc k (v / 256) end.
Fixpoint le_dec (bs : list N) : N :=
  match bs with [] => 0 | b :: r => b + 256 * le_dec r end.
(* c_int32: ctypes stores any Python int modulo 2^32, reads back signed *)
Definition i32_enc (z : Z) : list N := le_enc 4 (Z.to_N (z mod 4294967296)%Z).
Definition i32_dec (bs : list N) : Z :=
  let v := Z.of_N (le_dec bs) in if (v <? 2147483648)%Z then v else (v - 4294967296)%Z.

Definition slice (a n : nat) (bs : list N) : list N := firstn n (skipn a bs).

(* ------------------------------------------------------------------ char[64] fields --------- *)
(* reading a c_char array field: bytes up to the first NUL *)
Fixpoint cstr (bs : list N) : list N :=
  match bs with [] => [] | b :: r => if b =? 0 then [] else b :: cstr r end.
Definition padz (n : nat) (bs : list N) : list N := bs ++ repeat 0 (n - length bs).
(* assigning bytes (of length <= 64) to a c_char*64 field of a zeroed structure: copied up to
   the first NUL, rest stays zero.  (Longer values raise ValueError: see [respond], [mk_request].) *)
Definition field64 (bs : list N) : list N := padz 64 (cstr bs).

(* ------------------------------------------------------------------ packets ----------------- *)
Definition MAGIC : N := 4803921.           (* 0x00494d51, 'QMI\0' *)
Definition TAG_REQUEST : N := 513.         (* 0x201 *)
Definition TAG_KILL : N := 514.            (* 0x202 *)
Definition TAG_RESPONSE : N := 257.        (* 0x101 *)
Definition TAG_STARTUP : N := 258.         (* 0x102: in the enum, not in _packet_type_lookup *)
Definition TAG_SHUTDOWN : N := 259.        (* 0x103: idem *)

(* Packets hold the raw 64-byte fields (what the structure holds); the visible value of a name
   field is [cstr] of it. *)
Inductive packet :=
| Request (id : N) (ts : list N) (wf cf : list N)
| Kill (id : N) (ts : list N)
| Response (id : N) (ts : list N) (rid : N) (rts : list N) (pid : Z) (name wg : list N) (port : Z).

Definition pack_header (tag id : N) (ts : list N) : list N :=
  le_enc 4 MAGIC ++ le_enc 2 tag ++ le_enc 8 id ++ ts.

Definition pack (p : packet) : list N :=
  match p with
  | Request id ts wf cf => pack_header TAG_REQUEST id ts ++ wf ++ cf
  | Kill id ts => pack_header TAG_KILL id ts
  | Response id ts rid rts pid name wg port =>
      pack_header TAG_RESPONSE id ts ++ le_enc 8 rid ++ rts ++ i32_enc pid ++ name ++ wg ++ i32_enc port
  end.

Inductive uerr :=
| TooShort | BadMagic | UnknownTag | BadSize   (* QMI_RuntimeException *)
| NotATag.                                     (* ValueError from the enum constructor *)
Inductive ures := UOk (p : packet) | UErr (e : uerr).

Definition unpack (bs : list N) : ures :=
  if (length bs <? 22)%nat then UErr TooShort else
  if negb (le_dec (slice 0 4 bs) =? MAGIC) then UErr BadMagic else
  let tag := le_dec (slice 4 2 bs) in
  let id := le_dec (slice 6 8 bs) in
  let ts := slice 14 8 bs in
  if tag =? TAG_REQUEST then
    if (length bs =? 150)%nat then UOk (Request id ts (slice 22 64 bs) (slice 86 64 bs)) else UErr BadSize
  else if tag =? TAG_KILL then
    if (length bs =? 22)%nat then UOk (Kill id ts) else UErr BadSize
  else if tag =? TAG_RESPONSE then
    if (length bs =? 174)%nat then
      UOk (Response id ts (le_dec (slice 22 8 bs)) (slice 30 8 bs) (i32_dec (slice 38 4 bs))
                    (slice 42 64 bs) (slice 106 64 bs) (i32_dec (slice 170 4 bs)))
    else UErr BadSize
  else if (tag =? TAG_STARTUP) || (tag =? TAG_SHUTDOWN) then UErr UnknownTag
  else UErr NotATag.

(* ------------------------------------------------------------------ strict UTF-8 ------------ *)
Definition cont (b : N) : bool := (128 <=? b) && (b <=? 191).

Fixpoint utf8_dec (bs : list N) : option (list N) :=
  match bs with
  | [] => Some []
  | b0 :: r =>
    if b0 <? 128 then option_map (cons b0) (utf8_dec r)
    else if (194 <=? b0) && (b0 <=? 223) then
      match r with
      | b1 :: r1 => if cont b1 then option_map (cons ((b0 - 192) * 64 + (b1 - 128))) (utf8_dec r1) else None
      | _ => None
      end
    else if (224 <=? b0) && (b0 <=? 239) then
      match r with
      | b1 :: b2 :: r2 =>
        if cont b1 && cont b2 && negb ((b0 =? 224) && (b1 <? 160)) && negb ((b0 =? 237) && (160 <=? b1))
        then option_map (cons ((b0 - 224) * 4096 + (b1 - 128) * 64 + (b2 - 128))) (utf8_dec r2) else None
      | _ => None
      end
    else if (240 <=? b0) && (b0 <=? 244) then
      match r with
      | b1 :: b2 :: b3 :: r3 =>
        if cont b1 && cont b2 && cont b3 && negb ((b0 =? 240) && (b1 <? 144)) && negb ((b0 =? 244) && (144 <=? b1))
        then option_map (cons ((b0 - 240) * 262144 + (b1 - 128) * 4096 + (b2 - 128) * 64 + (b3 - 128))) (utf8_dec r3)
        else None
      | _ => None
      end
    else None
  end.

Definition utf8_enc1 (c : N) : option (list N) :=
  if c <? 128 then Some [c]
  else if c <? 2048 then Some [192 + c / 64; 128 + c mod 64]
  else if c <? 65536 then
    if (55296 <=? c) && (c <=? 57343) then None     (* surrogates not allowed *)
    else Some [224 + c / 4096; 128 + (c / 64) mod 64; 128 + c mod 64]
  else if c <? 1114112 then Some [240 + c / 262144; 128 + (c / 4096) mod 64; 128 + (c / 64) mod 64; 128 + c mod 64]
  else None.

Fixpoint utf8_enc (cs : list N) : option (list N) :=
  match cs with
  | [] => Some []
  | c :: r => match utf8_enc1 c, utf8_enc r with Some a, Some b => Some (a ++ b) | _, _ => None end
  end.

(* ------------------------------------------------------------------ fnmatch ----------------- *)
(* characters: '!' 33  '*' 42  '-' 45  '?' 63  '[' 91  ']' 93 *)

(* text after '[' up to (not including) the first ']' at or after the scan start *)
Fixpoint break_rb (p : list N) : option (list N * list N) :=
  match p with
  | [] => None
  | c :: r => if c =? 93 then Some ([], r)
              else match break_rb r with Some (a, b) => Some (c :: a, b) | None => None end
  end.
Definition strip (x : N) (p : list N) : list N * list N :=
  match p with c :: r => if c =? x then ([x], r) else ([], p) | [] => ([], []) end.
(* translate(): j=i; skip one '!'; skip one ']'; scan to the next ']'.  Some (stuff, rest) when
   the bracket is closed (pattern after '[' = stuff ++ ']' :: rest), None when it is not. *)
Definition split_set (p : list N) : option (list N * list N) :=
  let '(a1, p1) := strip 33 p in
  let '(a2, p2) := strip 93 p1 in
  match break_rb p2 with Some (m, rest) => Some (a1 ++ a2 ++ m, rest) | None => None end.

(* the `chunks` loop: a '-' is a range operator unless it is among the first [hold] characters;
   after an operator the next two characters cannot be one (i = k+1; k = k+3) *)
Fixpoint chunkify (hold : nat) (cur : list N) (s : list N) : list (list N) :=
  match s with
  | [] => [cur]
  | c :: r =>
    match hold with
    | S h => chunkify h (cur ++ [c]) r
    | O => if c =? 45 then cur :: chunkify 2 [] r else chunkify 0 (cur ++ [c]) r
    end
  end.
(* `if chunk: chunks.append(chunk) else: chunks[-1] += '-'` *)
Fixpoint fix_last (cs : list (list N)) : list (list N) :=
  match cs with
  | [] => []
  | c :: r =>
    match r with
    | [] => [c]
    | d :: r' => match d, r' with [], [] => [c ++ [45]] | _, _ => c :: fix_last r end
    end
  end.
Definition last_opt (l : list N) : option N := match rev l with [] => None | x :: _ => Some x end.
Definition hd_opt (l : list N) : option N := match l with [] => None | x :: _ => Some x end.
(* "Remove empty ranges": for k = len-1 .. 1: if chunks[k-1][-1] > chunks[k][0] then merge *)
Fixpoint fix_ranges (cs : list (list N)) : list (list N) :=
  match cs with
  | [] => []
  | c :: rest =>
    match fix_ranges rest with
    | [] => [c]
    | d :: rest' =>
      match last_opt c, hd_opt d with
      | Some lo, Some hi => if hi <? lo then (removelast c ++ tl d) :: rest' else c :: d :: rest'
      | _, _ => c :: d :: rest'
      end
    end
  end.
Definition set_chunks (stuff : list N) : list (list N) :=
  let hold := match stuff with c :: _ => if c =? 33 then 2%nat else 1%nat | [] => 1%nat end in
  fix_ranges (fix_last (chunkify hold [] stuff)).
(* the regex character class `'-'.join(escaped chunks)`: every character of a chunk is a member;
   the last character of a chunk and the first of the next one delimit a range *)
Fixpoint mem_chunks (x : N) (cs : list (list N)) : bool :=
  match cs with
  | [] => false
  | c :: r =>
    existsb (N.eqb x) c
    || match last_opt c, r with
       | Some lo, d :: _ => match hd_opt d with Some hi => (lo <=? x) && (x <=? hi) | None => false end
       | _, _ => false
       end
    || mem_chunks x r
  end.
(* stuff[0] == '!' (tested AFTER the range surgery) negates; '' never matches, '!' always does *)
Definition set_mem (stuff : list N) (x : N) : bool :=
  match set_chunks stuff with
  | (c :: c0) :: r => if c =? 33 then negb (mem_chunks x (c0 :: r)) else mem_chunks x ((c :: c0) :: r)
  | cs => mem_chunks x cs
  end.

Inductive item := IStar | IAny | ILit (c : N) | ISet (stuff : list N).

(* translate()'s main loop.  [skip] = characters already consumed by a bracket expression. *)
Fixpoint parse_aux (skip : nat) (p : list N) : list item :=
  match p with
  | [] => []
  | c :: r =>
    match skip with
    | S k => parse_aux k r
    | O =>
      if c =? 42 then IStar :: parse_aux 0 r
      else if c =? 63 then IAny :: parse_aux 0 r
      else if c =? 91 then
        match split_set r with
        | Some (stuff, _) => ISet stuff :: parse_aux (S (length stuff)) r
        | None => ILit 91 :: parse_aux 0 r            (* unclosed '[' is a literal *)
        end
      else ILit c :: parse_aux 0 r
    end
  end.
Definition parse (p : list N) : list item := parse_aux 0 p.

Definition item_ok (it : item) (x : N) : bool :=
  match it with IStar => false | IAny => true | ILit c => x =? c | ISet st => set_mem st x end.

(* Matching by a table over the suffixes of s (polynomial; no backtracking):
   nth k (mtab its s) = "its matches skipn k s", k = 0 .. length s. *)
Fixpoint tab_end (s : list N) : list bool :=
  match s with [] => [true] | _ :: r => false :: tab_end r end.
Fixpoint tab_star (t : list bool) : list bool :=
  match t with [] => [] | b :: r => let r' := tab_star r in (b || hd false r') :: r' end.
Fixpoint tab_one (f : N -> bool) (s : list N) (t : list bool) : list bool :=
  match s with [] => [false] | c :: r => (f c && hd false (tl t)) :: tab_one f r (tl t) end.
Fixpoint mtab (its : list item) (s : list N) : list bool :=
  match its with
  | [] => tab_end s
  | IStar :: r => tab_star (mtab r s)
  | it :: r => tab_one (item_ok it) s (mtab r s)
  end.

(* fnmatch.fnmatchcase(s, pat) on code-point lists *)
Definition gmatch (pat s : list N) : bool := hd false (mtab (parse pat) s).

(* Declarative meaning of a pattern (relation; '*' = any sequence). *)
Inductive Glob : list N -> list N -> Prop :=
| G_nil : Glob [] []
| G_star p s1 s2 : Glob p s2 -> Glob (42 :: p) (s1 ++ s2)
| G_any p c s : Glob p s -> Glob (63 :: p) (c :: s)
| G_set p stuff rest c s :
    split_set p = Some (stuff, rest) -> set_mem stuff c = true -> Glob rest s -> Glob (91 :: p) (c :: s)
| G_lbr p s : split_set p = None -> Glob p s -> Glob (91 :: p) (91 :: s)
| G_lit c p s : c <> 42 -> c <> 63 -> c <> 91 -> Glob p s -> Glob (c :: p) (c :: s).

(* ------------------------------------------------------------------ responder --------------- *)
(* the context: names as str (code points), os.getpid(), MessageRouter.tcp_server_port *)
Record ctx := mkctx { c_name : list N; c_wg : list N; c_pid : Z; c_port : Z }.

Inductive exn := EValue | EUnicodeDecode | EUnicodeEncode.
Inductive rres := RNoMatch | RRaise (e : exn) | RAnswer (p : packet).

(* _handle_context_info_request_packet; nid/nts = the response's own random id and time.time() *)
Definition respond (c : ctx) (nid : N) (nts : list N) (p : packet) : rres :=
  match p with
  | Request id ts wf cf =>
    match utf8_dec (cstr wf) with
    | None => RRaise EUnicodeDecode
    | Some wpat =>
      if negb (gmatch wpat (c_wg c)) then RNoMatch else
      match utf8_dec (cstr cf) with
      | None => RRaise EUnicodeDecode
      | Some cpat =>
        if negb (gmatch cpat (c_name c)) then RNoMatch else
        match utf8_enc (c_name c) with
        | None => RRaise EUnicodeEncode
        | Some nb =>
          match utf8_enc (c_wg c) with
          | None => RRaise EUnicodeEncode
          | Some wb =>
            if ((64 <? length nb) || (64 <? length wb))%nat then RRaise EValue   (* "bytes too long" *)
            else RAnswer (Response nid nts id ts (c_pid c) (field64 nb) (field64 wb) (c_port c))
          end
        end
      end
    end
  | _ => RNoMatch
  end.

(* what one call of _handle_read does with one datagram *)
Inductive hout :=
| HNothing                 (* returns; nothing sent *)
| HRaise (e : exn)         (* an exception leaves the callback; nothing sent *)
| HSend (bs : list N)      (* sendto(bs, incoming_address) *)
| HExit.                   (* os._exit(1) *)

Definition handle (c : ctx) (nid : N) (nts : list N) (bs : list N) : hout :=
  match unpack bs with
  | UErr NotATag => HRaise EValue
  | UErr _ => HNothing                         (* "Discarded bad UDP packet." *)
  | UOk (Kill _ _) => HExit
  | UOk (Response _ _ _ _ _ _ _ _) => HNothing (* "Received UDP packet of type ..., discarded." *)
  | UOk (Request id ts wf cf) =>
    match respond c nid nts (Request id ts wf cf) with
    | RNoMatch => HNothing
    | RRaise e => HRaise e
    | RAnswer q => HSend (pack q)
    end
  end.

(* a session: datagrams in arrival order, each with the (id, timestamp) the responder would draw *)
Definition run (c : ctx) (ds : list (N * list N * list N)) : list hout :=
  map (fun d => let '(nid, nts, bs) := d in handle c nid nts bs) ds.

(* ------------------------------------------------------------------ asking side ------------- *)
(* QMI_UdpResponderContextInfoRequestPacket.create(id, ts, wf.encode(), cf.encode()) *)
Definition mk_request (id : N) (ts : list N) (wf cf : list N) : option packet :=
  if ((64 <? length wf) || (64 <? length cf))%nat then None   (* ValueError *)
  else Some (Request id ts (field64 wf) (field64 cf)).

(* ping_qmi_contexts: of the datagrams received, keep the responses to our request *)
Fixpoint ping_filter (req_id : N) (ds : list (list N)) : list packet :=
  match ds with
  | [] => []
  | d :: r =>
    match unpack d with
    | UOk (Response id ts rid rts pid name wg port) =>
        if rid =? req_id then Response id ts rid rts pid name wg port :: ping_filter req_id r
        else ping_filter req_id r
    | _ => ping_filter req_id r
    end
  end.

Fixpoint cp_eqb (a b : list N) : bool :=
  match a, b with
  | [], [] => true
  | x :: a', y :: b' => (x =? y) && cp_eqb a' b'
  | _, _ => false
  end.

(* discover_peer_contexts: (name, port) of every response not from the asking context itself;
   None = UnicodeDecodeError from name.decode() *)
Fixpoint discover (my_name : list N) (rs : list packet) : option (list (list N * Z)) :=
  match rs with
  | [] => Some []
  | Response _ _ _ _ _ name _ port :: r =>
    match utf8_dec (cstr name), discover my_name r with
    | Some n, Some l => Some (if cp_eqb n my_name then l else (n, port) :: l)
    | _, _ => None
    end
  | _ :: r => discover my_name r
  end.

Definition collect (my_name : list N) (req_id : N) (ds : list (list N)) : option (list (list N * Z)) :=
  discover my_name (ping_filter req_id ds).
