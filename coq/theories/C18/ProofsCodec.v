(* C18 — lemmas about the packet codecs. *)
Require Import QV.C18.Model.
From Coq Require Import Lia ZifyBool ZifyNat ZifyN.
Ltac Zify.zify_post_hook ::= Z.to_euclidean_division_equations.
Open Scope N_scope.

Definition bytes (bs : list N) : Prop := Forall (fun b => b < 256) bs.

(* ---------------------------------------------------------------- little endian ------------ *)
Lemma le_enc_length n v : length (le_enc n v) = n.
Proof. revert v; induction n as [|n IH]; intro v; simpl; [reflexivity | now rewrite IH]. Qed.

Lemma le_enc_bytes n v : bytes (le_enc n v).
Proof.
  revert v; induction n as [|n IH]; intro v; simpl; constructor.
  - apply N.mod_lt. discriminate.
  - apply IH.
Qed.

Lemma le_dec_enc n v : v < 256 ^ N.of_nat n -> le_dec (le_enc n v) = v.
Proof.
  revert v; induction n as [|n IH]; intros v Hv.
  - simpl in *. lia.
  - cbn [le_enc le_dec]. rewrite IH.
    + pose proof (N.div_mod v 256). lia.
    + rewrite Nat2N.inj_succ, N.pow_succ_r' in Hv.
      apply N.div_lt_upper_bound; [discriminate | lia].
Qed.

Lemma le_dec_bound bs : bytes bs -> le_dec bs < 256 ^ N.of_nat (length bs).
Proof.
  induction 1 as [|b r Hb Hr IH]; cbv beta in *; cbn [le_dec length].
  - simpl. lia.
  - rewrite Nat2N.inj_succ, N.pow_succ_r'. lia.
Qed.

Lemma le_enc_dec bs : bytes bs -> le_enc (length bs) (le_dec bs) = bs.
Proof.
  induction 1 as [|b r Hb Hr IH]; cbv beta in *; cbn [le_dec length le_enc]; [reflexivity|].
  f_equal.
  - lia.
  - transitivity (le_enc (length r) (le_dec r)); [f_equal; lia | exact IH].
Qed.

Lemma i32_dec_enc z : (-2147483648 <= z < 2147483648)%Z -> i32_dec (i32_enc z) = z.
Proof.
  intro Hz. unfold i32_dec, i32_enc. rewrite le_dec_enc.
  - rewrite Z2N.id by lia. destruct (Z.ltb_spec (z mod 4294967296) 2147483648); lia.
  - change (256 ^ N.of_nat 4) with 4294967296. lia.
Qed.

Lemma i32_dec_range bs : length bs = 4%nat -> bytes bs -> (-2147483648 <= i32_dec bs < 2147483648)%Z.
Proof.
  intros Hl Hb. pose proof (le_dec_bound bs Hb) as B. rewrite Hl in B.
  change (256 ^ N.of_nat 4) with 4294967296 in B. unfold i32_dec.
  destruct (Z.ltb_spec (Z.of_N (le_dec bs)) 2147483648); lia.
Qed.

Lemma i32_enc_dec bs : length bs = 4%nat -> bytes bs -> i32_enc (i32_dec bs) = bs.
Proof.
  intros Hl Hb. pose proof (le_dec_bound bs Hb) as B. rewrite Hl in B.
  change (256 ^ N.of_nat 4) with 4294967296 in B. unfold i32_dec, i32_enc.
  assert (E : Z.to_N ((if (Z.of_N (le_dec bs) <? 2147483648)%Z then Z.of_N (le_dec bs)
                       else (Z.of_N (le_dec bs) - 4294967296)%Z) mod 4294967296)%Z = le_dec bs).
  { destruct (Z.ltb_spec (Z.of_N (le_dec bs)) 2147483648); lia. }
  rewrite E, <- Hl. apply le_enc_dec, Hb.
Qed.

Lemma i32_enc_length z : length (i32_enc z) = 4%nat.
Proof. apply le_enc_length. Qed.
Lemma i32_enc_bytes z : bytes (i32_enc z).
Proof. apply le_enc_bytes. Qed.

(* ---------------------------------------------------------------- slices ------------------- *)
Lemma slice_skip a n x y : (length x <= a)%nat -> slice a n (x ++ y) = slice (a - length x) n y.
Proof.
  intro H. unfold slice. rewrite skipn_app, (skipn_all2 x) by lia. reflexivity.
Qed.

Lemma slice_take n x y : length x = n -> slice 0 n (x ++ y) = x.
Proof.
  intro H. unfold slice. cbn [skipn]. rewrite firstn_app, H, Nat.sub_diag, firstn_O, app_nil_r.
  rewrite <- H. apply firstn_all.
Qed.

Lemma slice_all n x : length x = n -> slice 0 n x = x.
Proof. intro H. unfold slice. cbn [skipn]. rewrite <- H. apply firstn_all. Qed.

Lemma skipn_skipn' {A} a b (l : list A) : skipn a (skipn b l) = skipn (b + a) l.
Proof.
  revert l; induction b as [|b IH]; intro l; [reflexivity|].
  destruct l as [|x l]; cbn [skipn Nat.add]; [now destruct a | apply IH].
Qed.

Lemma slice_split a n (bs : list N) : skipn a bs = slice a n bs ++ skipn (a + n) bs.
Proof. unfold slice. rewrite <- skipn_skipn'. symmetry. apply firstn_skipn. Qed.

Lemma slice_length a n (bs : list N) : (a + n <= length bs)%nat -> length (slice a n bs) = n.
Proof. intro H. unfold slice. rewrite firstn_length, skipn_length. lia. Qed.

Lemma Forall_firstn' {A} (P : A -> Prop) n l : Forall P l -> Forall P (firstn n l).
Proof.
  revert l; induction n as [|n IH]; intros l H; [constructor|].
  destruct H; cbn [firstn]; constructor; auto.
Qed.
Lemma Forall_skipn' {A} (P : A -> Prop) n l : Forall P l -> Forall P (skipn n l).
Proof.
  revert l; induction n as [|n IH]; intros l H; [exact H|].
  destruct H; cbn [skipn]; [constructor | auto].
Qed.
Lemma slice_bytes a n bs : bytes bs -> bytes (slice a n bs).
Proof. intro H. apply Forall_firstn', Forall_skipn', H. Qed.

(* ---------------------------------------------------------------- char[64] fields ---------- *)
Definition nonul (bs : list N) : Prop := Forall (fun b => b <> 0) bs.

Lemma cstr_zeros k : cstr (repeat 0 k) = [].
Proof. destruct k; reflexivity. Qed.

Lemma cstr_app_zeros n k : nonul n -> cstr (n ++ repeat 0 k) = n.
Proof.
  induction 1 as [|b r Hb Hr IH]; cbn [app cstr]; [apply cstr_zeros|].
  destruct (N.eqb_spec b 0); [contradiction | now rewrite IH].
Qed.

Lemma cstr_nonul bs : nonul (cstr bs).
Proof.
  induction bs as [|b r IH]; cbn [cstr]; [constructor|].
  destruct (N.eqb_spec b 0); constructor; assumption.
Qed.

Lemma cstr_id n : nonul n -> cstr n = n.
Proof. intro H. rewrite <- (app_nil_r n) at 1. apply (cstr_app_zeros n 0 H). Qed.

Lemma cstr_length bs : (length (cstr bs) <= length bs)%nat.
Proof. induction bs as [|b r IH]; cbn [cstr]; [lia|]. destruct (b =? 0); simpl; lia. Qed.

Lemma cstr_bytes bs : bytes bs -> bytes (cstr bs).
Proof.
  induction 1 as [|b r Hb Hr IH]; cbn [cstr]; [constructor|].
  destruct (b =? 0); constructor; assumption.
Qed.

Lemma padz_length n bs : (length bs <= n)%nat -> length (padz n bs) = n.
Proof. intro H. unfold padz. rewrite app_length, repeat_length. lia. Qed.

Lemma field64_length bs : (length bs <= 64)%nat -> length (field64 bs) = 64%nat.
Proof. intro H. apply padz_length. pose proof (cstr_length bs). lia. Qed.

Lemma field64_bytes bs : bytes bs -> bytes (field64 bs).
Proof.
  intro H. unfold field64, padz. apply Forall_app; split; [apply cstr_bytes, H|].
  apply Forall_forall. intros x Hx. apply repeat_spec in Hx. subst. reflexivity.
Qed.

(* the visible value of a field written with n is n up to its first NUL — all of n if it has none *)
Lemma cstr_field64 bs : cstr (field64 bs) = cstr bs.
Proof. unfold field64, padz. apply cstr_app_zeros, cstr_nonul. Qed.

Lemma cstr_field64_id n : nonul n -> cstr (field64 n) = n.
Proof. intro H. rewrite cstr_field64. apply cstr_id, H. Qed.

(* ---------------------------------------------------------------- well-formed packets ------ *)
Definition i32 (z : Z) : Prop := (-2147483648 <= z < 2147483648)%Z.
Definition u64 (n : N) : Prop := n < 18446744073709551616.
Definition blk (n : nat) (bs : list N) : Prop := length bs = n /\ bytes bs.

Definition wf_packet (p : packet) : Prop :=
  match p with
  | Request id ts wf cf => u64 id /\ blk 8 ts /\ blk 64 wf /\ blk 64 cf
  | Kill id ts => u64 id /\ blk 8 ts
  | Response id ts rid rts pid name wg port =>
      u64 id /\ blk 8 ts /\ u64 rid /\ blk 8 rts /\ i32 pid /\ blk 64 name /\ blk 64 wg /\ i32 port
  end.

Definition packet_size (p : packet) : nat :=
  match p with Request _ _ _ _ => 150 | Kill _ _ => 22 | Response _ _ _ _ _ _ _ _ => 174 end%nat.
Definition packet_tag (p : packet) : N :=
  match p with Request _ _ _ _ => TAG_REQUEST | Kill _ _ => TAG_KILL | Response _ _ _ _ _ _ _ _ => TAG_RESPONSE end.

Lemma pack_length p : wf_packet p -> length (pack p) = packet_size p.
Proof.
  destruct p; cbn [wf_packet pack packet_size]; unfold pack_header, blk; intros H;
    repeat rewrite app_length; repeat rewrite le_enc_length; repeat rewrite i32_enc_length; lia.
Qed.

Lemma pack_bytes p : wf_packet p -> bytes (pack p).
Proof.
  destruct p; cbn [wf_packet pack]; unfold pack_header, blk, bytes; intros H;
    repeat (apply Forall_app; split); try apply le_enc_bytes; try apply i32_enc_bytes; tauto.
Qed.

Lemma u64_pow n : u64 n -> n < 256 ^ N.of_nat 8.
Proof. exact (fun H => H). Qed.

Ltac len :=
  repeat rewrite app_length; repeat rewrite le_enc_length; repeat rewrite i32_enc_length;
  repeat match goal with H : length _ = _ |- _ => rewrite H end.

Ltac sl :=
  repeat (first
    [ rewrite slice_take by (len; reflexivity)
    | rewrite slice_all by (len; reflexivity)
    | rewrite slice_skip by (len; cbn; lia); len; cbn [Nat.sub] ]).

Lemma slice_skip_exact a n x y : slice (length x + a) n (x ++ y) = slice a n y.
Proof. rewrite slice_skip by lia. f_equal. lia. Qed.

Lemma header_length tag id ts : length ts = 8%nat -> length (pack_header tag id ts) = 22%nat.
Proof. intro H. unfold pack_header. len. reflexivity. Qed.

Lemma header_slices tag id ts rest :
  length ts = 8%nat ->
  slice 0 4 (pack_header tag id ts ++ rest) = le_enc 4 MAGIC /\
  slice 4 2 (pack_header tag id ts ++ rest) = le_enc 2 tag /\
  slice 6 8 (pack_header tag id ts ++ rest) = le_enc 8 id /\
  slice 14 8 (pack_header tag id ts ++ rest) = ts /\
  forall a n, slice (22 + a) n (pack_header tag id ts ++ rest) = slice a n rest.
Proof.
  intro L. split; [|split; [|split; [|split]]].
  1-4: unfold pack_header; repeat rewrite <- app_assoc; sl; reflexivity.
  intros a n. rewrite <- (header_length tag id ts L). apply slice_skip_exact.
Qed.

Lemma req_body_slices wf cf :
  length wf = 64%nat -> length cf = 64%nat ->
  slice 0 64 (wf ++ cf) = wf /\ slice 64 64 (wf ++ cf) = cf.
Proof. intros L1 L2. split; sl; reflexivity. Qed.

Lemma resp_body_slices rid rts pid name wg port :
  length rts = 8%nat -> length name = 64%nat -> length wg = 64%nat ->
  let b := le_enc 8 rid ++ rts ++ i32_enc pid ++ name ++ wg ++ i32_enc port in
  slice 0 8 b = le_enc 8 rid /\ slice 8 8 b = rts /\ slice 16 4 b = i32_enc pid /\
  slice 20 64 b = name /\ slice 84 64 b = wg /\ slice 148 4 b = i32_enc port.
Proof.
  intros L1 L2 L3 b. subst b.
  split; [|split; [|split; [|split; [|split]]]]; sl; reflexivity.
Qed.

Lemma pack_unpack p : wf_packet p -> unpack (pack p) = UOk p.
Proof.
  intro W. pose proof (pack_length p W) as L. unfold unpack. rewrite L.
  destruct p as [id ts wf cf | id ts | id ts rid rts pid name wg port];
    cbn [wf_packet packet_size] in *; unfold blk in W.
  - destruct W as (Hid & (Lts & Bts) & (Lwf & Bwf) & (Lcf & Bcf)).
    cbn [pack]. destruct (header_slices TAG_REQUEST id ts (wf ++ cf) Lts) as (E0 & E1 & E2 & E3 & E4).
    rewrite E0, E1, E2, E3. change (slice 86 64) with (slice (22 + 64) 64). change (slice 22 64) with (slice (22 + 0) 64).
    rewrite !E4. destruct (req_body_slices wf cf Lwf Lcf) as (F1 & F2). rewrite F1, F2.
    rewrite !le_dec_enc by (try apply u64_pow; try assumption; reflexivity).
    reflexivity.
  - destruct W as (Hid & (Lts & Bts)).
    cbn [pack]. rewrite <- (app_nil_r (pack_header TAG_KILL id ts)).
    destruct (header_slices TAG_KILL id ts [] Lts) as (E0 & E1 & E2 & E3 & E4).
    rewrite E0, E1, E2, E3.
    rewrite !le_dec_enc by (try apply u64_pow; try assumption; reflexivity).
    reflexivity.
  - destruct W as (Hid & (Lts & Bts) & Hrid & (Lrts & Brts) & Hpid & (Ln & Bn) & (Lw & Bw) & Hport).
    cbn [pack].
    destruct (header_slices TAG_RESPONSE id ts
                (le_enc 8 rid ++ rts ++ i32_enc pid ++ name ++ wg ++ i32_enc port) Lts) as (E0 & E1 & E2 & E3 & E4).
    rewrite E0, E1, E2, E3.
    change (slice 30 8) with (slice (22 + 8) 8). change (slice 38 4) with (slice (22 + 16) 4).
    change (slice 42 64) with (slice (22 + 20) 64). change (slice 106 64) with (slice (22 + 84) 64).
    change (slice 170 4) with (slice (22 + 148) 4). change (slice 22 8) with (slice (22 + 0) 8).
    rewrite !E4.
    destruct (resp_body_slices rid rts pid name wg port Lrts Ln Lw) as (F1 & F2 & F3 & F4 & F5 & F6).
    rewrite F1, F2, F3, F4, F5, F6.
    rewrite !le_dec_enc by (try apply u64_pow; try assumption; reflexivity).
    rewrite !i32_dec_enc by assumption.
    reflexivity.
Qed.

(* ---------------------------------------------------------------- strictness --------------- *)
Lemma skipn_len_nil {A} n (l : list A) : length l = n -> skipn n l = [].
Proof. intro H. apply skipn_all2. lia. Qed.

Lemma le_fix n s v : length s = n -> bytes s -> le_dec s = v -> s = le_enc n v.
Proof. intros L B E. subst v n. symmetry. apply le_enc_dec, B. Qed.

Lemma decomp_req (bs : list N) : length bs = 150%nat ->
  bs = slice 0 4 bs ++ slice 4 2 bs ++ slice 6 8 bs ++ slice 14 8 bs ++ slice 22 64 bs ++ slice 86 64 bs.
Proof.
  intro L. transitivity (skipn 0 bs); [reflexivity|].
  rewrite (slice_split 0 4 bs), (slice_split (0 + 4) 2 bs), (slice_split (0 + 4 + 2) 8 bs),
    (slice_split (0 + 4 + 2 + 8) 8 bs), (slice_split (0 + 4 + 2 + 8 + 8) 64 bs),
    (slice_split (0 + 4 + 2 + 8 + 8 + 64) 64 bs).
  rewrite (skipn_len_nil (0 + 4 + 2 + 8 + 8 + 64 + 64) bs L), app_nil_r. reflexivity.
Qed.

Lemma decomp_kill (bs : list N) : length bs = 22%nat ->
  bs = slice 0 4 bs ++ slice 4 2 bs ++ slice 6 8 bs ++ slice 14 8 bs.
Proof.
  intro L. transitivity (skipn 0 bs); [reflexivity|].
  rewrite (slice_split 0 4 bs), (slice_split (0 + 4) 2 bs), (slice_split (0 + 4 + 2) 8 bs),
    (slice_split (0 + 4 + 2 + 8) 8 bs).
  rewrite (skipn_len_nil (0 + 4 + 2 + 8 + 8) bs L), app_nil_r. reflexivity.
Qed.

Lemma decomp_resp (bs : list N) : length bs = 174%nat ->
  bs = slice 0 4 bs ++ slice 4 2 bs ++ slice 6 8 bs ++ slice 14 8 bs ++ slice 22 8 bs ++ slice 30 8 bs ++
       slice 38 4 bs ++ slice 42 64 bs ++ slice 106 64 bs ++ slice 170 4 bs.
Proof.
  intro L. transitivity (skipn 0 bs); [reflexivity|].
  rewrite (slice_split 0 4 bs), (slice_split (0 + 4) 2 bs), (slice_split (0 + 4 + 2) 8 bs),
    (slice_split (0 + 4 + 2 + 8) 8 bs), (slice_split (0 + 4 + 2 + 8 + 8) 8 bs),
    (slice_split (0 + 4 + 2 + 8 + 8 + 8) 8 bs), (slice_split (0 + 4 + 2 + 8 + 8 + 8 + 8) 4 bs),
    (slice_split (0 + 4 + 2 + 8 + 8 + 8 + 8 + 4) 64 bs), (slice_split (0 + 4 + 2 + 8 + 8 + 8 + 8 + 4 + 64) 64 bs),
    (slice_split (0 + 4 + 2 + 8 + 8 + 8 + 8 + 4 + 64 + 64) 4 bs).
  rewrite (skipn_len_nil (0 + 4 + 2 + 8 + 8 + 8 + 8 + 4 + 64 + 64 + 4) bs L), app_nil_r. reflexivity.
Qed.

Lemma unpack_ok_inv bs p :
  bytes bs -> unpack bs = UOk p -> pack p = bs /\ wf_packet p.
Proof.
  intros B. unfold unpack.
  destruct (Nat.ltb_spec (length bs) 22) as [|L22]; [discriminate|].
  destruct (N.eqb_spec (le_dec (slice 0 4 bs)) MAGIC) as [Em|]; [|discriminate]. cbn [negb].
  assert (Bs : forall a n, bytes (slice a n bs)) by (intros; apply slice_bytes, B).
  assert (H0 : slice 0 4 bs = le_enc 4 MAGIC).
  { apply le_fix; auto. apply slice_length. lia. }
  assert (Hid : u64 (le_dec (slice 6 8 bs))).
  { pose proof (le_dec_bound _ (Bs 6 8)%nat) as X. rewrite slice_length in X by lia. exact X. }
  assert (Eid : le_enc 8 (le_dec (slice 6 8 bs)) = slice 6 8 bs).
  { symmetry. apply le_fix; auto. apply slice_length. lia. }
  destruct (N.eqb_spec (le_dec (slice 4 2 bs)) TAG_REQUEST) as [Et|_].
  { destruct (Nat.eqb_spec (length bs) 150) as [L|]; [|discriminate].
    intro E; injection E as <-. cbn [pack wf_packet]. unfold pack_header, blk. split.
    - rewrite <- H0, Eid, <- (le_fix 2 (slice 4 2 bs) TAG_REQUEST) by (auto; apply slice_length; lia).
      repeat rewrite <- app_assoc. symmetry. apply decomp_req, L.
    - repeat split; auto; apply slice_length; lia. }
  destruct (N.eqb_spec (le_dec (slice 4 2 bs)) TAG_KILL) as [Et|_].
  { destruct (Nat.eqb_spec (length bs) 22) as [L|]; [|discriminate].
    intro E; injection E as <-. cbn [pack wf_packet]. unfold pack_header, blk. split.
    - rewrite <- H0, Eid, <- (le_fix 2 (slice 4 2 bs) TAG_KILL) by (auto; apply slice_length; lia).
      symmetry. apply decomp_kill, L.
    - repeat split; auto; apply slice_length; lia. }
  destruct (N.eqb_spec (le_dec (slice 4 2 bs)) TAG_RESPONSE) as [Et|_].
  { destruct (Nat.eqb_spec (length bs) 174) as [L|]; [|discriminate].
    intro E; injection E as <-. cbn [pack wf_packet]. unfold pack_header, blk.
    assert (L1 : length (slice 38 4 bs) = 4%nat) by (apply slice_length; lia).
    assert (L2 : length (slice 170 4 bs) = 4%nat) by (apply slice_length; lia).
    split.
    - rewrite <- H0, Eid, <- (le_fix 2 (slice 4 2 bs) TAG_RESPONSE) by (auto; apply slice_length; lia).
      rewrite !i32_enc_dec by auto.
      rewrite <- (le_fix 8 (slice 22 8 bs) (le_dec (slice 22 8 bs))) by (auto; apply slice_length; lia).
      repeat rewrite <- app_assoc. symmetry. apply decomp_resp, L.
    - pose proof (le_dec_bound _ (Bs 22 8)%nat) as X. rewrite slice_length in X by lia.
      repeat split; auto; try (apply slice_length; lia); try (apply i32_dec_range; auto). }
  destruct (_ || _); discriminate.
Qed.

(* consequences: what a datagram that unpacks must look like *)
Lemma unpack_ok_shape bs p :
  bytes bs -> unpack bs = UOk p ->
  length bs = packet_size p /\ slice 0 4 bs = le_enc 4 MAGIC /\ slice 4 2 bs = le_enc 2 (packet_tag p).
Proof.
  intros B E. destruct (unpack_ok_inv bs p B E) as [<- W]. split; [apply pack_length, W|].
  destruct p as [id ts wf cf | id ts | id ts rid rts pid name wg port]; cbn [pack packet_tag wf_packet] in *;
    unfold blk in W.
  - destruct (header_slices TAG_REQUEST id ts (wf ++ cf)) as (E0 & E1 & _); tauto.
  - rewrite <- (app_nil_r (pack_header TAG_KILL id ts)).
    destruct (header_slices TAG_KILL id ts []) as (E0 & E1 & _); tauto.
  - destruct (header_slices TAG_RESPONSE id ts (le_enc 8 rid ++ rts ++ i32_enc pid ++ name ++ wg ++ i32_enc port))
      as (E0 & E1 & _); tauto.
Qed.

Lemma unpack_too_short bs : (length bs < 22)%nat -> unpack bs = UErr TooShort.
Proof. intro H. unfold unpack. destruct (Nat.ltb_spec (length bs) 22); [reflexivity | lia]. Qed.

Lemma unpack_bad_magic bs : (22 <= length bs)%nat -> le_dec (slice 0 4 bs) <> MAGIC -> unpack bs = UErr BadMagic.
Proof.
  intros H M. unfold unpack. destruct (Nat.ltb_spec (length bs) 22); [lia|].
  destruct (N.eqb_spec (le_dec (slice 0 4 bs)) MAGIC); [contradiction | reflexivity].
Qed.

Lemma unpack_bad_size bs :
  length bs <> 22%nat -> length bs <> 150%nat -> length bs <> 174%nat -> exists e, unpack bs = UErr e.
Proof.
  intros H1 H2 H3. unfold unpack.
  destruct (_ <? _)%nat; [eauto|]. destruct (negb _); [eauto|].
  destruct (_ =? TAG_REQUEST). { destruct (Nat.eqb_spec (length bs) 150); [contradiction | eauto]. }
  destruct (_ =? TAG_KILL). { destruct (Nat.eqb_spec (length bs) 22); [contradiction | eauto]. }
  destruct (_ =? TAG_RESPONSE). { destruct (Nat.eqb_spec (length bs) 174); [contradiction | eauto]. }
  destruct (_ || _); eauto.
Qed.

Lemma unpack_unknown_tag bs :
  let tag := le_dec (slice 4 2 bs) in
  tag <> TAG_REQUEST -> tag <> TAG_KILL -> tag <> TAG_RESPONSE -> exists e, unpack bs = UErr e.
Proof.
  intros tag H1 H2 H3. unfold unpack. fold tag.
  destruct (_ <? _)%nat; [eauto|]. destruct (negb _); [eauto|].
  destruct (N.eqb_spec tag TAG_REQUEST); [contradiction|].
  destruct (N.eqb_spec tag TAG_KILL); [contradiction|].
  destruct (N.eqb_spec tag TAG_RESPONSE); [contradiction|].
  destruct (_ || _); eauto.
Qed.

Lemma name_field n :
  (length n <= 64)%nat -> bytes n -> nonul n ->
  length (field64 n) = 64%nat /\ bytes (field64 n) /\ cstr (field64 n) = n.
Proof.
  intros L B Z. split; [exact (field64_length n L)|]. split; [exact (field64_bytes n B)|].
  exact (cstr_field64_id n Z).
Qed.

Lemma unpack_rejects bs :
  ((length bs < 22)%nat -> unpack bs = UErr TooShort) /\
  ((22 <= length bs)%nat -> le_dec (slice 0 4 bs) <> MAGIC -> unpack bs = UErr BadMagic) /\
  (length bs <> 22%nat -> length bs <> 150%nat -> length bs <> 174%nat -> exists e, unpack bs = UErr e) /\
  (le_dec (slice 4 2 bs) <> TAG_REQUEST -> le_dec (slice 4 2 bs) <> TAG_KILL ->
   le_dec (slice 4 2 bs) <> TAG_RESPONSE -> exists e, unpack bs = UErr e).
Proof.
  split; [exact (unpack_too_short bs)|]. split; [exact (unpack_bad_magic bs)|].
  split; [exact (unpack_bad_size bs) | exact (unpack_unknown_tag bs)].
Qed.
