(* C18 correspondence: compare the model with what was observed on the real code.
   Compared: which datagrams are accepted / answered, the decoded fields of accepted packets, the
   bytes of every answer, the set of peers a discovery call reports.  NOT compared (the property
   leaves them open): the exception class by which a datagram or a call is rejected, whether a
   rejected datagram makes the handler return or raise into the event loop (the harness checks
   separately that the responder and the loop survive), the order of the peers reported. *)
Require Export QV.Lib.Corr QV.C18.Model.
Open Scope N_scope.

Definition bytes_eqb := list_eqb N.eqb.

Definition exn_eqb (a b : exn) : bool :=
  match a, b with
  | EValue, EValue | EUnicodeDecode, EUnicodeDecode | EUnicodeEncode, EUnicodeEncode => true
  | _, _ => false
  end.

(* nothing sent: the handler returned, or an exception left it (any class) *)
Definition quiet (h : hout) : bool := match h with HNothing | HRaise _ => true | _ => false end.

Definition hout_eqb (a b : hout) : bool :=
  match a, b with
  | HSend x, HSend y => bytes_eqb x y
  | HExit, HExit => true
  | _, _ => quiet a && quiet b
  end.

(* what the harness reads off the structure returned by unpack_qmi_udp_packet:
   kind (0 request, 1 kill, 2 response), pkt_id, pkt_timestamp (as 8 bytes), the visible fields,
   and bytes(structure) *)
Inductive uobs :=
| UO_req (id : N) (ts wf cf raw : list N)
| UO_kill (id : N) (ts raw : list N)
| UO_resp (id : N) (ts : list N) (rid : N) (rts : list N) (pid : Z) (name wg : list N) (port : Z) (raw : list N)
| UO_rejected.      (* any exception: the datagram is not accepted *)

Definition uview (r : ures) : uobs :=
  match r with
  | UOk (Request id ts wf cf) => UO_req id ts (cstr wf) (cstr cf) (pack (Request id ts wf cf))
  | UOk (Kill id ts) => UO_kill id ts (pack (Kill id ts))
  | UOk (Response id ts rid rts pid name wg port) =>
      UO_resp id ts rid rts pid (cstr name) (cstr wg) port (pack (Response id ts rid rts pid name wg port))
  | UErr _ => UO_rejected
  end.

Definition uobs_eqb (a b : uobs) : bool :=
  match a, b with
  | UO_req i t w c r, UO_req i' t' w' c' r' =>
      (i =? i') && bytes_eqb t t' && bytes_eqb w w' && bytes_eqb c c' && bytes_eqb r r'
  | UO_kill i t r, UO_kill i' t' r' => (i =? i') && bytes_eqb t t' && bytes_eqb r r'
  | UO_resp i t ri rt p n w po r, UO_resp i' t' ri' rt' p' n' w' po' r' =>
      (i =? i') && bytes_eqb t t' && (ri =? ri') && bytes_eqb rt rt' && Z.eqb p p' && bytes_eqb n n'
      && bytes_eqb w w' && Z.eqb po po' && bytes_eqb r r'
  | UO_rejected, UO_rejected => true
  | _, _ => false
  end.

(* ping_qmi_contexts' outgoing request: filters are str (code points) *)
Inductive pres := PSent (bs : list N) | PRaise (e : exn).
Definition ping_request (id : N) (ts wf cf : list N) : pres :=
  match utf8_enc wf, utf8_enc cf with
  | Some a, Some b => match mk_request id ts a b with Some p => PSent (pack p) | None => PRaise EValue end
  | _, _ => PRaise EUnicodeEncode
  end.
Definition pres_eqb (a b : pres) : bool :=
  match a, b with
  | PSent x, PSent y => bytes_eqb x y
  | PRaise _, PRaise _ => true          (* the call fails before sending; class not compared *)
  | _, _ => false
  end.

(* the peers reported, as a set *)
Definition peer_eqb := pair_eqb bytes_eqb Z.eqb.
Definition subset (a b : list (list N * Z)) : bool := forallb (fun x => existsb (peer_eqb x) b) a.
Definition found_eqb (a b : list (list N * Z)) : bool := subset a b && subset b a.

Inductive case :=
| CUnpack (bs : list N) (o : uobs)
| CSession (c : ctx) (ds : list (N * list N * list N)) (o : list hout)
| CGlob (pat s : list N) (o : bool)
| CPing (id : N) (ts wf cf : list N) (o : pres)
| CCollect (my : list N) (id : N) (ds : list (list N)) (o : option (list (list N * Z)))
| CDec (bs : list N) (o : option (list N))
| CEnc (cs : list N) (o : option (list N)).

Definition check_case (c : case) : bool :=
  match c with
  | CUnpack bs o => uobs_eqb (uview (unpack bs)) o
  | CSession c ds o => list_eqb hout_eqb (run c ds) o
  | CGlob pat s o => Bool.eqb (gmatch pat s) o
  | CPing id ts wf cf o => pres_eqb (ping_request id ts wf cf) o
  | CCollect my id ds o => option_eqb found_eqb (collect my id ds) o
  | CDec bs o => option_eqb bytes_eqb (utf8_dec bs) o
  | CEnc cs o => option_eqb bytes_eqb (utf8_enc cs) o
  end.

(* model side of a replay *)
Definition model_session (c : ctx) (ds : list (N * list N * list N)) : list hout := run c ds.
