(* C18 — lemmas about the wildcard matcher: the table matcher [gmatch] decides the relation [Glob]. *)
Require Import QV.C18.Model.
From Coq Require Import Lia ZifyBool ZifyNat ZifyN.
Open Scope N_scope.

(* ------------------------------------------------ reference backtracking matcher (proof device) *)
Fixpoint star (f : list N -> bool) (s : list N) : bool :=
  f s || match s with [] => false | _ :: r => star f r end.

Definition one (g : N -> bool) (f : list N -> bool) (s : list N) : bool :=
  match s with [] => false | c :: r => g c && f r end.

Definition isnil (s : list N) : bool := match s with [] => true | _ => false end.

Fixpoint imatch (its : list item) (s : list N) : bool :=
  match its with
  | [] => isnil s
  | IStar :: r => star (imatch r) s
  | it :: r => one (item_ok it) (imatch r) s
  end.

Fixpoint tails (s : list N) : list (list N) :=
  s :: match s with [] => [] | _ :: r => tails r end.

Lemma tab_end_spec s : tab_end s = map isnil (tails s).
Proof. induction s as [|c r IH]; [reflexivity|]. cbn [tab_end tails map isnil]. now rewrite IH. Qed.

Lemma tails_hd s : exists t, tails s = s :: t.
Proof. destruct s; eexists; reflexivity. Qed.

Lemma tab_star_spec f s : tab_star (map f (tails s)) = map (star f) (tails s).
Proof.
  induction s as [|c r IH].
  - cbn. now rewrite orb_false_r.
  - change (tails (c :: r)) with ((c :: r) :: tails r). cbn [map tab_star]. rewrite IH.
    destruct (tails_hd r) as [t Ht]. rewrite Ht. cbn [map hd star]. reflexivity.
Qed.

Lemma tab_one_spec g f s : tab_one g s (map f (tails s)) = map (one g f) (tails s).
Proof.
  induction s as [|c r IH]; [reflexivity|].
  change (tails (c :: r)) with ((c :: r) :: tails r). cbn [map tab_one tl]. rewrite IH.
  destruct (tails_hd r) as [t Ht]. rewrite Ht. cbn [map hd one]. reflexivity.
Qed.

Lemma mtab_spec its s : mtab its s = map (imatch its) (tails s).
Proof.
  induction its as [|it r IH]; [apply tab_end_spec|].
  destruct it; cbn [mtab imatch]; rewrite IH; [apply tab_star_spec | apply tab_one_spec ..].
Qed.

Lemma gmatch_imatch pat s : gmatch pat s = imatch (parse pat) s.
Proof. unfold gmatch. rewrite mtab_spec. destruct (tails_hd s) as [t Ht]. rewrite Ht. reflexivity. Qed.

Lemma star_spec f s : star f s = true <-> exists s1 s2, s = s1 ++ s2 /\ f s2 = true.
Proof.
  induction s as [|c r IH]; cbn [star].
  - rewrite orb_false_r. split.
    + intro H. exists [], []. auto.
    + intros (s1 & s2 & E & H). symmetry in E. apply app_eq_nil in E as [_ ->]. exact H.
  - rewrite orb_true_iff, IH. split.
    + intros [H | (s1 & s2 & -> & H)].
      * exists [], (c :: r). auto.
      * exists (c :: s1), s2. auto.
    + intros (s1 & s2 & E & H). destruct s1 as [|x s1]; cbn in E.
      * left. now subst.
      * right. injection E as -> ->. eauto.
Qed.

(* ------------------------------------------------ parsing ---------------------------------- *)
Lemma parse_aux_skip a b k : parse_aux (length a + k) (a ++ b) = parse_aux k b.
Proof. induction a as [|x a IH]; [reflexivity|]. cbn [length app Nat.add parse_aux]. exact IH. Qed.

Lemma break_rb_spec p a b : break_rb p = Some (a, b) -> p = a ++ 93 :: b.
Proof.
  revert a b; induction p as [|c r IH]; intros a b; cbn [break_rb]; [discriminate|].
  destruct (N.eqb_spec c 93) as [->|_].
  - intro E; injection E as <- <-. reflexivity.
  - destruct (break_rb r) as [[a' b']|]; [|discriminate].
    intro E; injection E as <- <-. cbn [app]. now rewrite (IH a' b' eq_refl).
Qed.

Lemma strip_spec x p a q : strip x p = (a, q) -> p = a ++ q.
Proof.
  unfold strip. destruct p as [|c r].
  - intro E; injection E as <- <-. reflexivity.
  - destruct (N.eqb_spec c x) as [->|_]; intro E; injection E as <- <-; reflexivity.
Qed.

Lemma split_set_spec p st rest : split_set p = Some (st, rest) -> p = st ++ 93 :: rest.
Proof.
  unfold split_set. destruct (strip 33 p) as [a1 p1] eqn:E1. destruct (strip 93 p1) as [a2 p2] eqn:E2.
  destruct (break_rb p2) as [[m r]|] eqn:E3; [|discriminate].
  intro E; injection E as <- <-.
  apply strip_spec in E1. apply strip_spec in E2. apply break_rb_spec in E3. subst.
  now rewrite <- !app_assoc.
Qed.

Lemma parse_star r : parse (42 :: r) = IStar :: parse r.
Proof. reflexivity. Qed.
Lemma parse_any r : parse (63 :: r) = IAny :: parse r.
Proof. reflexivity. Qed.
Lemma parse_lit c r : c <> 42 -> c <> 63 -> c <> 91 -> parse (c :: r) = ILit c :: parse r.
Proof.
  intros H1 H2 H3. unfold parse. cbn [parse_aux].
  destruct (N.eqb_spec c 42); [contradiction|]. destruct (N.eqb_spec c 63); [contradiction|].
  destruct (N.eqb_spec c 91); [contradiction|]. reflexivity.
Qed.
Lemma parse_set r st rest : split_set r = Some (st, rest) -> parse (91 :: r) = ISet st :: parse rest.
Proof.
  intro E. unfold parse. cbn [parse_aux]. change (91 =? 42) with false. change (91 =? 63) with false.
  change (91 =? 91) with true. cbv iota. rewrite E. f_equal.
  rewrite (split_set_spec _ _ _ E).
  replace (st ++ 93 :: rest) with ((st ++ [93]) ++ rest) by now rewrite <- app_assoc.
  replace (S (length st)) with (length (st ++ [93%N]) + 0)%nat by (rewrite app_length; cbn; lia).
  apply parse_aux_skip.
Qed.
Lemma parse_lbr r : split_set r = None -> parse (91 :: r) = ILit 91 :: parse r.
Proof.
  intro E. unfold parse. cbn [parse_aux]. change (91 =? 42) with false. change (91 =? 63) with false.
  change (91 =? 91) with true. cbv iota. now rewrite E.
Qed.

(* ------------------------------------------------ Glob <-> imatch -------------------------- *)
Lemma Glob_nil_inv s : Glob [] s -> s = [].
Proof. inversion 1. reflexivity. Qed.

Lemma Glob_cons_inv c p s :
  Glob (c :: p) s ->
  (c = 42 /\ exists s1 s2, s = s1 ++ s2 /\ Glob p s2) \/
  (c = 63 /\ exists x s', s = x :: s' /\ Glob p s') \/
  (c = 91 /\ exists st rest x s', split_set p = Some (st, rest) /\ set_mem st x = true /\ s = x :: s' /\ Glob rest s') \/
  (c = 91 /\ split_set p = None /\ exists s', s = 91 :: s' /\ Glob p s') \/
  (c <> 42 /\ c <> 63 /\ c <> 91 /\ exists s', s = c :: s' /\ Glob p s').
Proof.
  inversion 1; subst.
  - left. eauto.
  - right; left. eauto.
  - right; right; left. split; [reflexivity|]. eauto 10.
  - right; right; right; left. eauto.
  - right; right; right; right. eauto 10.
Qed.

Lemma one_spec g f s : one g f s = true <-> exists c r, s = c :: r /\ g c = true /\ f r = true.
Proof.
  destruct s as [|c r]; cbn [one].
  - split; [discriminate | intros (? & ? & E & _); discriminate].
  - rewrite andb_true_iff. split.
    + intros [? ?]. eauto.
    + intros (? & ? & E & ? & ?). injection E as -> ->. auto.
Qed.

Lemma length_split_rest p st rest : split_set p = Some (st, rest) -> (length rest < length p)%nat.
Proof. intro E. rewrite (split_set_spec _ _ _ E), app_length. cbn. lia. Qed.

Lemma glob_imatch_n n : forall pat, (length pat <= n)%nat -> forall s, Glob pat s <-> imatch (parse pat) s = true.
Proof.
  induction n as [|n IH]; intros pat Hn s.
  - destruct pat; [|cbn in Hn; lia]. cbn. split.
    + intro H. apply Glob_nil_inv in H. now subst.
    + destruct s; [constructor | discriminate].
  - destruct pat as [|c p].
    { cbn. split; [intro H; apply Glob_nil_inv in H; now subst | destruct s; [constructor | discriminate]]. }
    cbn [length] in Hn. assert (Hp : (length p <= n)%nat) by lia.
    destruct (N.eq_dec c 42) as [->|N42].
    { rewrite parse_star. cbn [imatch]. rewrite star_spec. split.
      - intro H. apply Glob_cons_inv in H as [(_ & s1 & s2 & -> & H) | [(E & _) | [(E & _) | [(E & _) | (E & _)]]]];
          try discriminate; try congruence.
        exists s1, s2. split; [reflexivity|]. now apply IH.
      - intros (s1 & s2 & -> & H). constructor. now apply IH. }
    destruct (N.eq_dec c 63) as [->|N63].
    { rewrite parse_any. cbn [imatch]. rewrite one_spec. split.
      - intro H. apply Glob_cons_inv in H as [(E & _) | [(_ & x & s' & -> & H) | [(E & _) | [(E & _) | (_ & E & _)]]]];
          try discriminate; try congruence.
        exists x, s'. repeat split. now apply IH.
      - intros (x & r & -> & _ & H). constructor. now apply IH. }
    destruct (N.eq_dec c 91) as [->|N91].
    { destruct (split_set p) as [[st rest]|] eqn:Es.
      - rewrite (parse_set _ _ _ Es). cbn [imatch]. rewrite one_spec.
        pose proof (length_split_rest _ _ _ Es) as Hl. split.
        + intro H. apply Glob_cons_inv in H
            as [(E & _) | [(E & _) | [(_ & st' & rest' & x & s' & Es' & Hm & -> & H) | [(_ & Es' & _) | (_ & _ & E & _)]]]];
            try discriminate; try congruence.
          rewrite Es in Es'. injection Es' as <- <-.
          exists x, s'. repeat split; [exact Hm|]. apply IH; [lia | exact H].
        + intros (x & r & -> & Hm & H). cbn [item_ok] in Hm. eapply G_set; eauto. apply IH; [lia | exact H].
      - rewrite (parse_lbr _ Es). cbn [imatch]. rewrite one_spec. split.
        + intro H. apply Glob_cons_inv in H
            as [(E & _) | [(E & _) | [(_ & st' & rest' & x & s' & Es' & _) | [(_ & _ & s' & -> & H) | (_ & _ & E & _)]]]];
            try discriminate; try congruence.
          exists 91, s'. repeat split. now apply IH.
        + intros (x & r & -> & Hm & H). cbn [item_ok] in Hm. apply N.eqb_eq in Hm. subst x.
          apply G_lbr; [exact Es|]. now apply IH. }
    rewrite (parse_lit c p N42 N63 N91). cbn [imatch]. rewrite one_spec. split.
    + intro H. apply Glob_cons_inv in H as [(E & _) | [(E & _) | [(E & _) | [(E & _) | (_ & _ & _ & s' & -> & H)]]]];
        try contradiction.
      exists c, s'. repeat split; [cbn; apply N.eqb_refl|]. now apply IH.
    + intros (x & r & -> & Hm & H). cbn [item_ok] in Hm. apply N.eqb_eq in Hm. subst x.
      apply G_lit; auto. now apply IH.
Qed.

Lemma gmatch_Glob pat s : gmatch pat s = true <-> Glob pat s.
Proof. rewrite gmatch_imatch. symmetry. apply (glob_imatch_n (length pat)). lia. Qed.

(* ------------------------------------------------ what a plain bracket expression means ---- *)
Lemma chunkify_nohyphen s : forall hold cur, Forall (fun c => c <> 45) s -> chunkify hold cur s = [cur ++ s].
Proof.
  induction s as [|c r IH]; intros hold cur H; cbn [chunkify].
  - now rewrite app_nil_r.
  - inversion H as [|? ? Hc Hr]; subst. destruct hold.
    + destruct (N.eqb_spec c 45); [contradiction|]. rewrite IH by assumption. now rewrite <- app_assoc.
    + rewrite IH by assumption. now rewrite <- app_assoc.
Qed.

Lemma mem_single x c : mem_chunks x [c] = existsb (N.eqb x) c.
Proof. cbn [mem_chunks]. destruct (last_opt c); now rewrite !orb_false_r. Qed.

Lemma set_chunks_nohyphen st : Forall (fun c => c <> 45) st -> set_chunks st = [st].
Proof. intro H. unfold set_chunks. rewrite chunkify_nohyphen by assumption. reflexivity. Qed.

(* [abc] : member of the listed characters *)
Lemma set_mem_plain c st x :
  c <> 33 -> Forall (fun c => c <> 45) (c :: st) -> set_mem (c :: st) x = existsb (N.eqb x) (c :: st).
Proof.
  intros Hc H. unfold set_mem. rewrite set_chunks_nohyphen by assumption.
  destruct (N.eqb_spec c 33); [contradiction|]. apply mem_single.
Qed.

(* [!abc] : not one of the listed characters *)
Lemma set_mem_negated st x :
  Forall (fun c => c <> 45) st -> set_mem (33 :: st) x = negb (existsb (N.eqb x) st).
Proof.
  intro H. unfold set_mem. rewrite set_chunks_nohyphen by (constructor; [discriminate | assumption]).
  change (33 =? 33) with true. cbv iota. now rewrite mem_single.
Qed.

(* [lo-hi] : the inclusive range *)
Lemma set_mem_range lo hi x :
  lo <> 33 -> lo <= hi -> set_mem [lo; 45; hi] x = (lo <=? x) && (x <=? hi).
Proof.
  intros H1 H2. unfold set_mem, set_chunks. destruct (N.eqb_spec lo 33); [contradiction|].
  cbn [chunkify app]. change (45 =? 45) with true. cbv iota. cbn [chunkify app fix_last fix_ranges].
  cbn [last_opt rev app hd_opt]. destruct (N.ltb_spec hi lo); [lia|].
  destruct (N.eqb_spec lo 33); [contradiction|].
  cbn [mem_chunks existsb last_opt rev app hd_opt].
  destruct (N.eqb_spec x lo), (N.eqb_spec x hi), (N.leb_spec lo x), (N.leb_spec x hi); cbn; try reflexivity; lia.
Qed.
