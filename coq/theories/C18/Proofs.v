(* C18 — lemmas: see ProofsCodec.v (packet codecs), ProofsGlob.v (wildcard matcher), ProofsResp.v
   (responder, junk datagrams, asking side). *)
Require Export QV.C18.ProofsCodec QV.C18.ProofsGlob QV.C18.ProofsResp.
