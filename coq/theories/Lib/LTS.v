(* Finite-reachability reflection: an explicitly computed state list that contains the initial
   state and is closed under the executable successor function contains every reachable state,
   for executions of ANY length.  Used for the finite-state concurrency models (C11, ...). *)
From Coq Require Import List Bool Arith.
Import ListNotations.

Section LTS.
  Variable S : Type.
  Variable eqb : S -> S -> bool.
  Hypothesis eqb_sound : forall a b, eqb a b = true -> a = b.
  Variable succ : S -> list S.
  Variable init : S.

  Inductive Reach : S -> Prop :=
  | Reach_init : Reach init
  | Reach_step : forall s s', Reach s -> In s' (succ s) -> Reach s'.

  Definition memb (x : S) (l : list S) : bool := existsb (eqb x) l.

  Lemma memb_In x l : memb x l = true -> In x l.
  Proof.
    unfold memb. intro H. apply existsb_exists in H as [y [Hy E]].
    apply eqb_sound in E. subst. exact Hy.
  Qed.

  Definition closed (l : list S) : bool :=
    memb init l && forallb (fun s => forallb (fun s' => memb s' l) (succ s)) l.

  Lemma closed_reach l : closed l = true -> forall s, Reach s -> In s l.
  Proof.
    unfold closed. intro H. apply andb_true_iff in H as [Hi Hc].
    intros s R. induction R as [|s s' R IH Hs].
    - apply memb_In; exact Hi.
    - rewrite forallb_forall in Hc. specialize (Hc s IH).
      rewrite forallb_forall in Hc. apply memb_In. apply Hc. exact Hs.
  Qed.

  Theorem closed_set_invariant l (P : S -> bool) :
    closed l = true -> forallb P l = true -> forall s, Reach s -> P s = true.
  Proof.
    intros Hc Hp s R. rewrite forallb_forall in Hp. apply Hp. eapply closed_reach; eauto.
  Qed.

  (* breadth-first exploration with fuel; [seen] accumulates *)
  Fixpoint add_new (xs : list S) (seen : list S) (acc : list S) : list S * list S :=
    match xs with
    | [] => (seen, acc)
    | x :: r => if memb x seen then add_new r seen acc else add_new r (x :: seen) (x :: acc)
    end.

  Fixpoint bfs (fuel : nat) (frontier seen : list S) : list S :=
    match fuel with
    | 0 => seen
    | Datatypes.S f =>
        match frontier with
        | [] => seen
        | _ => let '(seen', new) := add_new (flat_map succ frontier) seen [] in bfs f new seen'
        end
    end.

  Definition explore (fuel : nat) : list S := bfs fuel [init] [init].

  (* Bounded progress w.r.t. a sub-relation [core] of [succ] (used for "release needs no time
     step"): a rank that strictly decreases along every core step from every state of a closed
     set bounds the length of every core path from every reachable state. *)
  Variable core : S -> list S.
  Hypothesis core_incl : forall s s', In s' (core s) -> In s' (succ s).
  Variable rank : S -> nat.

  Definition rank_ok (l : list S) : bool :=
    forallb (fun s => forallb (fun s' => Nat.ltb (rank s') (rank s)) (core s)) l.

  Inductive CorePath : S -> nat -> Prop :=
  | CP0 : forall s, CorePath s 0
  | CPS : forall s s' n, In s' (core s) -> CorePath s' n -> CorePath s (Datatypes.S n).

  Theorem rank_bound l : closed l = true -> rank_ok l = true ->
    forall s n, Reach s -> CorePath s n -> n <= rank s.
  Proof.
    intros Hc Hr s n R P. revert R. induction P as [s|s s' n Hin P IH]; intro R.
    - apply Nat.le_0_l.
    - assert (R' : Reach s') by (eapply Reach_step; [exact R | apply core_incl; exact Hin]).
      specialize (IH R').
      unfold rank_ok in Hr. rewrite forallb_forall in Hr.
      specialize (Hr s (closed_reach l Hc s R)). rewrite forallb_forall in Hr.
      specialize (Hr s' Hin). apply Nat.ltb_lt in Hr.
      eapply Nat.le_trans; [apply le_n_S; exact IH | exact Hr].
  Qed.
End LTS.

(* rank tables computed by relaxation: rank_{i+1}(s) = max over core successors of rank_i + 1 *)
Section Rank.
  Variable S : Type.
  Variable eqb : S -> S -> bool.
  Variable core : S -> list S.

  Fixpoint lookup (t : list (S * nat)) (x : S) : nat :=
    match t with
    | [] => 0
    | (y, n) :: r => if eqb x y then n else lookup r x
    end.

  Definition relax (t : list (S * nat)) : list (S * nat) :=
    map (fun p => (fst p, fold_left (fun a s' => Nat.max a (Datatypes.S (lookup t s'))) (core (fst p)) 0)) t.

  Fixpoint relax_n (n : nat) (t : list (S * nat)) : list (S * nat) :=
    match n with 0 => t | Datatypes.S k => relax_n k (relax t) end.

  Definition rank_table (rounds : nat) (l : list S) : list (S * nat) :=
    relax_n rounds (map (fun s => (s, 0)) l).
End Rank.
