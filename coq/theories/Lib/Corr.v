(* Helpers used by the generated correspondence case files. *)
From Coq Require Import List Arith ZArith NArith Bool.
Import ListNotations.

Fixpoint failing_from {A} (chk : A -> bool) (i : nat) (l : list A) : list nat :=
  match l with
  | [] => []
  | x :: r => if chk x then failing_from chk (S i) r else i :: failing_from chk (S i) r
  end.

Definition failing {A} (chk : A -> bool) (l : list A) : list nat := failing_from chk 0 l.

Fixpoint list_eqb {A} (eqb : A -> A -> bool) (a b : list A) : bool :=
  match a, b with
  | [], [] => true
  | x :: a', y :: b' => eqb x y && list_eqb eqb a' b'
  | _, _ => false
  end.

Definition option_eqb {A} (eqb : A -> A -> bool) (a b : option A) : bool :=
  match a, b with
  | None, None => true
  | Some x, Some y => eqb x y
  | _, _ => false
  end.

Definition pair_eqb {A B} (ea : A -> A -> bool) (eb : B -> B -> bool) (a b : A * B) : bool :=
  ea (fst a) (fst b) && eb (snd a) (snd b).

Lemma list_eqb_spec {A} (eqb : A -> A -> bool) :
  (forall x y, eqb x y = true <-> x = y) ->
  forall a b, list_eqb eqb a b = true <-> a = b.
Proof.
  intros H a; induction a as [|x a IH]; intros [|y b]; simpl; split; intro E;
    try reflexivity; try discriminate.
  - apply andb_true_iff in E as [E1 E2]. apply H in E1. apply IH in E2. congruence.
  - inversion E; subst. apply andb_true_iff; split; [apply H; reflexivity | apply IH; reflexivity].
Qed.
