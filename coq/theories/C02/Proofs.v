Require Import QV.C02.Model.

Section MsgProofs.
  Variable P : Type.
  Variable bytes : Type.
  Variable ser : msg P -> option bytes.
  Variable deser : bytes -> option (msg P).
  Hypothesis pickle_roundtrip : forall m b, ser m = Some b -> deser b = Some m.

  Lemma hop_spec sname rname alias_r alias_s m m' :
    hop P bytes ser deser sname rname alias_r alias_s m = Some m' ->
    pay P m' = pay P m /\
    aobj (src P m') = aobj (src P m) /\ aobj (dst P m') = aobj (dst P m) /\
    actx (dst P m') = rname /\ actx (src P m') = alias_s /\
    actx (dst P m) = alias_r /\ actx (src P m) = sname.
  Proof.
    unfold hop, send_rewrite, recv_rewrite. intro H.
    destruct (Nat.eqb_spec (actx (dst P m)) alias_r) as [E1|E1]; [|discriminate].
    destruct (ser _) as [b|] eqn:Es; [|discriminate].
    rewrite (pickle_roundtrip _ _ Es) in H. simpl in H.
    rewrite Nat.eqb_refl in H.
    destruct (Nat.eqb_spec (actx (src P m)) sname) as [E2|E2]; [|discriminate].
    inversion H; subst; simpl. repeat split; reflexivity.
  Qed.

  (* request from a client future to a server object and the reply back: the reply arrives at
     the very handler that issued the request, with the reply payload untouched *)
  Lemma roundtrip cname sname alias_s_at_c alias_c_at_s fut obj (req : msg P) (req' rep rep' : msg P) (p q : P) :
    req = mkMsg P (mkAddr cname fut) (mkAddr alias_s_at_c obj) p ->
    hop P bytes ser deser cname sname alias_s_at_c alias_c_at_s req = Some req' ->
    rep = mkMsg P (dst P req') (src P req') q ->         (* the worker answers: source and destination swapped *)
    hop P bytes ser deser sname cname alias_c_at_s alias_s_at_c rep = Some rep' ->
    dst P rep' = mkAddr cname fut /\ pay P rep' = q /\ pay P req' = p /\
    dst P req' = mkAddr sname obj /\ src P rep' = mkAddr alias_s_at_c obj.
  Proof.
    intros Hreq H1 Hrep H2. subst req.
    apply hop_spec in H1 as (A1 & A2 & A3 & A4 & A5 & _ & _). simpl in *.
    subst rep. apply hop_spec in H2 as (B1 & B2 & B3 & B4 & B5 & _ & _). simpl in *.
    destruct (dst P rep') as [c o] eqn:Ed, (src P rep') as [c2 o2] eqn:Es2,
             (dst P req') as [c3 o3] eqn:Ed3. simpl in *. subst.
    repeat split; try reflexivity; try assumption; try (f_equal; assumption); try (f_equal; congruence).
  Qed.
End MsgProofs.

(* generated future addresses of one context are pairwise distinct *)
Lemma issue_lower ctr n : Forall (fun a => ctr < a) (issue_addresses ctr n).
Proof.
  revert ctr; induction n as [|n IH]; intro ctr; simpl; [constructor|].
  constructor; [lia|]. eapply Forall_impl; [|apply IH]. simpl; intros; lia.
Qed.

Lemma issue_nodup ctr n : NoDup (issue_addresses ctr n).
Proof.
  revert ctr; induction n as [|n IH]; intro ctr; simpl; constructor; [|apply IH].
  intro Hin. pose proof (issue_lower (S ctr) n) as F. rewrite Forall_forall in F.
  specialize (F _ Hin). lia.
Qed.
