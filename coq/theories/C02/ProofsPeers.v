Require Import QV.C02.ModelPeers.

Definition aliases (p : peers) : list nat := map fst (table p).

Record PInv (p : peers) : Prop := {
  pi_bound : Forall (fun a => 0 < a <= counter p) (aliases p);
  pi_nodup : NoDup (aliases p) }.

Lemma NoDup_snoc {A} (l : list A) (x : A) : NoDup l -> ~ In x l -> NoDup (l ++ [x]).
Proof.
  induction l as [|a l IH]; simpl; intros Hn Hx.
  - constructor; [intros []|constructor].
  - inversion Hn; subst. constructor.
    + intro Hin. apply in_app_or in Hin as [Hin|[E|[]]]; [contradiction|subst]. apply Hx. left; reflexivity.
    + apply IH; [assumption|]. intro; apply Hx; right; assumption.
Qed.

Lemma filter_map_sub (t : list (nat * nat)) f : forall a, In a (map fst (filter f t)) -> In a (map fst t).
Proof.
  induction t as [|e t IH]; simpl; intros a H; [exact H|].
  destruct (f e); simpl in H; [destruct H as [H|H]; [left; exact H | right; apply IH; exact H] | right; apply IH; exact H].
Qed.

Lemma filter_map_nodup (t : list (nat * nat)) f : NoDup (map fst t) -> NoDup (map fst (filter f t)).
Proof.
  induction t as [|e t IH]; simpl; intro N; [constructor|]. inversion N; subst.
  destruct (f e); simpl; [constructor; [|apply IH; assumption] | apply IH; assumption].
  intro Hin. apply filter_map_sub in Hin. contradiction.
Qed.

Lemma pstep_inv p o : PInv p -> PInv (pstep p o).
Proof.
  intros [Hb Hn]. destruct o as [c|a]; unfold aliases in *; simpl.
  - constructor; unfold aliases; simpl; rewrite map_app; simpl.
    + apply Forall_app; split; [eapply Forall_impl; [|exact Hb]; simpl; intros; lia | constructor; [lia | constructor]].
    + apply NoDup_snoc; [exact Hn|]. intro Hin. rewrite Forall_forall in Hb. specialize (Hb _ Hin). lia.
  - constructor; unfold aliases; simpl.
    + rewrite Forall_forall in *. intros x Hx. apply Hb. eapply filter_map_sub; exact Hx.
    + apply filter_map_nodup; exact Hn.
Qed.

Lemma prun_inv ops : forall p, PInv p -> PInv (fold_left pstep ops p).
Proof. induction ops as [|o ops IH]; simpl; intros p H; [exact H|]. apply IH. apply pstep_inv; exact H. Qed.

Theorem aliases_distinct ops : NoDup (aliases (prun ops)).
Proof. apply (prun_inv ops peers0). constructor; simpl; constructor. Qed.

Lemma route_in t a c : NoDup (map fst t) -> In (a, c) t -> route t a = Some c.
Proof.
  induction t as [|[a' c'] t IH]; simpl; intros N Hin; [contradiction|].
  inversion N as [|? ? Hn N']; subst. destruct Hin as [E|Hin].
  - inversion E; subst. rewrite Nat.eqb_refl. reflexivity.
  - destruct (Nat.eqb_spec a' a) as [E|E].
    + subst. exfalso. apply Hn. apply in_map_iff. exists (a, c). auto.
    + apply IH; assumption.
Qed.

(* a connection that is in the table is reached by exactly its own alias, whatever other
   connections came and went before or after it *)
Theorem route_own ops a c : In (a, c) (table (prun ops)) -> route (table (prun ops)) a = Some c.
Proof. intro H. apply route_in; [apply aliases_distinct | exact H]. Qed.

(* a new connection never receives an alias that is or ever was in use: its alias is larger than
   every alias handed out before *)
Theorem fresh_alias ops c :
  Forall (fun a => a < S (counter (prun ops))) (aliases (prun ops)) /\
  In (S (counter (prun ops)), c) (table (prun (ops ++ [PConnect c]))).
Proof.
  split.
  - pose proof (prun_inv ops peers0) as H. destruct H as [Hb _]; [constructor; simpl; constructor|].
    unfold prun. eapply Forall_impl; [|exact Hb]. simpl; intros; lia.
  - unfold prun. rewrite fold_left_app. simpl. apply in_or_app. right. left. reflexivity.
Qed.
