(* C02 — the server side's table of incoming peers (qmi/core/messaging.py _SocketManager:
   add_incoming_connection, remove_peer_connection, the lookup in send_message).
   An incoming connection gets the alias "$client_<n>" with n taken from a counter that only ever
   grows; the table maps alias -> connection; a reply addressed to an alias is written to the
   connection stored under it.  Connections are identified by the order of their arrival. *)
From Coq Require Export List Arith Bool Lia.
Export ListNotations.

Record peers := mkPeers { counter : nat; table : list (nat * nat) }.   (* (alias number, connection id) *)
Definition peers0 : peers := mkPeers 0 [].

Inductive pop := PConnect (conn : nat) | PDisconnect (alias : nat).

Definition pstep (p : peers) (o : pop) : peers :=
  match o with
  | PConnect c => mkPeers (S (counter p)) (table p ++ [(S (counter p), c)])
  | PDisconnect a => mkPeers (counter p) (filter (fun e => negb (Nat.eqb (fst e) a)) (table p))
  end.

Definition prun (ops : list pop) : peers := fold_left pstep ops peers0.

Fixpoint route (t : list (nat * nat)) (alias : nat) : option nat :=
  match t with
  | [] => None
  | (a, c) :: r => if Nat.eqb a alias then Some c else route r alias
  end.
