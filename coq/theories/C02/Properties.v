(* C02 — a proxy call behaves like a direct call, locally and across contexts.
   PARTIAL by nature: that a value survives pickling unchanged is an assumed law of the library
   (hypothesis [pickle_roundtrip]; exercised, not proved, by the differential harness).  What is
   proved: the transport touches nothing but the two context names, a reply comes back to the
   future that sent the request, and every future receives the outcome of ITS OWN request. *)
Require Import QV.C02.Model QV.C02.Proofs QV.C02.ModelPeers QV.C02.ProofsPeers QV.C01.Model QV.C01.ProofsBasic.

(* one hop over a connection: payload (method name, args, kwargs, lock token, state, result,
   request id), source object and destination object are untouched; only the two context names
   are rewritten (destination alias -> real name, real source name -> local alias) *)
Theorem C02_payload_untouched : forall (P bytes : Type) (ser : msg P -> option bytes) (deser : bytes -> option (msg P)),
  (forall m b, ser m = Some b -> deser b = Some m) ->
  forall sname rname alias_r alias_s m m',
  hop P bytes ser deser sname rname alias_r alias_s m = Some m' ->
  pay P m' = pay P m /\
  aobj (src P m') = aobj (src P m) /\ aobj (dst P m') = aobj (dst P m) /\
  actx (dst P m') = rname /\ actx (src P m') = alias_s /\
  actx (dst P m) = alias_r /\ actx (src P m) = sname.
Proof. exact hop_spec. Qed.
Print Assumptions C02_payload_untouched.

(* request out, reply back: the reply is delivered to the very future that issued the request *)
Theorem C02_reply_reaches_requester : forall (P bytes : Type) (ser : msg P -> option bytes) (deser : bytes -> option (msg P)),
  (forall m b, ser m = Some b -> deser b = Some m) ->
  forall cname sname alias_s_at_c alias_c_at_s fut obj req req' rep rep' p q,
  req = mkMsg P (mkAddr cname fut) (mkAddr alias_s_at_c obj) p ->
  hop P bytes ser deser cname sname alias_s_at_c alias_c_at_s req = Some req' ->
  rep = mkMsg P (dst P req') (src P req') q ->
  hop P bytes ser deser sname cname alias_c_at_s alias_s_at_c rep = Some rep' ->
  dst P rep' = mkAddr cname fut /\ pay P rep' = q /\ pay P req' = p /\
  dst P req' = mkAddr sname obj /\ src P rep' = mkAddr alias_s_at_c obj.
Proof. exact roundtrip. Qed.
Print Assumptions C02_reply_reaches_requester.

(* future addresses generated in one context are pairwise distinct (so "the future that issued
   the request" is unambiguous) *)
Theorem C02_future_addresses_distinct : forall ctr n, NoDup (issue_addresses ctr n).
Proof. exact issue_nodup. Qed.
Print Assumptions C02_future_addresses_distinct.

(* under any number of concurrent callers, in either placement, each caller receives the outcome
   of its own invocation: whatever a future holds other than a delivery error is exactly what
   executing its own request yields (value, exception or locked) *)
Theorem C02_equiv : forall fx info ls s r o,
  run fx info init ls = Some s -> In (r, o) (out s) -> o <> ODeliveryError -> o = body (info r).
Proof.
  intros fx info ls s r o H Hin Hn. destruct (own_outcome fx info ls s r o H Hin); [assumption|contradiction].
Qed.
Print Assumptions C02_equiv.

(* any number of client contexts: after any history of clients connecting and disconnecting, the
   aliases of the live incoming connections are pairwise distinct, a reply addressed to an alias is
   written to the connection that was given that alias, and a new connection never gets an alias
   that is or ever was in use (so it cannot take over another client's replies) *)
Theorem C02_aliases_distinct : forall ops, NoDup (map fst (table (prun ops))).
Proof. exact aliases_distinct. Qed.
Print Assumptions C02_aliases_distinct.

Theorem C02_reply_routed_to_own_connection : forall ops a c,
  In (a, c) (table (prun ops)) -> route (table (prun ops)) a = Some c.
Proof. exact route_own. Qed.
Print Assumptions C02_reply_routed_to_own_connection.

Theorem C02_fresh_alias : forall ops c,
  Forall (fun a => a < S (counter (prun ops))) (map fst (table (prun ops))) /\
  In (S (counter (prun ops)), c) (table (prun (ops ++ [PConnect c]))).
Proof. exact fresh_alias. Qed.
Print Assumptions C02_fresh_alias.

Example C02_example_peers :
  table (prun [PConnect 10; PConnect 11; PDisconnect 1; PConnect 12]) = [(2, 11); (3, 12)].
Proof. vm_compute. reflexivity. Qed.

Example C02_example_hop :
  hop nat (msg nat) (fun m => Some m) (fun b => Some b) 7 9 9 100
      (mkMsg nat (mkAddr 7 3) (mkAddr 9 5) 42)
  = Some (mkMsg nat (mkAddr 100 3) (mkAddr 9 5) 42).
Proof. vm_compute. reflexivity. Qed.
