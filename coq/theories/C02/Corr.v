(* C02 correspondence: one hop through two real _PeerTcpConnection objects (send_message on one,
   _process_message on the other) must rewrite the addresses exactly as [hop] does, or be refused
   where [hop] refuses.  Names are interned as numbers by the harness; the payload is a number
   standing for the (pickled and compared) payload fields. *)
Require Export QV.Lib.Corr QV.C02.Model QV.C02.ModelPeers.

Definition idmsg := msg nat.
(* sname rname alias_r alias_s, message (src ctx/obj, dst ctx/obj, payload id), observed result *)
Definition case := (nat * nat * nat * nat * (nat * nat * nat * nat * nat) * option (nat * nat * nat * nat * nat))%type.

Definition model_out (c : case) : option (nat * nat * nat * nat * nat) :=
  let '(sn, rn, ar, als, (sc, so, dc, d, p), _) := c in
  match hop nat idmsg (fun m => Some m) (fun b => Some b) sn rn ar als (mkMsg nat (mkAddr sc so) (mkAddr dc d) p) with
  | Some m => Some (actx (src nat m), aobj (src nat m), actx (dst nat m), aobj (dst nat m), pay nat m)
  | None => None
  end.

Definition t5_eqb (a b : nat * nat * nat * nat * nat) : bool :=
  let '(a1, a2, a3, a4, a5) := a in let '(b1, b2, b3, b4, b5) := b in
  Nat.eqb a1 b1 && Nat.eqb a2 b2 && Nat.eqb a3 b3 && Nat.eqb a4 b4 && Nat.eqb a5 b5.

Definition check_case (c : case) : bool :=
  let '(_, _, _, _, _, obs) := c in option_eqb t5_eqb (model_out c) obs.

(* peers table: a history of connects / disconnects and the table observed on the real _SocketManager
   (alias number, connection id) in insertion order *)
Definition pcase := (list pop * list (nat * nat))%type.
Definition check_pcase (c : pcase) : bool :=
  let '(ops, obs) := c in
  list_eqb (pair_eqb Nat.eqb Nat.eqb) (table (prun ops)) obs.
